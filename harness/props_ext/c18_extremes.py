"""C18 extension — reductions on data whose SPECIAL CELLS are placed per block and per lane, and on DTYPE EXTREMES.

Two case streams, both replayed through C18.check_case (the data is a deterministic function of the case dict:
`plan` + `data_seed` + shape / chunks / axis / dtype; oracle = NumPy on the same array):

  * plan kind "nanplace": NaN cells arranged relative to the BLOCK GRID and to the LANES of the reduced axes
      lane_in_block   one lane is entirely NaN inside ONE block (numbers in the other blocks)
      mixed_lane      another lane of the SAME block mixes NaN with numbers (optionally NaN first) and holds that
                      lane's global maximum / minimum (plan.sign) inside that block
      block_all       a whole block is NaN
      edges           NaN in the first / last cell of every block along the reduced axis
      lane_in_run     a lane that is NaN in a run of >= 2 neighbouring blocks (a whole combine group), numbers elsewhere
      lane_global     a lane that is NaN in every block (NumPy: nanarg* raise, the others give NaN)
      scatter, all
    for every nan-aware reduction, every arg-reduction and the NaN-propagating ones, rank 2-3, explicit axes
    (int, negative, tuple), both keepdims, split_every in {None, int, dict}.
  * plan kind "extremes": every reduction on unsigned ints (sparse: mostly zeros; pool: 0 / 1 / max), signed ints
    (dtype minimum / maximum), bool (all False / all True / mixed), float32/64 (+-inf, NaN, -0.0), complex64/128 (NaN),
    wide random ints (sum / prod wrap like NumPy), explicit integer dtype= for sum/prod, topk / argtopk with k > 0 and
    k < 0 and |k| in {1, 2, 3, n-1, n} on lanes with fewer than |k| non-zero entries, weighted average with integer and
    float weights.
"""
from __future__ import annotations

import numpy as np

from harness import gen

NAN_AWARE = ["nansum", "nanprod", "nanmin", "nanmax", "nanmean", "nanvar", "nanstd", "nanargmin", "nanargmax"]
NAN_PROP = ["sum", "prod", "min", "max", "mean", "var", "std", "argmin", "argmax", "any", "all", "count_nonzero", "ptp", "topk",
            "argtopk", "moment3", "average", "average_w"]
ARG = {"argmin", "argmax", "nanargmin", "nanargmax"}
SINGLE_AXIS = ARG | {"topk", "argtopk", "average_w"}
NO_KEEPDIMS = {"count_nonzero", "topk", "argtopk", "ptp"}
COMPLEX_OK = {"sum", "prod", "mean", "var", "std", "any", "all", "count_nonzero", "nansum", "average"}

MOVE_SETS = [
    ["lane_in_block", "mixed_lane"],
    ["lane_in_block", "mixed_lane", "edges"],
    ["lane_in_block"],
    ["mixed_lane"],
    ["block_all"],
    ["block_all", "mixed_lane"],
    ["edges"],
    ["lane_global", "mixed_lane"],
    ["scatter", "lane_in_block"],
    ["lane_in_run", "mixed_lane"],
    ["lane_in_run"],
    ["all"],
]

INT_DTYPES = ["uint8", "uint16", "uint32", "uint64", "int8", "int16", "int32", "int64"]
EXT_DTYPES = INT_DTYPES + ["bool", "float32", "float64", "complex64", "complex128"]
EXT_REDS = ["sum", "prod", "min", "max", "any", "all", "mean", "var", "std", "moment2", "moment3", "nansum", "nanprod", "nanmin",
            "nanmax", "nanmean", "nanvar", "nanstd", "argmin", "argmax", "nanargmin", "nanargmax", "count_nonzero", "topk",
            "argtopk", "ptp", "average", "average_w"]


# --------------------------------------------------------------------------- data

def _axes(case):
    nd = len(case["shape"])
    axis = case["axis"]
    if axis is None:
        return list(range(nd))
    if isinstance(axis, int):
        return [axis % nd]
    return sorted({a % nd for a in axis})


def _bounds(chunks):
    out = []
    for cs in chunks:
        p, b = 0, []
        for c in cs:
            b.append((p, p + c))
            p += c
        out.append(b)
    return out


def _pick_block(rg, bounds, nonempty=True):
    bi = []
    for b in bounds:
        cand = [i for i, (lo, hi) in enumerate(b) if hi > lo] if nonempty else list(range(len(b)))
        if not cand:
            return None
        bi.append(int(cand[int(rg.integers(0, len(cand)))]))
    return bi


def _lane_index(rg, bounds, bi, red, kept, avoid=None):
    """index tuple selecting one lane (all reduced axes: the block's range; kept axes: one position) of block bi."""
    for _ in range(8):
        fixed = {a: int(rg.integers(bounds[a][bi[a]][0], bounds[a][bi[a]][1])) for a in kept}
        if avoid is None or fixed != avoid:
            break
    else:
        return None, None
    ind = tuple(slice(*bounds[a][bi[a]]) if a in red else fixed[a] for a in range(len(bounds)))
    return ind, fixed


def nanplace_data(case):
    rg = np.random.default_rng(int(case["data_seed"]))
    plan = case["plan"]
    shape = tuple(case["shape"])
    dt = np.dtype(case["dtype"])
    n = int(np.prod(shape))
    if case["red"] in ("prod", "nanprod"):
        x = (0.5 + rg.random(shape)) * rg.choice(np.array([1.0, -1.0]), size=shape)
    elif plan.get("ties"):
        x = rg.integers(-3, 4, size=shape).astype(float)
    else:
        x = rg.permutation(n).reshape(shape) / 4.0 - n / 8.0
    x = x.astype(dt)
    if not n:
        return x
    red = _axes(case)
    kept = [a for a in range(len(shape)) if a not in red]
    bounds = _bounds(case["chunks"])
    sign = plan.get("sign", 1)
    big = [float(n)]
    st = {}

    def block():
        if "bi" not in st:
            st["bi"] = _pick_block(rg, bounds)
        return st["bi"]

    for mv in plan["moves"]:
        if mv == "all":
            x[...] = np.nan
        elif mv == "scatter":
            x[rg.random(shape) < 0.3] = np.nan
        elif mv == "block_all":
            bi = block()
            if bi is not None:
                x[tuple(slice(*bounds[a][bi[a]]) for a in range(len(shape)))] = np.nan
        elif mv == "lane_in_block":
            bi = block()
            if bi is not None:
                ind, fixed = _lane_index(rg, bounds, bi, red, kept)
                x[ind] = np.nan
                st["lane"] = fixed
        elif mv == "lane_in_run":
            # the lane is NaN in a RUN of >= 2 neighbouring blocks along the reduced axis (a whole combine group of a
            # split_every=2 tree), numbers elsewhere when there are more blocks
            bi = block()
            if bi is not None:
                ax = red[0]
                live = [i for i, (lo, hi) in enumerate(bounds[ax]) if hi > lo]
                if len(live) >= 2:
                    ln = int(rg.integers(2, max(3, len(live))))  # 2 .. len(live)-1 (2 when there are only 2-3 blocks)
                    ln = min(ln, len(live))
                    s0 = int(rg.integers(0, len(live) - ln + 1))
                    run = live[s0:s0 + ln]
                    bi[ax] = run[int(rg.integers(0, len(run)))]
                    ind, fixed = _lane_index(rg, bounds, bi, red, kept)
                    ind = list(ind)
                    ind[ax] = slice(bounds[ax][run[0]][0], bounds[ax][run[-1]][1])
                    x[tuple(ind)] = np.nan
                    st["lane"] = fixed
        elif mv == "lane_global":
            fixed = {a: int(rg.integers(0, shape[a])) for a in kept}
            x[tuple(slice(None) if a in red else fixed[a] for a in range(len(shape)))] = np.nan
            st.setdefault("lane", fixed)
            if "bi" not in st:
                bi = _pick_block(rg, bounds)
                if bi is not None:
                    for a in kept:
                        bi[a] = next(i for i, (lo, hi) in enumerate(bounds[a]) if lo <= fixed[a] < hi)
                    st["bi"] = bi
        elif mv == "mixed_lane":
            bi = block()
            if bi is None:
                continue
            ind, fixed = _lane_index(rg, bounds, bi, red, kept, avoid=st.get("lane") if kept else None)
            if ind is None:
                continue
            sub = x[ind]  # view (basic indexing)
            m = sub.size
            if m < 2:
                continue
            flat = np.arange(m)
            k = int(rg.integers(1, m))  # 1..m-1 NaN cells: a proper, non-empty subset
            cells = rg.permutation(m)[:k]
            if plan.get("first") and 0 not in cells:
                cells[0] = 0
            mask = np.zeros(m, dtype=bool)
            mask[cells] = True
            free = flat[~mask]
            vals = sub.reshape(-1).copy()
            vals[mask] = np.nan
            if plan.get("extreme", True):
                big[0] += 1.0
                vals[int(free[int(rg.integers(0, free.size))])] = sign * big[0]
            x[ind] = vals.reshape(sub.shape)
        elif mv == "edges":
            ax = red[0]
            where = plan.get("edge", "both")
            lanes = rg.random([shape[a] if a in kept else 1 for a in range(len(shape))]) < plan.get("edge_p", 0.5)
            for lo, hi in bounds[ax]:
                if hi <= lo:
                    continue
                for pos in ([lo] if where == "first" else [hi - 1] if where == "last" else [lo, hi - 1]):
                    ind = [slice(None)] * len(shape)
                    ind[ax] = slice(pos, pos + 1)
                    sel = x[tuple(ind)]
                    sel[np.broadcast_to(lanes, sel.shape)] = np.nan
    return x


def extreme_data(case):
    rg = np.random.default_rng(int(case["data_seed"]))
    plan = case["plan"]
    shape = tuple(case["shape"])
    dt = np.dtype(case["dtype"])
    mode = plan.get("mode", "pool")
    if dt.kind == "b":
        p = plan.get("p", 0.5)
        return rg.random(shape) < p
    if dt.kind in "iu":
        info = np.iinfo(dt)
        if mode == "wide":
            return rg.integers(info.min, info.max, size=shape, dtype=dt, endpoint=True)
        pool = [info.max, info.max - 1, info.min, info.min + 1, 0, 0, 1, 2, 3, info.max // 2]
        if dt.kind == "i":
            pool += [-1, -2]
        pool = np.array(pool, dtype=dt)
        if mode == "sparse":
            # mostly zeros, like a histogram of rare events; the rest small counts or pool members
            x = np.where(rg.random(shape) < 0.5, rg.integers(1, 100, size=shape).astype(dt), rg.choice(pool, size=shape))
            x = x.astype(dt)
            x[rg.random(shape) < plan.get("p0", 0.8)] = 0
            return x
        if mode == "small":
            return rg.integers(0 if dt.kind == "u" else -4, 5, size=shape).astype(dt)
        return rg.choice(pool, size=shape).astype(dt)
    # float / complex
    if case["red"] in ("prod", "nanprod"):
        x = (0.5 + rg.random(shape)) * rg.choice(np.array([1.0, -1.0]), size=shape)
    else:
        x = np.round(rg.normal(size=shape) * 4, 1) + rg.integers(-2, 3, size=shape)
    if dt.kind == "c":
        x = x + 1j * np.round(rg.normal(size=shape) * 2, 1)
        if case["red"] == "prod":
            x = np.exp(1j * rg.random(shape)) * (0.8 + 0.4 * rg.random(shape))
    x = x.astype(dt)
    table = {"nan": np.nan, "inf": np.inf, "-inf": -np.inf, "-0.0": -0.0, "0.0": 0.0}
    specials = [s for s in plan.get("specials", []) if s in table]
    if specials and x.size:
        sel = rg.random(shape) < plan.get("ps", 0.35)
        vals = rg.choice(np.array([table[s] for s in specials]), size=shape)
        x[sel] = vals[sel].astype(dt)
    return x


def planned_data(case):
    kind = case["plan"]["kind"]
    if kind == "nanplace":
        return nanplace_data(case)
    if kind == "extremes":
        return extreme_data(case)
    raise ValueError(f"unknown plan kind {kind!r}")


def weights_for(case, n):
    """weights of the weighted average: dtype / value range from the case (default: float64 in 1..4)."""
    wdt = np.dtype(case.get("wdtype", "float64"))
    if "wliteral" in case:
        return np.array(case["wliteral"], dtype=wdt)
    rg = np.random.default_rng(int(case["data_seed"]) + 1)
    hi = int(case.get("wmax", 4))
    w = rg.integers(1, hi + 1, size=n)
    return w.astype(wdt)


def plan_tag(case):
    p = case.get("plan")
    if not p:
        return ()
    if p["kind"] == "nanplace":
        return ("nanplace", tuple(p["moves"]), p.get("sign", 1), bool(p.get("first")), p.get("edge"), bool(p.get("ties")))
    k = case.get("k")
    kcls = None
    if k is not None:
        n = case["shape"][case["axis"]]
        kcls = ("+" if k > 0 else "-") + ("n" if abs(k) == n else ("n-1" if abs(k) == n - 1 else str(min(abs(k), 4))))
    return ("extremes", p.get("mode"), tuple(p.get("specials", [])), kcls, case.get("rdtype"), case.get("wdtype"))


# --------------------------------------------------------------------------- generators

def _split_every(rng, nd):
    r = rng.random()
    if r < 0.25:
        return None
    if r < 0.7:
        return rng.choice([2, 2, 3, 4, 16])
    keys = rng.sample(range(nd), rng.randint(1, nd))
    return {str(k): rng.choice([2, 2, 3]) for k in keys}


def _chunks_multi(rng, n, lo=1):
    """chunking of n that has >= 2 blocks when n allows it (most of the time), block sizes >= lo where possible."""
    if n < 2 * lo or rng.random() < 0.12:
        return [n]
    parts, left = [], n
    while left > 0:
        c = rng.randint(lo, max(lo, min(4, left)))
        if left - c < lo and left - c > 0:
            c = left
        c = min(c, left)
        parts.append(c)
        left -= c
    if len(parts) == 1 and n >= 2 * lo:
        parts = [n // 2, n - n // 2]
    return parts


def nanplace_case(rng, red, moves):
    nd = rng.choice([2, 2, 2, 3])
    shape = [rng.randint(2, 8) for _ in range(nd)] if nd == 2 else [rng.randint(2, 5) for _ in range(nd)]
    if red in SINGLE_AXIS:
        axis = rng.randrange(-nd, nd)
    else:
        r = rng.random()
        if r < 0.65:
            axis = rng.randrange(-nd, nd)
        elif r < 0.9 or nd < 3:
            axs = rng.sample(range(nd), rng.randint(1, nd - 1) if nd > 2 else 1)
            axis = [a - nd if rng.random() < 0.3 else a for a in axs]
        else:
            axis = None
    red_axes = set(range(nd)) if axis is None else ({axis % nd} if isinstance(axis, int) else {a % nd for a in axis})
    # the reduced axes get >= 2 blocks of >= 2 cells most of the time (a lane that is NaN in ONE block has numbers elsewhere)
    for i in red_axes:
        if shape[i] < 4 and rng.random() < 0.85:
            shape[i] = rng.randint(4, 9 if nd == 2 else 6)
    chunks = [_chunks_multi(rng, n, lo=2 if (i in red_axes and rng.random() < 0.8) else 1) for i, n in enumerate(shape)]
    sign = 1 if "max" in red else (-1 if "min" in red else rng.choice([1, -1]))
    if rng.random() < 0.15:
        sign = -sign
    plan = {"kind": "nanplace", "moves": list(moves), "sign": sign, "first": rng.random() < 0.6, "ties": rng.random() < 0.25}
    if "edges" in moves:
        plan["edge"] = rng.choice(["first", "last", "both"])
        plan["edge_p"] = rng.choice([0.3, 0.6, 1.0])
    case = {"red": red, "shape": shape, "chunks": chunks, "axis": axis, "keepdims": rng.random() < 0.4 and red not in NO_KEEPDIMS,
            "split_every": _split_every(rng, nd), "dtype": "float32" if rng.random() < 0.15 else "float64", "nan": "plan",
            "plan": plan, "data_seed": rng.randint(0, 2**31 - 1)}
    if red in ("var", "std", "nanvar", "nanstd"):
        case["ddof"] = rng.choice([0, 0, 1])
    if red in ("topk", "argtopk"):
        n = shape[axis]
        kk = min(n, rng.choice([1, 2, 3, n]))
        if red == "argtopk" and kk == n and len(chunks[axis]) > 1:
            kk = n - 1  # |k| == axis length over several chunks: known class, probed separately (n >= 2 here)
        case["k"] = kk * rng.choice([1, -1])
    return case


def nan_stream(ctx, check_case):
    rng = ctx.rng
    rounds_aware = ctx.scale(3, 40)
    rounds_prop = ctx.scale(1, 12)
    n = 0
    # the reductions with a block-level fallback for all-NaN lanes: every move set, several times
    for _ in range(ctx.scale(8, 60)):
        for red in ("nanargmin", "nanargmax"):
            for moves in MOVE_SETS[:11]:
                check_case(ctx, nanplace_case(rng, red, moves))
                n += 1
    for rnd in range(rounds_aware):
        for red in NAN_AWARE:
            for moves in MOVE_SETS:
                check_case(ctx, nanplace_case(rng, red, moves))
                n += 1
        if rnd < rounds_prop:
            for red in NAN_PROP:
                for moves in MOVE_SETS[:11]:
                    check_case(ctx, nanplace_case(rng, red, moves))
                    n += 1
    ctx.notes["stream.nanplace"] = n


def _specials_for(rng, dtype):
    k = np.dtype(dtype).kind
    if k == "f":
        return rng.choice([["nan"], ["inf"], ["-inf"], ["-0.0", "0.0"], ["inf", "-inf"], ["nan", "inf", "-inf", "-0.0"], []])
    if k == "c":
        return rng.choice([["nan"], [], ["-0.0", "0.0"]])
    return []


def extreme_case(rng, red, dtype, kcls=None):
    dt = np.dtype(dtype)
    nd = rng.choice([1, 2, 2])
    shape = [rng.choice([1, 2, 3, 5, 6, 8, 12]) for _ in range(nd)]
    chunks = [_chunks_multi(rng, n) if rng.random() < 0.7 else list(gen.rand_chunks(rng, n)) for n in shape]
    if red in SINGLE_AXIS:
        axis = rng.randrange(-nd, nd)
    else:
        r = rng.random()
        axis = None if r < 0.25 else (rng.randrange(-nd, nd) if r < 0.75 else [a - nd if rng.random() < 0.3 else a for a in rng.sample(range(nd), rng.randint(1, nd))])
    if dt.kind in "iu":
        mode = rng.choice(["sparse", "sparse", "pool", "pool", "wide", "small"])
    else:
        mode = "pool"
    plan = {"kind": "extremes", "mode": mode}
    if mode == "sparse":
        plan["p0"] = rng.choice([0.6, 0.8, 0.95])
    if dt.kind == "b":
        plan["p"] = rng.choice([0.0, 0.05, 0.5, 0.95, 1.0])
    if dt.kind in "fc":
        plan["specials"] = list(_specials_for(rng, dtype))
        plan["ps"] = rng.choice([0.1, 0.35, 0.7])
    case = {"red": red, "shape": shape, "chunks": chunks, "axis": axis, "keepdims": rng.random() < 0.4 and red not in NO_KEEPDIMS,
            "split_every": _split_every(rng, nd), "dtype": dtype, "nan": "plan", "plan": plan, "data_seed": rng.randint(0, 2**31 - 1)}
    if red in ("var", "std", "nanvar", "nanstd"):
        case["ddof"] = rng.choice([0, 0, 1])
    if red in ("sum", "prod", "nansum", "nanprod") and dt.kind in "iub" and rng.random() < 0.35:
        # explicit accumulator dtype: NumPy wraps in that dtype, so must every tree
        case["rdtype"] = rng.choice(["int8", "uint8", "int16", "uint32", "int64", "uint64"])
    if red in ("topk", "argtopk"):
        n = shape[axis]
        kk = {"1": 1, "2": 2, "3": 3, "n-1": max(1, n - 1), "n": n}[kcls or rng.choice(["1", "2", "3", "n-1", "n"])]
        kk = max(1, min(n, kk))
        if red == "argtopk" and kk == n and len(chunks[axis]) > 1:
            if n == 1:
                chunks[axis] = [1]
            else:
                kk = n - 1  # |k| == axis length over several chunks: known class (raises), probed separately
        case["k"] = kk * rng.choice([1, -1])
    if red == "average_w":
        case["wdtype"] = rng.choice(["float64", "float32", "int64", "uint8", "int8", "int16"])
        case["wmax"] = rng.choice([4, 100])
    return case


def _applicable(red, dtype):
    k = np.dtype(dtype).kind
    if k == "c":
        return red in COMPLEX_OK
    return True


def extreme_stream(ctx, check_case):
    rng = ctx.rng
    n = 0
    for _ in range(ctx.scale(1, 14)):
        for red in EXT_REDS:
            for dtype in EXT_DTYPES:
                if not _applicable(red, dtype):
                    continue
                check_case(ctx, extreme_case(rng, red, dtype))
                n += 1
    # topk / argtopk: every |k| class x sign on every orderable dtype (sparse lanes: fewer than |k| non-zero entries)
    for _ in range(ctx.scale(1, 10)):
        for red in ("topk", "argtopk"):
            for dtype in EXT_DTYPES[:11]:
                for kcls in ("1", "2", "3", "n-1", "n"):
                    check_case(ctx, extreme_case(rng, red, dtype, kcls))
                    n += 1
    ctx.notes["stream.extremes"] = n
