"""C02, last clause — "Blockwise fusion never changes which input block any output block is computed from."

Theorems: Props/C02Fusion.lean (`C02_fuse_block_ids` and companions) about Model/Fusion.lean.

For generated programs (harness.programs incl. `self_transpose`, broadcasting binaries, rank-3
transposes, map_blocks, reductions above/below; plus a few recipes outside the DSL: `da.blockwise`
with permuted indices, creation / random members) the lowered expression is fused by the real
`optimize_blockwise_fusion_array`, and for every real `FusedBlockwise` group:

(a) correspondence (driver family `fu.*`): the group is exported (member kinds, out_ind, new axes,
    argument indices, numblocks, transpose axes) and, for every output block, the real
    `_compute_block_ids(block_id)` plus the external / dangling references of the real fused task
    are compared with the model; every call of the real `_remove_conflicting_exprs` made by the
    fusion pass is compared with the model's `removeConflicting`.  `fu.hyp` reports whether the
    theorem's hypotheses (WF, Ordered, Accepted) hold for the real group (evidence; a real group that
    is not Accepted is a disagreement).
(b) model-independent search: the unfused lowered graph and the fused graph are converted with
    harness.graphs and executed; for every output block the SET of surviving keys (keys present in
    both graphs: source blocks and every unfused intermediate) in its transitive dependency closure
    must be equal, no reference may dangle, and the block values must be equal.
"""
from __future__ import annotations

import itertools
import warnings
from collections import Counter

import numpy as np

from harness import graphs as G, progcheck as PC, programs as P, trace as T

FUSION_OPS = (
    "unary", "unary", "binary", "binary", "binary_new", "binary_new", "transpose", "transpose", "self_transpose",
    "self_transpose", "map_blocks", "map_blocks", "map_blocks", "reduce", "getitem", "broadcast_to", "expand_dims",
    "rechunk", "clip",
)

SIG_UNORDERED = "fusion:member-unassigned-after-conflict-removal"


# ------------------------------------------------------------------------------ export

def _fl(l):
    l = list(l)
    return "_" if not l else ",".join(str(int(v)) for v in l)


class _Labels:
    """symbolic index labels -> naturals; ints keep their value (the implementation compares raw
    labels with root dimension numbers), anything else gets a fresh number ≥ 1000"""

    def __init__(self):
        self.m = {}

    def __call__(self, i):
        if isinstance(i, (int, np.integer)) and not isinstance(i, bool) and 0 <= int(i) < 1000:
            return int(i)
        if i not in self.m:
            self.m[i] = 1000 + len(self.m)
        return self.m[i]


def member_kind(e):
    from dask_array._blockwise import Blockwise, Elemwise
    from dask_array.manipulation._transpose import Transpose

    if isinstance(e, Transpose):
        return "t"
    if isinstance(e, Elemwise):
        return "e"
    if isinstance(e, Blockwise):
        return "b"
    return "o"


def export_group(members):
    """-> (token, names of external inputs in numbering order)"""
    names = {m._name: k for k, m in enumerate(members)}
    ext = {}
    lab = _Labels()

    def src(arr):
        if arr._name in names:
            return f"m{names[arr._name]}"
        if arr._name not in ext:
            ext[arr._name] = len(ext)
        return f"x{ext[arr._name]}"

    toks = []
    for m in members:
        kind = member_kind(m)
        args = []
        if kind == "o":
            out_ind = list(range(m.ndim))
            new_axes = []
            for dep in m.dependencies():
                args.append(f"{src(dep)}:{_fl(range(dep.ndim))}:{_fl(dep.numblocks)}")
        else:
            out_ind = [lab(i) for i in m.out_ind]
            new_axes = [lab(i) for i in (m.new_axes or {})]
            a = list(m.args)
            for arr, ind in zip(a[::2], a[1::2]):
                if ind is None or not hasattr(arr, "_name"):
                    continue
                args.append(f"{src(arr)}:{_fl(lab(i) for i in ind)}:{_fl(arr.numblocks)}")
        toks.append(f"{kind}/{_fl(out_ind)}/{_fl(new_axes)}/{_fl(m.numblocks)}/{'+'.join(args) if args else '-'}")
    return "|".join(toks), list(ext)


def is_ordered(members):
    seen = set()
    for k, m in enumerate(members):
        if k > 0 and m._name not in seen:
            return False
        for d in m.dependencies():
            seen.add(d._name)
    return True


def fmt_reads(pairs):
    pairs = sorted(set(pairs))
    return "-" if not pairs else ";".join(f"{e}:{_fl(b)}" for e, b in pairs)


def impl_block_ids(fg, bid, ext_names):
    """canonical output of the real code for `fu.block_ids`"""
    try:
        ids = fg._compute_block_ids(tuple(bid))
        task = fg._task((fg._name, *bid), tuple(bid))
    except Exception as e:  # noqa: BLE001
        return "err " + type(e).__name__
    members = {m._name: k for k, m in enumerate(fg.exprs)}
    ext = {n: k for k, n in enumerate(ext_names)}
    reads, dangling = [], []
    for key in task.dependencies:
        name, blk = (key[0], tuple(key[1:])) if isinstance(key, tuple) else (key, ())
        if name in members:
            dangling.append((members[name], blk))
        elif name in ext:
            reads.append((ext[name], blk))
        else:
            reads.append((10 ** 6, blk))  # a reference to something that is not an operand of any member
    idtok = ";".join(_fl(ids[m._name]) if m._name in ids else "N" for m in fg.exprs)
    return f"ok {idtok} {fmt_reads(reads)} {fmt_reads(dangling)}"


def find_groups(expr):
    from dask_array._blockwise import FusedBlockwise

    out, seen, stack = [], set(), [expr]
    while stack:
        n = stack.pop()
        if n._name in seen:
            continue
        seen.add(n._name)
        if isinstance(n, FusedBlockwise):
            out.append(n)
        stack.extend(n.dependencies())
    return sorted(out, key=lambda e: e._name)


# -------------------------------------------------------------- building the expressions

def _mk(name, k, c):
    def f(b):
        return b * k + c

    f.__name__ = name
    return f


_RECIPE_FUNCS = {n: _mk(n, k, c) for n, k, c in (("aaa_f", 2, 1), ("mmm_f", 3, -1), ("zzz_f", 5, 2), ("kkk_f", 7, 3))}


def _add3(u, v, w):
    return u + 2 * v + 3 * w


def _add2(u, v):
    return u * 3 + v


def build_recipe(rc):
    """Expressions outside the program DSL; everything is determined by the recipe dict."""
    import dask_array as da

    kind = rc["recipe"]
    if kind == "blockwise_perm":
        # f(m[ind1], t[ind2]) with t = m.transpose(p): m is reached under two index maps
        n = rc["n"]
        r = len(rc["p"])
        x = (np.arange(n ** r, dtype=np.int64) * 7 % 23).reshape((n,) * r)
        a = da.from_array(x, chunks=tuple(tuple(c) for c in rc["chunks"]))
        m = a.map_blocks(_RECIPE_FUNCS[rc["f1"]], dtype=np.int64)
        t = da.transpose(m, rc["p"]).map_blocks(_RECIPE_FUNCS[rc["f2"]], dtype=np.int64) if rc.get("wrap") else da.transpose(m, rc["p"])
        out = tuple(range(r))
        return da.blockwise(_add2, out, m, tuple(rc["ind1"]), t, tuple(rc["ind2"]), dtype=np.int64, align_arrays=False)
    if kind == "shared_below_conflict":
        # (d + d.T) + p with d, p two consumers of one fusable m (member order depends on the names)
        n = rc["n"]
        x = (np.arange(n * n, dtype=np.int64) * 3 % 17).reshape(n, n)
        a = da.from_array(x, chunks=tuple(tuple(c) for c in rc["chunks"]))
        m = a.map_blocks(_RECIPE_FUNCS[rc["f1"]], dtype=np.int64)
        d = m.map_blocks(_RECIPE_FUNCS[rc["f2"]], dtype=np.int64)
        p = m.map_blocks(_RECIPE_FUNCS[rc["f3"]], dtype=np.int64)
        return (d + d.T) + p
    if kind == "creation_mix":
        # creation / random members (no inputs) next to broadcast operands
        shape = tuple(rc["shape"])
        chunks = tuple(tuple(c) for c in rc["chunks"])
        x = (np.arange(int(np.prod(shape)), dtype=np.int64) % 13).reshape(shape)
        a = da.from_array(x, chunks=chunks)
        o = da.ones(shape, chunks=chunks, dtype=np.int64)
        row = da.from_array(np.arange(shape[-1], dtype=np.int64), chunks=(chunks[-1],))
        y = (a.map_blocks(_RECIPE_FUNCS[rc["f1"]], dtype=np.int64) + o * 2) * row
        if rc.get("random"):
            rs = da.random.RandomState(rc["seed"])
            y = y + (rs.random_sample(shape, chunks=chunks) * 8).astype(np.int64)
        if rc.get("transpose") and len(set(shape)) == 1:
            y = y + da.transpose(y.map_blocks(_RECIPE_FUNCS[rc["f2"]], dtype=np.int64), rc["transpose"])
        return y
    if kind == "blockwise3":
        # one generic Blockwise over operands with broadcast (single-block) axes and a lower-rank operand
        shape = tuple(rc["shape"])
        chunks = tuple(tuple(c) for c in rc["chunks"])
        x = (np.arange(int(np.prod(shape)), dtype=np.int64) % 11).reshape(shape)
        a = da.from_array(x, chunks=chunks).map_blocks(_RECIPE_FUNCS[rc["f1"]], dtype=np.int64)
        b1 = da.from_array(x[:1] * 2, chunks=((1,),) + chunks[1:]).map_blocks(_RECIPE_FUNCS[rc["f2"]], dtype=np.int64)
        c1 = da.from_array(x[0] + 5, chunks=chunks[1:]).map_blocks(_RECIPE_FUNCS[rc["f3"]], dtype=np.int64)
        out = tuple(range(len(shape)))
        y = da.blockwise(_add3, out, a, out, b1, out, c1, out[1:], dtype=np.int64, align_arrays=False)
        return y + c1 if rc.get("plus") else y
    raise KeyError(kind)


def gen_recipe(rng):
    from harness import gen

    fs = list(_RECIPE_FUNCS)
    k = rng.random()
    if k < 0.35:
        r = rng.choice([2, 3, 3])
        n = rng.choice([2, 3, 4])
        perm = lambda: rng.sample(range(r), r)  # noqa: E731
        return {"recipe": "blockwise_perm", "n": n, "p": perm(), "ind1": perm(), "ind2": perm(), "wrap": rng.random() < 0.4,
                "chunks": [list(gen.rand_chunks(rng, n))] * r, "f1": rng.choice(fs), "f2": rng.choice(fs)}
    if k < 0.5:
        n = rng.choice([2, 4])
        f = rng.sample(fs, 3)
        c = list(gen.rand_chunks(rng, n))
        return {"recipe": "shared_below_conflict", "n": n, "chunks": [c, c], "f1": f[0], "f2": f[1], "f3": f[2]}
    if k < 0.75:
        r = rng.choice([2, 3])
        n = rng.choice([2, 3, 4])
        shape = [n] * r if rng.random() < 0.5 else [rng.randint(2, 4) for _ in range(r)]
        tr = rng.sample(range(r), r)
        return {"recipe": "creation_mix", "shape": shape, "chunks": [list(gen.rand_chunks(rng, s)) for s in shape], "f1": rng.choice(fs),
                "f2": rng.choice(fs), "random": rng.random() < 0.5, "seed": rng.randint(0, 99),
                "transpose": tr if tr != list(range(r)) and rng.random() < 0.6 else None}
    r = rng.choice([2, 3])
    shape = [rng.randint(2, 4) for _ in range(r)]
    return {"recipe": "blockwise3", "shape": shape, "chunks": [list(gen.rand_chunks(rng, s)) for s in shape], "f1": rng.choice(fs),
            "f2": rng.choice(fs), "f3": rng.choice(fs), "plus": rng.random() < 0.5}


def gen_t3_program(rng):
    """rank-3 (sometimes rank-2) transposes separated by map_blocks: u = m.T(p).map_blocks; root u.T(q) (op) m.T(r)
    with r chosen so that the two paths to m agree, or not (then m must be dropped from the group)."""
    rank = rng.choice([2, 3, 3, 3])
    n = rng.choice([2, 3])
    g = P.ProgGen(rng, maxrank=3, maxdim=4, zero_axes=0.0)
    src = g.new_source((n,) * rank)
    funcs = [f for f in P.BLOCK_FUNCS if f != "sq"]
    m = g.add({"op": "map_blocks", "args": [src], "fn": rng.choice(funcs)})
    perm = lambda: rng.sample(range(rank), rank)  # noqa: E731
    p, q = perm(), perm()
    ident = list(range(rank))
    t1 = m if p == ident else g.add({"op": "transpose", "args": [m], "axes": p})
    u = g.add({"op": "map_blocks", "args": [t1], "fn": rng.choice(funcs)})
    t2 = u if q == ident else g.add({"op": "transpose", "args": [u], "axes": q})
    mode = rng.random()
    if mode < 0.4:
        rr = [p[q[i]] for i in range(rank)]  # numpy: m.T(p).T(q) == m.T(p∘q)
    elif mode < 0.7:
        rr = [q[p[i]] for i in range(rank)]
    else:
        rr = perm()
    t3 = m if rr == ident else g.add({"op": "transpose", "args": [m], "axes": rr})
    g.add({"op": rng.choice(list(P.BINARY)), "args": [t2, t3] if rng.random() < 0.5 else [t3, t2]})
    return g.prog


def build_case(case):
    """-> dask_array collection of the case's root (raises on construction errors)"""
    if "recipe" in case:
        with warnings.catch_warnings():
            warnings.simplefilter("ignore")
            return build_recipe(case)
    env, exc = PC.build(case["program"])
    if exc is not None:
        raise exc
    return env[case["program"][-1]["out"]]


# ------------------------------------------------------------------------------ checking

class _ConflictTap:
    """records every call of the real `_remove_conflicting_exprs` made by the fusion pass"""

    def __enter__(self):
        import dask_array._blockwise as B

        self.B = B
        self.orig = B._remove_conflicting_exprs
        self.calls = []

        def wrapper(group):
            out = self.orig(group)
            self.calls.append((list(group), list(out)))
            return out

        B._remove_conflicting_exprs = wrapper
        return self

    def __exit__(self, *a):
        self.B._remove_conflicting_exprs = self.orig


def _graph(e):
    import dask
    from dask_array._new_collection import new_collection

    with warnings.catch_warnings():
        warnings.simplefilter("ignore")
        with dask.config.set({"array.optimize-graph": False}):
            x = new_collection(e)
            return x, G.to_tasks(x.__dask_graph__())


def _closure(deps, root, stop):
    """keys of `stop` in the transitive dependency closure of root, and references to absent keys"""
    seen, hit, missing, stack = {root}, set(), set(), [root]
    while stack:
        k = stack.pop()
        for d in deps.get(k, ()):
            if d not in deps:
                missing.add(d)
                continue
            if d in stop:
                hit.add(d)
            if d not in seen:
                seen.add(d)
                stack.append(d)
    return hit, missing


def _eq(a, b):
    a, b = np.asarray(a), np.asarray(b)
    return a.shape == b.shape and a.dtype == b.dtype and np.array_equal(a, b)


def check_case(ctx, case, st):
    """st: accumulator dict (pairs for the driver, histograms)."""
    fcase = {**case, "fusion": True}
    try:
        x = build_case(case)
    except Exception:  # construction refusals are C01's business
        st["declined"] += 1
        return
    T.clear_caches()
    try:
        with warnings.catch_warnings():
            warnings.simplefilter("ignore")
            low = x.expr.simplify().lower_completely()
    except Exception:  # noqa: BLE001  (phases before fusion: checked by the main C02 stream)
        st["declined"] += 1
        return
    try:
        with _ConflictTap() as tap, warnings.catch_warnings():
            warnings.simplefilter("ignore")
            fused = low.fuse()
    except Exception as e:  # noqa: BLE001
        ctx.fail("fusion:pass-raises:" + type(e).__name__, {**fcase, "outcome": repr(e)[:300]}, "the fusion pass raises")
        return
    groups = find_groups(fused)
    st["programs"] += 1
    if not groups:
        st["no_group"] += 1
    # ---- (a) correspondence material
    unordered = False
    for group_in, group_out in tap.calls:
        if len(group_in) < 2:
            continue
        tok, _ = export_group(group_in)
        pos = {m._name: k for k, m in enumerate(group_in)}
        kept = sorted(pos[m._name] for m in group_out)  # WHICH members are kept; their order is judged through fu.block_ids / Ordered
        st["pairs"].append((f"fu.conflicts {tok}", f"ok {_fl(kept)}"))
        st["conflict_calls"] += 1
        if len(kept) < len(group_in):
            st["conflict_removed"] += 1
            ctx.count(("fusion-conflict", len(group_in), len(kept)))
    for fg in groups:
        members = list(fg.exprs)
        tok, ext_names = export_group(members)
        st["groups"] += 1
        st["hist"][len(members)] += 1
        kinds = "".join(sorted({member_kind(m) for m in members}))
        ctx.count(("fusion-group", min(len(members), 6), kinds, max((m.ndim for m in members), default=0)))
        if not is_ordered(members):
            unordered = True
            st["unordered_groups"] += 1
        # the group handed to FusedBlockwise is what _remove_conflicting_exprs returned: it must be accepted as is
        try:
            from dask_array._blockwise import _remove_conflicting_exprs

            again = [m._name for m in _remove_conflicting_exprs(list(members))]
        except Exception as e:  # noqa: BLE001
            again = "err " + type(e).__name__
        pos = {m._name: k for k, m in enumerate(members)}
        st["pairs"].append((f"fu.conflicts {tok}", again if isinstance(again, str) else f"ok {_fl(sorted(pos[n] for n in again))}"))
        bids = list(itertools.product(*[range(n) for n in fg.numblocks]))
        if len(bids) > 24:
            bids = ctx.rng.sample(bids, 24)
        st["hyp"].append((tok, _fl(bids[0]), len(members)))
        for bid in bids:
            st["pairs"].append((f"fu.block_ids {tok} {_fl(bid)}", impl_block_ids(fg, bid, ext_names)))
    # ---- (b) model-independent search: dependency closures and values, unfused vs fused
    try:
        xl, tl = _graph(low)
    except Exception:  # noqa: BLE001  (unfused graph does not build: not about fusion)
        st["declined"] += 1
        return
    try:
        xf, tf = _graph(fused)
    except Exception as e:  # noqa: BLE001
        sig = SIG_UNORDERED if unordered and isinstance(e, KeyError) else "fusion:fused-graph-raises:" + type(e).__name__
        ctx.fail(sig, {**fcase, "outcome": repr(e)[:300]}, "building the fused graph raises where the unfused graph builds")
        return
    dl, df = G.dependencies(tl), G.dependencies(tf)
    common = set(tl) & set(tf)
    bids = list(itertools.product(*[range(len(c)) for c in xl.chunks]))
    if [len(c) for c in xl.chunks] != [len(c) for c in xf.chunks]:
        ctx.fail("fusion:output-grid-differs", {**fcase, "unfused": [len(c) for c in xl.chunks], "fused": [len(c) for c in xf.chunks]},
                 "fusion changed the output block grid")
        return
    for bid in bids:
        hl, ml = _closure(dl, (xl.name, *bid), common)
        hf, mf = _closure(df, (xf.name, *bid), common)
        ctx.count(("fusion-closure", len(bids) > 1, bool(groups)))
        if mf and not ml:
            ctx.fail("fusion:dangling-reference", {**fcase, "block": list(bid), "missing": sorted(map(repr, mf))[:4]},
                     "a fused task references a key that no task produces")
            return
        if hl != hf:
            only_l = sorted(map(repr, hl - hf))[:4]
            only_f = sorted(map(repr, hf - hl))[:4]
            ctx.fail("fusion:input-blocks-differ", {**fcase, "block": list(bid), "only_unfused": only_l, "only_fused": only_f},
                     "an output block of the fused graph is computed from other input blocks than in the unfused graph")
            return
    try:
        vl, _ = G.execute(tl)
    except Exception:  # noqa: BLE001
        st["declined"] += 1
        return
    try:
        vf, _ = G.execute(tf)
    except Exception as e:  # noqa: BLE001
        ctx.fail("fusion:fused-graph-execution-raises:" + type(e).__name__, {**fcase, "outcome": repr(e)[:300]},
                 "executing the fused graph raises where the unfused graph runs")
        return
    for bid in bids:
        if not _eq(vl[(xl.name, *bid)], vf[(xf.name, *bid)]):
            ctx.fail("fusion:block-value-differs", {**fcase, "block": list(bid)}, "a fused output block differs from the unfused block")
            return


def _new_state():
    return {"pairs": [], "hyp": [], "hist": Counter(), "groups": 0, "programs": 0, "no_group": 0, "declined": 0,
            "conflict_calls": 0, "conflict_removed": 0, "unordered_groups": 0}


def _flush(ctx, st):
    """one driver batch: correspondence + hypotheses of the theorem on the real groups"""
    nd = 0
    if ctx.driver.run(["fu.conflicts o/_/_/_/-"]) == ["bad-op"]:
        # the driver in use has no `fu.*` handler (Dask.Drv.Fusion.handle not wired into Driver.lean yet): the
        # correspondence cannot be evaluated; the model-independent search above has run all the same
        ctx.notes["fusion.driver_without_fu_family"] = 1
        st["pairs"], st["hyp"] = [], []
    if st["pairs"]:
        # identical requests (a subexpression shared by several programs) are sent once
        uniq = list(dict.fromkeys(st["pairs"]))
        nd = ctx.correspond("fu", uniq, branch_key=lambda req, model: (req.split(" ", 1)[0], model[:3], min(req.count("|"), 6)))
    hyp_lines = [f"fu.hyp {tok} {bid}" for tok, bid, _ in st["hyp"]] + [f"fu.check {tok} {bid}" for tok, bid, _ in st["hyp"]]
    covered = not_met = 0
    if hyp_lines:
        outs = ctx.driver.run(hyp_lines)
        k = len(st["hyp"])
        for (tok, bid, _), h, c in zip(st["hyp"], outs[:k], outs[k:]):
            if h == "ok 1 1 1 1":
                covered += 1
                if c != "ok 1":  # the proved conclusion evaluated by brute force: can only fail if driver and theorem diverge
                    ctx.disagree("fu", f"fu.check {tok} {bid}", c, "ok 1")
            else:
                not_met += 1
                ctx.notes["fusion.hyp_not_met." + h.replace(" ", "")] = ctx.notes.get("fusion.hyp_not_met." + h.replace(" ", ""), 0) + 1
                if h.split()[3:4] == ["0"]:
                    # a group produced by the real conflict removal that the model does not accept
                    ctx.disagree("fu", f"fu.hyp {tok} {bid}", h, "ok 1 1 1 1")
    ctx.extra["fusion"] = {
        "programs": st["programs"], "programs_without_group": st["no_group"], "declined": st["declined"],
        "groups": st["groups"], "members_per_group": {str(k): v for k, v in sorted(st["hist"].items())},
        "remove_conflicting_calls": st["conflict_calls"], "groups_with_conflicts_removed": st["conflict_removed"],
        "groups_meeting_theorem_hypotheses": covered, "groups_outside_theorem_hypotheses": not_met,
        "unordered_groups": st["unordered_groups"], "correspondence_requests": len(st["pairs"]), "disagreements": nd,
    }
    if nd:
        ctx.notes["targeted_search"] = (
            "fusion: every program whose group disagrees with the model was executed unfused and fused in this run "
            "(dependency closures and block values compared for every output block)")


def probe_known(ctx):
    """the known defect: a member whose only earlier dependent was removed as a conflict is visited by
    `_compute_block_ids` before it has a block id"""
    case = {"recipe": "shared_below_conflict", "n": 4, "chunks": [[2, 2], [2, 2]], "f1": "mmm_f", "f2": "zzz_f", "f3": "aaa_f"}
    st = _new_state()
    before = len(ctx.failures)
    check_case(ctx, case, st)
    ctx.notes["fusion.probe_reproduces"] = int(len(ctx.failures) > before)


def run_fusion(ctx, replay=None):
    rng = ctx.rng
    st = _new_state()
    if replay is not None:
        c = replay["case"]
        if "recipe" in c:
            extra = ("fusion", "outcome", "block", "missing", "only_unfused", "only_fused", "unfused", "fused")
            case = {k: v for k, v in c.items() if k not in extra}
        else:
            case = {"program": c["program"]}
        check_case(ctx, case, st)
        _flush(ctx, st)
        return
    ctx.rule += (
        "; fusion: seeded random programs over a fusion-heavy op mix (+ rank-3 transpose chains, da.blockwise with permuted "
        "indices, creation/random members), every real FusedBlockwise group exported and compared block by block with the model, "
        "unfused vs fused graphs compared by dependency closure over surviving keys and by block values; distinct = "
        "(group size, member kinds, rank)"
    )
    n_prog = ctx.scale(300, 3000)
    for i in range(n_prog):
        prog, g = P.gen_program(rng, depth=rng.randint(2, ctx.scale(6, 8)), ops=FUSION_OPS, avoid=("swv-consumer",), zero_axes=0.0)
        check_case(ctx, {"program": prog}, st)
    for i in range(ctx.scale(120, 1200)):
        try:
            prog = gen_t3_program(rng)
        except P._Skip:  # the generator's magnitude guard
            continue
        check_case(ctx, {"program": prog}, st)
    for i in range(ctx.scale(160, 1600)):
        check_case(ctx, gen_recipe(rng), st)
    probe_known(ctx)
    _flush(ctx, st)
    ctx.assumptions.append(
        "fusion model (Model/Fusion.lean): member kinds Blockwise / Elemwise / Transpose / Random-like; literal and "
        "ArrayBlockwiseDep arguments read no graph block and are not exported; the theorem's hypotheses WF / Ordered / Accepted are "
        "evaluated by the driver on every real group (evidence `fusion`), groups outside them are covered by the search only"
    )
