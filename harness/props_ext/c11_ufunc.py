"""C11 extension — in-place ufunc / reduction calls (`out=x`, with and without `where=`) only change x.

A SCENARIO is a small script, completely described by its case dict (explicit data, no PRNG at replay):

  1. x is built over a retained NumPy buffer in one of XKINDS ways (multi-chunk / single-chunk `from_array`, persisted,
     persisted result of an operation, result of an operation, after an earlier `x[k] = v`, rechunked, concatenated views);
     operands a, b (dask arrays over retained buffers, raw NumPy arrays, scalars, x itself), a mask m;
  2. collections are derived from x (and from the operands) BEFORE the in-place call: slices, x*2+1, x.copy(), flips,
     transposes, rechunks, reductions; optionally everything is computed once (warm caches);
  3. the in-place call: `f(a, b, out=x)`, `f(a, b, where=m, out=x)`, `f(x, where=m, out=x)` … for several binary and
     unary ufuncs, `out=` given as keyword / 1-tuple / positionally (also `da.f(a, b, x)`), `np.f` and `da.f`; masks of every kind (NumPy array,
     dask array with its own chunks, dask mask computed from x or an operand, Python list, lower-rank broadcast mask,
     scalar True / False); or a reduction with `out=x` (sum / max / min / prod / argmax along an axis, cumsum);
  4. collections derived AFTER the call (elementwise / reduce / rechunk / transpose, and slices / flips / integer indices /
     integer-list takes of x: the index is pushed through the Elemwise that carries where= and out=);
  5. computes in a chosen ORDER (x first then the earlier-derived ones; the reverse; everything in one `dask.compute`;
     x twice then the others) under the synchronous or the threaded scheduler;
  6. optionally a second in-place call (x is input and output) and a second round.

Oracle = NumPy on copies.  Checked: the call returns x; x == NumPy's result of the same call (shape, dtype, values);
every collection derived earlier keeps its earlier value; the ones derived later follow the new value; the operands
compute to their values; every retained NumPy buffer and every block held by a persisted collection is bit-identical to
its fingerprint taken before the call.  A refusal (dask raises where NumPy accepts) must leave everything unchanged.

A second grid (harness/props_ext/c08_whereout.py, NumPy oracle): where= kind (lower-rank / length-1 / 0-d / NumPy / Python masks)
× the consumer applied to the result (axis permutations, slices, takes, rechunk, reductions, expand_dims / squeeze,
broadcast_to, concatenate / stack, elementwise, pairs), with out= none / same dtype / wider dtype and broadcasting operands.

The GRID (xkind × where kind × order/scheduler) is walked completely in every run (all seeds); the remaining
dimensions (shape, chunks, dtype, ufunc, operand pattern, out= form, np/da, optimisation on/off, extra derivations,
warm caches, second call) are drawn from ctx.rng per cell.
"""
from __future__ import annotations

import hashlib
import itertools
import time

import numpy as np

from harness import gen
from harness import programs as P

REFUSALS = (NotImplementedError, IndexError, ValueError, TypeError, AttributeError)

UF2 = ("add", "subtract", "multiply", "maximum", "minimum")
UF1 = ("negative", "absolute", "square", "sign")
REDS = ("sum", "max", "min", "prod", "argmax", "cumsum")
XKINDS = ("from_array-multi", "from_array-single", "persist", "persist-derived", "derived", "setitem", "rechunked", "concat")
WHERES = ("none", "np", "dask", "dask-of", "false", "true", "list", "np-broadcast")
ORDERS = (("x-first", "sync"), ("derived-first", "sync"), ("together", "sync"), ("x-twice", "sync"),
          ("x-first", "threads"), ("together", "threads"))


def fingerprint(a):
    return hashlib.sha1(np.ascontiguousarray(a).tobytes() + str(a.shape).encode() + str(a.dtype).encode()).hexdigest()


def same_arr(got, want):
    got = np.asarray(got)
    want = np.asarray(want)
    return got.shape == want.shape and got.dtype == want.dtype and bool(np.array_equal(got, want))


def listed(a):
    a = np.asarray(a)
    return a.tolist() if a.size <= 64 else list(a.shape)


# --------------------------------------------------------------------------- generation

def multi_chunks(rng, shape):
    """Chunks with at least two blocks along some axis (when the shape allows it)."""
    for _ in range(20):
        ch = P.rand_chunks_nd(rng, shape)
        if any(len(c) > 1 for c in ch):
            return [list(c) for c in ch]
    return [[1] * d if d > 1 else [d] for d in shape]


def gen_call(rng, shape, where, dtype, first):
    """One in-place call.  `where` is one of WHERES."""
    nd = len(shape)
    n = int(np.prod(shape))
    call = {"style": rng.choice(["np", "da"]), "outform": rng.choice(["kw", "kw", "tuple", "pos"])}
    kinds = ["uf2"] * 6 + ["uf1"] * 2
    if where == "none" and first:
        kinds += ["red"] * 3
    kind = rng.choice(kinds)
    call["kind"] = kind
    if kind == "red":
        fn = rng.choice(REDS)
        if fn == "argmax" and dtype != "int64":
            fn = "sum"
        call["fn"] = fn
        call["outform"] = "kw"
        call["axis"] = rng.randrange(nd + (0 if fn == "cumsum" else 1))
        if fn == "cumsum":
            call["src"] = rng.choice(["a", "x"])
        else:
            k = rng.randint(2, 3)
            rshape = list(shape)
            rshape.insert(call["axis"], k)
            call["rshape"] = rshape
            call["r"] = [rng.randint(0, 3) for _ in range(n * k)]
            call["rchunks"] = multi_chunks(rng, rshape)
        return call
    if kind == "uf1":
        call["ufunc"] = rng.choice(UF1)
        call["args"] = [rng.choice(["a", "x", "x"])]
    else:
        call["ufunc"] = rng.choice(UF2)
        pats = [["a", "b"], ["a", "b"], ["x", "b"], ["a", "x"], ["x", "x"], ["x", {"s": rng.randint(-3, 3)}],
                [{"s": rng.randint(-3, 3)}, "a"], ["a-np", "b"], ["x", "b-np"]]
        if nd == 2:
            pats += [["a", "row"], ["row-np", "x"], ["a", "col"]]
        call["args"] = rng.choice(pats)
    if where != "none":
        w = {"kind": where}
        if where in ("np", "list", "dask"):
            mask = [rng.random() < 0.5 for _ in range(n)]
            # both sides of a chunk edge are written somewhere
            mask[rng.randrange(n)] = True
            mask[rng.randrange(n)] = False
            w["mask"] = np.array(mask).reshape(shape).tolist()
            if where == "dask":
                w["chunks"] = rng.choice(["same", "same", "other", "single"])
                if w["chunks"] == "other":
                    w["chunks"] = [list(c) for c in P.rand_chunks_nd(rng, shape)]
        elif where == "np-broadcast":
            if nd == 1:
                w["mask"] = [rng.random() < 0.6]
            elif rng.random() < 0.5:
                w["mask"] = [rng.random() < 0.5 for _ in range(shape[1])]
            else:
                w["mask"] = [[rng.random() < 0.5] for _ in range(shape[0])]
            w["as"] = rng.choice(["np", "dask"])
        elif where == "dask-of":
            w["ref"] = rng.choice(["x", "x", "a"])
            w["cmp"] = rng.choice([">", "%"])
            w["c"] = rng.randint(1, 4)
        elif where in ("false", "true"):
            w["as"] = rng.choice(["py", "np"])
        call["where"] = w
    return call


DERIVE_BEFORE_EXTRA = ("flip", "T", "rechunk", "sum", "neg", "plus-a", "slice", "int", "take", "slice-of-a", "copy-of-a")
DERIVE_AFTER = ("affine", "T", "rechunk", "sum", "copy", "plus-a", "slice", "slice", "flip", "int", "take")


def gen_derive(rng, op, shape):
    nd = len(shape)
    d = {"op": op, "of": "x"}
    if op in ("slice-of-a", "copy-of-a"):
        d = {"op": op.split("-")[0], "of": "a"}
        op = d["op"]
    if op == "slice":
        for _ in range(20):
            idx = P.rand_basic_index(rng, shape, allow_none=False, allow_ellipsis=False)
            probe = np.empty(shape)[idx]
            if probe.size and probe.shape != tuple(shape):
                break
        else:
            idx = (slice(1, None),) + (slice(None),) * (nd - 1)
        d["index"] = P._enc_index(idx)
    elif op == "flip":
        d["axis"] = rng.randrange(nd)
    elif op == "int":
        d["axis"] = rng.randrange(nd)
        d["i"] = rng.randint(-shape[d["axis"]], shape[d["axis"]] - 1)
    elif op == "take":
        d["axis"] = rng.randrange(nd)
        n = shape[d["axis"]]
        d["idx"] = [rng.randint(-n, n - 1) for _ in range(rng.randint(1, n + 1))]  # repeats and any order: reading only
    elif op == "rechunk":
        d["chunks"] = [list(c) for c in P.rand_chunks_nd(rng, shape)]
    elif op == "sum":
        d["axis"] = rng.choice([None] + list(range(nd)))
    return d


def gen_case(rng, xkind, where, order, scheduler):
    nd = rng.choice([1, 1, 2])
    shape = [rng.randint(4, 12)] if nd == 1 else [rng.randint(2, 4), rng.randint(2, 5)]
    n = int(np.prod(shape))
    dtype = rng.choice(["int64", "int64", "float64"])
    case = {
        "ufunc_scenario": 1, "shape": shape, "dtype": dtype, "xkind": xkind, "order": order, "scheduler": scheduler,
        "optimize": rng.random() < 0.6,
        "chunks": [[d] for d in shape] if xkind == "from_array-single" else multi_chunks(rng, shape),
        "x": [rng.randint(-50, 50) for _ in range(n)],
        "a": [rng.randint(0, 9) for _ in range(n)],
        "b": [100 * (i + 1) for i in range(n)],
        "achunks": multi_chunks(rng, shape) if rng.random() < 0.5 else None,  # None: same chunks as x
        "precompute": rng.random() < 0.3,
    }
    if xkind == "rechunked":
        case["chunks0"] = multi_chunks(rng, shape)
    if xkind == "concat":
        case["split"] = rng.randint(1, shape[0] - 1)
    if xkind == "setitem":
        case["pre"] = {"start": rng.randint(0, shape[0] - 1), "value": rng.randint(60, 90)}
    case["calls"] = [gen_call(rng, shape, where, dtype, True)]
    if rng.random() < 0.35:
        w2 = rng.choice(["none", "np", "dask", "dask-of", where])
        case["calls"].append(gen_call(rng, shape, w2, dtype, False))
    before = [gen_derive(rng, "slice", shape), {"op": "affine", "of": "x"}, {"op": "copy", "of": "x"}]
    for _ in range(rng.randint(0, 2)):
        op = rng.choice(DERIVE_BEFORE_EXTRA)
        if op == "T" and nd < 2:
            continue
        before.append(gen_derive(rng, op, shape))
    case["before"] = before
    after = []
    for _ in range(rng.choice([0, 1, 1, 2])):
        op = rng.choice(DERIVE_AFTER)
        if op == "T" and nd < 2:
            continue
        after.append(gen_derive(rng, op, shape))
    case["after"] = after
    return case


# --------------------------------------------------------------------------- execution

def apply_derive(d, env, xp_mod, da_mode):
    """env: name -> dask collection (da_mode) or NumPy array."""
    src = env[d["of"]]
    op = d["op"]
    if op == "slice":
        return src[P._dec_index(d["index"])]
    if op == "affine":
        return src * 2 + 1
    if op == "copy":
        return src.copy()
    if op == "flip":
        return src[tuple(slice(None, None, -1) if ax == d["axis"] else slice(None) for ax in range(src.ndim))]
    if op == "int":
        return src[tuple(d["i"] if ax == d["axis"] else slice(None) for ax in range(src.ndim))]
    if op == "take":
        return src[tuple(list(d["idx"]) if ax == d["axis"] else slice(None) for ax in range(src.ndim))]
    if op == "T":
        return src.T
    if op == "rechunk":
        return src.rechunk(tuple(tuple(c) for c in d["chunks"])) if da_mode else src
    if op == "sum":
        return src.sum(axis=d["axis"])
    if op == "neg":
        return -src
    if op == "plus-a":
        return src + env["a"]
    raise KeyError(op)


class Scenario:
    def __init__(self, case):
        import dask_array as da

        self.case = case
        self.da = da
        dt = np.dtype(case["dtype"])
        shape = tuple(case["shape"])
        self.shape = shape
        self.dt = dt
        self.kw = {"scheduler": "sync" if case.get("scheduler", "sync") == "sync" else "threads"}
        self.buffers = {}   # name -> retained NumPy buffer handed to dask
        self.prints = {}
        self.held = []      # (label, ndarray) blocks held by persisted collections
        self.held_prints = []
        self.np = {}        # mirrors
        self.env = {}       # dask side
        self.want = {}      # derived name -> expected value
        self.derived = {}   # derived name -> dask collection

        def arr(key, shp=shape):
            return np.array(case[key], dtype=dt).reshape(shp)

        chunks = tuple(tuple(c) for c in case["chunks"])
        achunks = tuple(tuple(c) for c in case["achunks"]) if case.get("achunks") else chunks
        x_src = self.retain("x_src", arr("x"))
        xk = case["xkind"]
        x_np = x_src.copy()
        if xk in ("from_array-multi", "from_array-single"):
            x = da.from_array(x_src, chunks=chunks)
        elif xk == "persist":
            x = da.from_array(x_src, chunks=chunks).persist(scheduler="sync")
        elif xk == "persist-derived":
            x = (da.from_array(x_src, chunks=chunks) * 1).persist(scheduler="sync")
        elif xk == "derived":
            x = da.from_array(x_src, chunks=chunks) + 0
        elif xk == "setitem":
            x = da.from_array(x_src, chunks=chunks)
            pre = case["pre"]
            x[pre["start"]:pre["start"] + 2] = pre["value"]
            x_np[pre["start"]:pre["start"] + 2] = pre["value"]
        elif xk == "rechunked":
            x = da.from_array(x_src, chunks=tuple(tuple(c) for c in case["chunks0"])).rechunk(chunks)
        elif xk == "concat":
            k = case["split"]
            rest = chunks[1:]
            x = da.concatenate([da.from_array(x_src[:k], chunks=((k,),) + rest),
                                da.from_array(x_src[k:], chunks=((shape[0] - k,),) + rest)], axis=0)
        else:
            raise KeyError(xk)
        self.hold("x", x)
        self.env["x"] = x
        self.np["x"] = x_np
        a_src = self.retain("a_src", arr("a"))
        b_src = self.retain("b_src", arr("b"))
        self.env["a"] = da.from_array(a_src, chunks=achunks)
        self.env["b"] = da.from_array(b_src, chunks=chunks)
        self.hold("a", self.env["a"])
        self.hold("b", self.env["b"])
        self.np["a"] = a_src.copy()
        self.np["b"] = b_src.copy()
        if len(shape) == 2:
            row = self.retain("row_src", np.arange(shape[1], dtype=dt) * 10 + 1)
            col = self.retain("col_src", (np.arange(shape[0], dtype=dt) * 7 + 2).reshape(shape[0], 1))
            self.env["row"] = da.from_array(row, chunks=chunks[1:])
            self.env["col"] = da.from_array(col, chunks=(chunks[0], (1,)))
            self.np["row"] = row.copy()
            self.np["col"] = col.copy()

    def retain(self, name, a):
        a = np.array(a, copy=True)
        self.buffers[name] = a
        self.prints[name] = fingerprint(a)
        return a

    def hold(self, label, coll):
        """Fingerprint what the collection holds: the blocks of a persisted graph, and the array every `from_array` node
        keeps (from_array copies the user's buffer; its multi-chunk blocks are VIEWS of that private copy)."""
        seen = {id(v) for _, v in self.held}
        found = []
        try:
            for node in coll.expr.walk():
                arr = getattr(node, "array", None) if type(node).__name__ == "FromArray" else None
                if isinstance(arr, np.ndarray):
                    found.append((f"{label}:from_array-internal", arr))
                if type(node).__name__ == "FromGraph":
                    for k, v in dict(node._layer()).items():
                        v = getattr(v, "value", v)
                        if isinstance(v, np.ndarray):
                            found.append((f"{label}:persisted-block{list(k[1:])}", v))
        except Exception:
            pass
        for lab, v in found:
            if id(v) not in seen:
                seen.add(id(v))
                self.held.append((lab, v))
                self.held_prints.append(fingerprint(v))

    # -- operands of a call, on both sides
    def operand(self, tok, da_mode):
        if isinstance(tok, dict):
            return tok["s"] if self.dt.kind == "i" else float(tok["s"])
        if tok.endswith("-np"):
            name = tok[:-3]
            # a raw NumPy operand handed to the ufunc: its own retained buffer
            if da_mode:
                key = name + "_raw"
                if key not in self.buffers:
                    self.retain(key, self.np[name])
                return self.buffers[key]
            return self.np[name]
        return (self.env if da_mode else self.np)[tok]

    def where_of(self, w, i, da_mode):
        da = self.da
        kind = w["kind"]
        if kind == "true":
            return True if w.get("as") == "py" or not da_mode else np.True_
        if kind == "false":
            return False if w.get("as") == "py" or not da_mode else np.False_
        if kind == "dask-of":
            ref = (self.env if da_mode else self.np)[w["ref"]]
            return ref > w["c"] if w["cmp"] == ">" else ref % (w["c"] + 1) == 0
        mask = np.array(w["mask"], dtype=bool)
        if not da_mode:
            return mask
        name = f"m{i}_src"
        if name not in self.buffers:
            self.retain(name, mask)
        buf = self.buffers[name]
        if kind == "list":
            return buf.tolist()
        if kind == "np" or (kind == "np-broadcast" and w.get("as") == "np"):
            return buf
        if kind == "np-broadcast":
            m = da.from_array(buf, chunks=tuple((d,) for d in buf.shape))
        else:
            ch = w.get("chunks", "same")
            if ch == "same":
                ch = self.case["chunks"]
            elif ch == "single":
                ch = [[d] for d in self.shape]
            m = da.from_array(buf, chunks=tuple(tuple(c) for c in ch))
        self.env[f"m{i}"] = m
        self.np[f"m{i}"] = mask.copy()
        return m

    def do_call(self, i, call, da_mode):
        """Perform the call on one side; returns what the call returned."""
        out = (self.env if da_mode else self.np)["x"]
        if call["kind"] == "red":
            fn = call["fn"]
            if fn == "cumsum":
                src = (self.env if da_mode else self.np)[call["src"]]
                if not da_mode:
                    src = src.copy()  # NumPy's cumsum with out= aliasing its input is not a contract; dask's graph reads the OLD x
                mod = np if (call["style"] == "np" or not da_mode) else self.da
                return mod.cumsum(src, axis=call["axis"], out=out)
            rname = f"r{i}"
            if rname not in self.np:
                self.np[rname] = np.array(call["r"], dtype=self.dt).reshape(call["rshape"])
            if da_mode and rname not in self.env:
                r_src = self.retain(rname + "_src", self.np[rname])
                self.env[rname] = self.da.from_array(r_src, chunks=tuple(tuple(c) for c in call["rchunks"]))
            src = (self.env if da_mode else self.np)[rname]
            mod = np if (call["style"] == "np" or not da_mode) else self.da
            return getattr(mod, fn)(src, axis=call["axis"], out=out)
        f = getattr(np if (call["style"] == "np" or not da_mode) else self.da, call["ufunc"])
        args = [self.operand(t, da_mode) for t in call["args"]]
        if not da_mode:
            # NumPy reads and writes element by element, same index: aliasing x as input and output is well defined
            args = [a.copy() if a is out else a for a in args]
        kw = {}
        if "where" in call:
            kw["where"] = self.where_of(call["where"], i, da_mode)
        form = call.get("outform", "kw")
        if form == "pos":
            return f(*args, out, **kw)
        kw["out"] = (out,) if form == "tuple" else out
        return f(*args, **kw)

    # -- checks
    def compute(self, names):
        import dask

        colls = [self.env[n] if n in self.env else self.derived[n] for n in names]
        if len(colls) == 1:
            return [np.asarray(colls[0].compute(**self.kw))]
        return [np.asarray(r) for r in dask.compute(*colls, **self.kw)]

    def expected(self, n):
        return self.want[n] if n in self.want else self.np[n]

    def check_group(self, names, who_of):
        try:
            got = self.compute(names)
        except Exception as e:
            return {"what": "compute-raises", "who": who_of(names[0]), "name": names[0] if len(names) == 1 else names, "error": repr(e)[:300]}
        for n, g in zip(names, got):
            w = self.expected(n)
            if not same_arr(g, w):
                return {"what": "value", "who": who_of(n), "name": n, "got": listed(g), "got_dtype": str(g.dtype),
                        "want": listed(w), "want_dtype": str(np.asarray(w).dtype)}
        return None

    def check_buffers(self):
        for n, a in self.buffers.items():
            if fingerprint(a) != self.prints[n]:
                return {"what": "source-mutated", "who": "source", "name": n, "now": listed(a)}
        for (label, v), p in zip(self.held, self.held_prints):
            if fingerprint(v) != p:
                return {"what": "held-block-mutated", "who": "held-block", "name": label, "now": listed(v)}
        return None

    def rounds(self, before_names, after_names):
        order = self.case["order"]
        old = list(before_names)
        if order == "x-first":
            groups = [["x"]] + [[n] for n in old + after_names]
        elif order == "derived-first":
            groups = [[n] for n in old + after_names] + [["x"]]
        elif order == "together":
            names = ["x"] + old + after_names
            if self.case.get("together_reversed"):
                names = names[::-1]
            groups = [names]
        elif order == "x-twice":
            groups = [["x"], ["x"]] + [[n] for n in old + after_names]
        else:
            raise KeyError(order)
        return groups

    def run(self):
        """Returns (failure dict or None, refusal or None)."""
        import dask

        case = self.case
        with dask.config.set({"array.optimize-graph": case.get("optimize", True)}):
            return self._run()

    def _run(self):
        case = self.case
        before_names = []
        who = {"x": "target", "a": "operand", "b": "operand", "row": "operand", "col": "operand"}

        def who_of(n):
            if n in who:
                return who[n]
            return "operand" if n[0] in "mr" else "derived"

        def derive_now(specs, tag, role):
            names = []
            for j, d in enumerate(specs):
                n = f"{tag}{j}"
                try:
                    self.derived[n] = apply_derive(d, self.env, self.da, True)
                except Exception as e:
                    return None, {"what": "derive-raises", "who": role, "name": n, "error": repr(e)[:300]}
                with np.errstate(all="ignore"):
                    self.want[n] = np.array(apply_derive(d, self.np, np, False), copy=True)
                who[n] = role
                names.append(n)
            return names, None

        before_names, bad = derive_now(case.get("before", []), "d", "derived-before")
        if bad:
            return bad, None
        if case.get("precompute"):
            bad = self.check_group(["x"], who_of) or next((b for b in (self.check_group([n], who_of) for n in before_names) if b), None)
            if bad:
                bad["what"] = "before-the-call:" + bad["what"]
                return bad, None
        for i, call in enumerate(case["calls"]):
            # NumPy first (the oracle decides whether the call is valid at all)
            saved = self.np["x"].copy()
            try:
                with np.errstate(all="ignore"):
                    self.do_call(i, call, False)
            except Exception:
                self.np["x"] = saved
                return None, ("numpy-refuses", call["kind"])
            x = self.env["x"]
            name_before = x.expr._name
            try:
                ret = self.do_call(i, call, True)
            except REFUSALS as e:
                self.np["x"] = saved
                if x.expr._name != name_before:
                    return {"what": "refused-but-changed", "who": "target", "name": "x", "call": i, "error": repr(e)[:200]}, None
                bad = self.check_group(["x"], who_of) or self.check_buffers()
                if bad:
                    bad["what"] = "refused-but-" + bad["what"]
                    return bad, None
                return None, (type(e).__name__, str(e)[:80])
            if ret is not x:
                return {"what": "returned-not-out", "who": "target", "name": "x", "call": i, "returned": type(ret).__name__}, None
            after_names, bad = derive_now(case.get("after", []) if i == 0 else [], "e", "derived-after")
            if bad:
                bad["call"] = i
                return bad, None
            if i == 0:
                self.after_names = after_names
            later = self.after_names if i == 0 else []
            # collections derived after call 0 are "earlier-derived" w.r.t. call 1: they keep their value
            earlier = before_names + (self.after_names if i > 0 else [])
            for group in self.rounds(earlier, later):
                bad = self.check_group(group, who_of)
                if bad:
                    bad["call"] = i
                    return bad, None
                bad = self.check_buffers()
                if bad:
                    bad["call"] = i
                    bad["after_computing"] = group
                    return bad, None
            ops = [n for n in self.env if n != "x"]
            for n in ops:
                bad = self.check_group([n], who_of)
                if bad:
                    bad["call"] = i
                    return bad, None
            bad = self.check_group(["x"], who_of) or self.check_buffers()
            if bad:
                bad["call"] = i
                bad["what"] = bad["what"] + ":recomputed" if bad["who"] == "target" else bad["what"]
                return bad, None
        return None, None

def run_case(case):
    sc = Scenario(case)
    return sc.run()


def call_class(case, bad):
    calls = case["calls"]
    c = calls[min(bad.get("call", 0), len(calls) - 1)]
    if c["kind"] == "red":
        return "reduction-out"
    return "ufunc-where-out" if "where" in c else "ufunc-out"


def signature(case, bad):
    return f"inplace:{call_class(case, bad)}:{bad['what']}:{bad['who']}"


def shrink(case, sig):
    """Greedy simplification keeping the same signature."""
    import copy

    def fails(c):
        try:
            bad, _ = run_case(c)
        except Exception:
            return False
        return bad is not None and signature(c, bad) == sig

    cur = copy.deepcopy(case)
    cands = []
    if cur.get("scheduler") != "sync":
        cands.append(("scheduler", "sync"))
    for key, val in cands:
        c = dict(cur, **{key: val})
        if fails(c):
            cur = c
    if len(cur["calls"]) > 1:
        c = dict(cur, calls=cur["calls"][:1])
        if fails(c):
            cur = c
    for key in ("after", "before"):
        i = len(cur.get(key, [])) - 1
        while i >= 0:
            c = dict(cur, **{key: cur[key][:i] + cur[key][i + 1:]})
            if fails(c):
                cur = c
            i -= 1
    for key, val in (("precompute", False), ("achunks", None), ("optimize", False)):
        if cur.get(key) not in (val,):
            c = dict(cur, **{key: val})
            if fails(c):
                cur = c
    return cur


def check_case(ctx, case, do_shrink=True, seen=None):
    if case.get("whereout"):  # ufunc(where=, out=) under a consumer, NumPy oracle (harness/props_ext/c08_whereout.py)
        from harness.props_ext import c08_whereout

        return c08_whereout.check_case(ctx, case, "numpy", do_shrink=do_shrink, seen=seen)
    try:
        bad, refusal = run_case(case)
    except Exception as e:  # a harness error must not pass silently
        ctx.notes["ufunc_scenario_harness_error"] = repr(e)[:200]
        ctx.extra.setdefault("ufunc_scenario_harness_error_case", case)
        return True
    if refusal is not None:
        key = "ufunc_scenario.refusal." + str(refusal[0])
        ctx.notes[key] = ctx.notes.get(key, 0) + 1
    if bad is None:
        return True
    sig = signature(case, bad)
    small = case
    if seen is not None:
        if sig in seen:
            ctx.notes["further_failing_scenarios." + sig] = ctx.notes.get("further_failing_scenarios." + sig, 0) + 1
            return False
        seen.add(sig)
    if do_shrink:
        try:
            small = shrink(case, sig)
            bad2, _ = run_case(small)
            if bad2 is not None and signature(small, bad2) == sig:
                bad = bad2
            else:
                small = case
        except Exception:
            small = case
    ctx.fail(sig, dict(small, failure=bad),
             "after an in-place ufunc / reduction call (out=x, possibly where=mask) x differs from NumPy's result, or another "
             "collection (derived earlier from x, an operand), a retained NumPy buffer or a persisted block changed")
    return False


def search(ctx):
    """Walk the grid xkind × where × (order, scheduler) once; in the thorough tier several times."""
    rng = ctx.rng
    t0 = time.time()
    budget = ctx.scale(30, 240)  # a safety cap only: the quick grid takes ~8 s on an idle machine
    passes = ctx.scale(1, 12)
    done = 0
    failed = set()
    cells = list(itertools.product(XKINDS, WHERES, ORDERS))
    for p in range(passes):
        rng.shuffle(cells)
        for xkind, where, (order, sched) in cells:
            if time.time() - t0 > budget:
                ctx.notes["ufunc_scenarios_stopped_on_budget_after"] = done
                break
            case = gen_case(rng, xkind, where, order, sched)
            if order == "together":
                case["together_reversed"] = rng.random() < 0.5
            c0 = case["calls"][0]
            ctx.count(("ufunc-scenario", xkind, where, order, sched, c0["kind"], c0.get("outform"), case["optimize"]))
            if done < 2:
                ctx.sample(case)
            done += 1
            # one shrunk report per class is enough
            check_case(ctx, case, do_shrink=True, seen=failed)
    ctx.notes["ufunc_scenarios"] = done
    # ufunc(where=, out=) followed by a consumer the optimizer rewrites through the Elemwise (axis permutations, slices, takes,
    # rechunk, reductions, expand_dims / squeeze, broadcast_to, concatenate / stack, elementwise, pairs): the grid where= kind x
    # consumer kind, NumPy as the oracle (the same generator serves C08 with the rewrite-free form as the oracle)
    from harness.props_ext import c08_whereout

    c08_whereout.search(ctx, "numpy", budget=ctx.scale(15, 120))
    ctx.notes["ufunc_scenario_grid"] = f"{len(XKINDS)} xkinds x {len(WHERES)} where kinds x {len(ORDERS)} (order, scheduler) = {len(cells)} cells per pass"


def probes(ctx):
    """Narrow deterministic probes.  (a) slices after where=/out= (fixed in repo bc2ace0), (c) da.f(a, x) with a positional out
    (fixed in 44087fe) and (d) where=/out= on a 0-d x with a scalar block (fixed in ee894a6) are REGRESSION probes (they must pass;
    the searches generate these classes too).  (b) other dtypes of out= are registered known findings: the grid keeps x and the
    operands in one dtype."""
    import dask_array as da

    SYNC = {"scheduler": "sync"}
    # (a) a slice of x AFTER np.f(a, b, where=m, out=x): the index is pushed into the Elemwise; operands a, b are sliced,
    #     the mask / the old x are not (or not consistently): refusals at compute time, and for a reversing slice WRONG DATA
    src = np.arange(12, dtype=np.int64)
    anp = np.arange(12, dtype=np.int64) * 10
    bnp = np.ones(12, dtype=np.int64)
    mnp = np.arange(12) % 3 == 0
    want = src.copy()
    np.add(anp, bnp, where=mnp, out=want)
    for label, idx in (("reversed", slice(None, None, -1)), ("range", slice(2, 6)), ("int", 3)):
        x = da.from_array(src.copy(), chunks=4)
        np.add(da.from_array(anp, chunks=4), da.from_array(bnp, chunks=4), where=mnp, out=x)
        ctx.count(("probe", "where-then-slice", label))
        prog = (f"x = da.from_array(np.arange(12), chunks=4); np.add(da.from_array(np.arange(12)*10, chunks=4), da.from_array(np.ones(12, int), chunks=4), "
                f"where=np.arange(12) % 3 == 0, out=x); x[{'::-1' if label == 'reversed' else ('2:6' if label == 'range' else '3')}].compute()")
        try:
            got = np.asarray(x[idx].compute(**SYNC))
            if not same_arr(got, want[idx]):
                ctx.fail("where=:slice-of-result:value", {"program": prog, "got": listed(got), "want": listed(want[idx])},
                         "after np.add(a, b, where=m, out=x) a slice of x computes to wrong data (the index is applied to a and b but not to the mask and the old x)")
        except Exception as e:
            # same root as the registered class for out= without where= (the pushed-down index is not applied consistently
            # to the operands of the Elemwise): same signature
            ctx.fail("out=:slice-of-result:compute-raises", {"program": prog, "error": repr(e)[:200]},
                     "after np.add(a, b, where=m, out=x) a slice of x cannot be computed")
    # (b) out=x with operands of another dtype: NumPy casts the result INTO x (x keeps its dtype); dask replaces x's
    #     expression, so x silently changes dtype; with where= the metadata and the computed dtype differ
    a = da.from_array(anp, chunks=4)
    b = da.from_array(bnp, chunks=4)
    x = da.from_array(src.astype(np.float64), chunks=4)
    np.add(a, b, out=x)
    ctx.count(("probe", "out-dtype"))
    try:
        got = np.asarray(x.compute(**SYNC))
        if got.dtype != np.float64 or x.dtype != np.float64:
            ctx.fail("out=:dtype-of-out-not-kept",
                     {"program": "x = da.from_array(np.arange(12.0), chunks=4); np.add(int64 a, int64 b, out=x); x.dtype, x.compute().dtype",
                      "x.dtype": str(x.dtype), "computed": str(got.dtype), "numpy": "float64"},
                     "np.add(a, b, out=x) with int64 operands and a float64 x: NumPy stores the result in x as float64; dask turns x into an int64 array")
    except Exception as e:
        ctx.notes["probe.out-dtype"] = "raises " + repr(e)[:120]
    x = da.from_array(src.astype(np.float64), chunks=4)
    np.add(a, b, where=mnp, out=x)
    ctx.count(("probe", "where-out-dtype"))
    try:
        got = np.asarray(x.compute(**SYNC))
        if got.dtype != x.dtype:
            ctx.fail("where=+out=:declared-dtype-differs-from-computed",
                     {"program": "x = da.from_array(np.arange(12.0), chunks=4); np.add(int64 a, int64 b, where=m, out=x); x.dtype, x.compute().dtype",
                      "x.dtype": str(x.dtype), "computed": str(got.dtype)},
                     "np.add(a, b, where=m, out=x) with int64 operands and a float64 x: x.dtype says int64, x.compute() is float64")
    except Exception as e:
        ctx.notes["probe.where-out-dtype"] = "raises " + repr(e)[:120]

    # (c) da.f(a, x) / da.f(a, b, x) with a POSITIONAL out: the wrapper hands x to elemwise as one more INPUT; the chunk function
    #     np.f(a_block, x_block) then writes into x's input block: the call does not return x, and x changes only if its blocks
    #     happen to be long-lived buffers (views of from_array's private copy, persisted blocks); np.f(a, x) is handled properly
    xs = np.zeros(6, dtype=np.int64)
    x = da.from_array(xs, chunks=3)
    twin = x.copy()
    a = da.from_array(np.arange(-3, 3), chunks=3)
    ctx.count(("probe", "da-positional-out"))
    try:
        r = da.absolute(a, x)
        got_r = np.asarray(r.compute(**SYNC))
        got_x = np.asarray(x.compute(**SYNC))
        got_twin = np.asarray(twin.compute(**SYNC))
        if r is not x and not (same_arr(got_x, xs) and same_arr(got_twin, xs)):
            ctx.fail("out-positional:da-ufunc:input-block-written",
                     {"program": "x = da.from_array(np.zeros(6, int), chunks=3); t = x.copy(); a = da.from_array(np.arange(-3, 3), chunks=3); "
                                 "r = da.absolute(a, x); r.compute(); x.compute(), t.compute()",
                      "r is x": r is x, "r": listed(got_r), "x": listed(got_x), "x.copy() taken before": listed(got_twin)},
                     "da.absolute(a, x) treats x as an input, and computing the result writes into x's blocks: x (and its earlier copy) change although x is not the result")
    except Exception as e:
        ctx.notes["probe.da-positional-out"] = "raises " + repr(e)[:120]
    # (d) where=<array> and out=x for a 0-d x whose block is a NumPy scalar (x = y[0], y.sum()): accepted, then x cannot be computed
    ctx.count(("probe", "where-out-0d"))
    try:
        x = da.from_array(np.arange(3), chunks=1)[0]
        np.subtract(x, 1, where=np.array(True), out=x)
        got = np.asarray(x.compute(**SYNC))
        if not same_arr(got, np.array(-1)):
            ctx.fail("where=+out=:0-d-scalar-block:value", {"program": "x = da.from_array(np.arange(3), chunks=1)[0]; np.subtract(x, 1, where=np.array(True), out=x)",
                                                          "got": listed(got)}, "wrong data")
    except Exception as e:
        ctx.fail("where=+out=:0-d-scalar-block:compute-raises",
                 {"program": "x = da.from_array(np.arange(3), chunks=1)[0]; np.subtract(x, 1, where=np.array(True), out=x); x.compute()", "error": repr(e)[:200]},
                 "np.f(x, 1, where=mask, out=x) on a 0-d x whose block is a NumPy scalar is accepted and then x cannot be computed (the chunk function passes a scalar as out=)")
