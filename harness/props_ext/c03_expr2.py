"""C03, phase 3 — per-block correspondence of the SECOND-LAYER expression model (Model/Expr2.lean;
theorems Props/C03Ext.lean, Props/C01Ext.lean; driver family `ex2.*`) with the implementation, on the SAME
programs the phase-1 block correspondence of harness/props/C03.py uses: `ex2.block` (the value the model's
task for an output block computes, `blockDen2`) vs the value of the same output key of the real
materialized graph, for up to 6 blocks per program, and `ex2.chunks` vs the real `.chunks`.

Programs with broadcasting binaries, integer-list `take`, sliding-window reductions (overlap-plan CHUNKS;
the blocks of the root are compared whatever plan the optimizer chose, since the root layout is bridged
back to the advertised chunks) become expressible (see harness/props_ext/c01_expr2.py, progcheck.encode2).
`err unsupported` / `err illformed` = the model declines.  A mismatch is a model / implementation
disagreement (core.finish), never by itself a violation; the failing-input search of C03 is unchanged.
"""
from __future__ import annotations

import itertools
import warnings

import numpy as np

from harness import graphs as G, progcheck as PC, programs as P


def _real_blocks(x, optimize):
    import dask

    with warnings.catch_warnings():
        warnings.simplefilter("ignore")
        with dask.config.set({"array.optimize-graph": optimize}):
            values, _ = G.execute(G.to_tasks(x.__dask_graph__()))
    return values


def run_ext(ctx, progs, max_blocks=6):
    """`progs` = the program list of C03's own block correspondence."""
    reqs = []
    stats = {}
    for prog in progs:
        try:
            if P.in_known_class(prog) is not None:
                continue  # documented defect families: the real blocks are not what the property promises
        except Exception:  # noqa: BLE001
            continue
        ops = [s["op"] for s in prog]
        if ops.count("swv_reduce") > 1:
            continue  # nested sliding windows: known finding `swv-nested-wrong-values`
        env, exc = PC.build(prog)
        if exc is not None:
            continue
        x = env[prog[-1]["out"]]
        try:
            if x.ndim == 0 or any(np.isnan(c) for ax in x.chunks for c in ax) or x.dtype.kind not in "iub":
                continue
        except Exception:  # noqa: BLE001 - `.chunks` is lazy and may raise (chunk unification); the search's business
            continue
        try:
            tok = PC.encode2(prog, {k: v.shape for k, v in P.run_np(prog).items()}, env, stats)
        except Exception:  # noqa: BLE001
            tok = None
        ctx.notes["x2.block_programs"] = ctx.notes.get("x2.block_programs", 0) + 1
        if tok is None:
            ctx.notes["x2.outside_mini_language"] = ctx.notes.get("x2.outside_mini_language", 0) + 1
            continue
        values = None
        for opt in (True, False):
            try:
                values = _real_blocks(x, opt)
                break
            except Exception:  # noqa: BLE001 - raising graphs are the search's business (C03.check_program)
                continue
        if values is None:
            continue
        reqs.append((f"ex2.chunks {tok}", "ok " + PC._f_ll([list(c) for c in x.chunks]), prog))
        bids = list(itertools.product(*[range(len(c)) for c in x.chunks]))
        if len(bids) > max_blocks:  # first, last and a spread in between
            step = max(1, len(bids) // (max_blocks - 1))
            bids = (bids[::step] + [bids[-1]])[:max_blocks]
        for bid in bids:
            v = values.get((x.name, *bid))
            if v is None:
                continue
            v = np.asarray(v)
            if tuple(v.shape) != tuple(c[i] for c, i in zip(x.chunks, bid)):
                continue  # a block of another size than advertised is C03's own search finding, not ours
            reqs.append((f"ex2.block {tok} {PC._f_l(bid)}", "ok " + PC.f_arr(v), prog))
    if stats.get("chunks_from_impl"):
        ctx.notes["x2.chunks_from_impl"] = ctx.notes.get("x2.chunks_from_impl", 0) + stats["chunks_from_impl"]
    if not reqs:
        return
    outs = ctx.driver.run([r for r, _, _ in reqs])
    if all(o == "bad-op" for o in outs):
        ctx.notes["ex2_driver"] = "not available in this build"
        return
    live = []
    by_req = {}
    for (req, impl, prog), out in zip(reqs, outs):
        if out.startswith("err unsupported") or out.startswith("err illformed") or out == "bad-op":
            ctx.notes["x2.model_declined"] = ctx.notes.get("x2.model_declined", 0) + 1
            continue
        live.append((req, impl))
        by_req[req] = prog
    n0 = len(ctx.disagreements)
    ctx.correspond(
        "expr2(blockDen2,chunks2)", live,
        branch_key=lambda req, model: (req.split()[0], tuple(sorted({s.split("~")[0] for s in req.split()[1].split(";")})), model[:12]),
    )
    for d in ctx.disagreements[n0:]:
        d["program"] = by_req.get(d["request"])
    if len(ctx.disagreements) > n0:
        # targeted search: the disagreeing programs through C03's own per-block check on the real code
        from harness.props import C03

        done = set()
        for d in ctx.disagreements[n0:][:20]:
            prog = d.get("program")
            key = repr(prog)
            if prog is None or key in done:
                continue
            done.add(key)
            C03.check_program(ctx, prog, P.run_np(prog)[prog[-1]["out"]])
        ctx.notes["targeted_search"] = f"{len(done)} disagreeing ex2 programs re-checked block by block on the real graph"
