"""C06 extension: the OPERAND-ORDER dimension.

For every binary / n-ary public call family (operators incl. reflected forms, every binary ufunc the package
exposes, where / clip / choose / select, stack / concatenate / block, map_blocks / blockwise / apply_gufunc,
dot / outer / tensordot / einsum, chains such as (x + y) + z) the SAME operands are passed in every order
(swap for two operands; all rotations and swaps for three), all results alive at once, in a random build order.
The operands come from RECIPES for which "commutative" operations are NOT symmetric: unicode and object-dtype
strings (concatenation), object tuples, signed zeros (maximum / minimum / fmax / fmin / copysign), NaN payloads
and signs, complex signed zeros, mixed dtypes, booleans, small integers, masked arrays, non-symmetric
matrices.  Operand KINDS: dask o dask, dask o ndarray, ndarray o dask, dask o scalar, scalar o dask.

Oracle: NumPy applied to the NumPy twins in the same order.  Only combinations in which NumPy itself gives
DIFFERENT arrays for two orders are built (for the others one name would be no violation).  Checked:
  * two orders with ONE NAME must denote the same array (NumPy, compared bitwise: signed zeros, NaN payloads,
    string contents, masks);
  * (time-boxed, a random subset per run) every order computed separately, all orders in ONE merged
    dask.compute and stacked into ONE expression must give the value the same call gives ALONE (built and
    computed from empty registries); a deviation from NumPy that the call also shows alone is C01's subject;
  * the name -> content registry of C06 is drained after every group.
A failure replays from the case dict alone (family, recipe, kinds, chunks, build order).
"""
from __future__ import annotations

import collections
import gc
import itertools
import operator
import struct
import warnings

import numpy as np

N = 6


def NANP(k=1, neg=False):
    bits = 0x7FF8000000000000 | (int(k) & 0xFFFFFFFF) | ((1 << 63) if neg else 0)
    return struct.unpack("d", struct.pack("Q", bits))[0]


def _obj(items):
    out = np.empty(len(items), dtype=object)
    for i, v in enumerate(items):
        out[i] = v
    return out


def _recipes():
    nan = float("nan")
    r = {}
    sa = ["ab", "cd", "ef", "gh", "ij", "kl"]
    sb = ["1", "22", "333", "4", "55", "6"]
    sc = ["x", "yy", "z", "w", "vv", "u"]
    r["str-U"] = [np.array(s) for s in (sa, sb, sc)]
    r["str-O"] = [_obj(s) for s in (sa, sb, sc)]
    r["tuple-O"] = [_obj([(i,) for i in range(N)]), _obj([(i, -i) for i in range(N)]), _obj([() if i % 2 else (9,) for i in range(N)])]
    za = [0.0, -0.0, 1.0, -0.0, 2.5, -3.0]
    zb = [-0.0, 0.0, 1.0, -0.0, -2.5, 4.0]
    zc = [0.0, 0.0, -0.0, -0.0, 1.0, -1.0]
    r["zero-f8"] = [np.array(z, dtype="f8") for z in (za, zb, zc)]
    r["zero-f4"] = [np.array(z, dtype="f4") for z in (za, zb, zc)]
    r["nan-f8"] = [np.array([NANP(1), NANP(2, True), 1.0, nan, 0.0, -0.0]), np.array([NANP(3, True), NANP(4), nan, 2.0, -0.0, 0.0]),
                   np.array([NANP(5), -nan, NANP(6, True), 0.0, nan, 1.0])]
    r["zero-c16"] = [np.array([complex(0.0, -0.0), complex(-0.0, 0.0), 1 + 2j, complex(-0.0, -0.0), 2j, -1.0]),
                     np.array([complex(-0.0, 0.0), complex(0.0, -0.0), 2 - 1j, complex(0.0, 0.0), -2j, 3.0]),
                     np.array([complex(0.0, 0.0), complex(-0.0, -0.0), 1j, 1.0, complex(0.0, -0.0), -1j])]
    ia = [1, 2, 3, 4, 5, 6]
    ib = [3, 1, 2, 2, 1, 0]
    ic = [2, 2, 1, 0, 3, 1]
    r["int-i8"] = [np.array(v, dtype="i8") for v in (ia, ib, ic)]
    r["mixed-i1-f4"] = [np.array(ia, dtype="i1"), np.array(zb, dtype="f4"), np.array(ic, dtype="i2")]
    r["mixed-u8-i8"] = [np.array(ia, dtype="u8"), np.array([-3, 1, -2, 2, 1, 0], dtype="i8"), np.array(ic, dtype="u1")]
    r["mixed-bool-i8"] = [np.array([1, 0, 1, 0, 1, 1], dtype=bool), np.array(ib, dtype="i8"), np.array([0, 0, 1, 1, 0, 1], dtype=bool)]
    r["mixed-f4-f8"] = [np.array(za, dtype="f4") + np.float32(0.1), np.array(zb, dtype="f8") + 0.1, np.array(zc, dtype="f2")]
    r["mixed-i8-c8"] = [np.array(ia, dtype="i8"), np.array(zb, dtype="c8") * (1 + 1j), np.array(ic, dtype="f4")]
    r["bool"] = [np.array([1, 0, 1, 0, 1, 1], dtype=bool), np.array([0, 0, 1, 1, 0, 1], dtype=bool), np.array([1, 1, 0, 0, 0, 1], dtype=bool)]
    r["masked-f8"] = [np.ma.masked_array(za, mask=[0, 1, 0, 0, 0, 1]), np.ma.masked_array(zb, mask=[0, 0, 1, 0, 1, 0]),
                      np.ma.masked_array(zc, mask=[1, 0, 0, 0, 0, 0])]
    r["masked-plain-f8"] = [np.ma.masked_array(za, mask=[0, 1, 0, 0, 0, 1]), np.array(zb), np.ma.masked_array(zc, mask=[1, 0, 0, 0, 0, 0])]
    r["mat-f8"] = [np.array([[1.0, 2, 0], [0, 1, 3], [4, 0, 1]]), np.array([[0.0, 1, 0], [2, 0, 0], [0, 0, -1]]), np.array([[1.0, 1, 1], [0, 2, 0], [3, 0, 0]])]
    return r


RECIPES = None


def recipes():
    global RECIPES
    if RECIPES is None:
        RECIPES = _recipes()
    return RECIPES


# module-level block functions (tokenised by qualified name)

def f_first(x, y):
    return x


def f_second(x, y):
    return y


def f_first3(x, y, z):
    return x


def f_pair(x, y):
    return x + y


# ------------------------------------------------------------------------------ families

class Fam:
    __slots__ = ("name", "arity", "fn", "exact", "kinds", "same_chunks")

    def __init__(self, name, arity, fn, exact=True, kinds=("dd", "dn", "nd", "ds", "sd"), same_chunks=False):
        self.name, self.arity, self.fn, self.exact, self.kinds, self.same_chunks = name, arity, fn, exact, kinds, same_chunks


def binary_ufunc_names():
    import dask_array as da

    out = []
    for n in sorted(dir(da)):
        u = getattr(np, n, None)
        if isinstance(u, np.ufunc) and u.nin == 2 and u.nout == 1 and callable(getattr(da, n, None)) and n != "matmul":
            out.append(n)
    return out


_FAMS = None


def families():
    global _FAMS
    if _FAMS is not None:
        return _FAMS
    out = []
    add = out.append
    for n in ("add", "sub", "mul", "truediv", "floordiv", "mod", "pow", "and_", "or_", "xor", "eq", "ne", "lt", "le", "gt", "ge", "lshift", "rshift"):
        f = getattr(operator, n)
        add(Fam("op:" + n, 2, lambda m, x, y, f=f: f(x, y)))
    add(Fam("op:matmul", 2, lambda m, x, y: operator.matmul(x, y), exact=False, kinds=("dd", "dn", "nd")))
    for n in binary_ufunc_names():
        add(Fam("ufunc:" + n, 2, lambda m, x, y, n=n: getattr(m, n)(x, y)))
    for n in ("add", "multiply", "maximum", "minimum", "fmax", "logical_or", "bitwise_xor", "equal", "hypot", "subtract"):
        add(Fam("ufunc-where-true:" + n, 2, lambda m, x, y, n=n: getattr(m, n)(x, y, where=True)))
        add(Fam("ufunc-dtype:" + n, 2, lambda m, x, y, n=n: getattr(m, n)(x, y, dtype=np.result_type(_dt(x), _dt(y)))))
    for n in ("add", "multiply", "maximum", "subtract", "logical_or"):
        add(Fam("ufunc-outer:" + n, 2, lambda m, x, y, n=n: getattr(m, n).outer(x, y), kinds=("dd", "dn", "nd")))
    add(Fam("divmod:0", 2, lambda m, x, y: m.divmod(x, y)[0]))
    add(Fam("divmod:1", 2, lambda m, x, y: m.divmod(x, y)[1]))
    add(Fam("where-greater", 2, lambda m, x, y: m.where(x > y, x, y), kinds=("dd", "dn", "nd")))
    add(Fam("where", 3, lambda m, c, x, y: m.where(c, x, y), kinds=("ddd", "dnd", "ddn", "dds")))
    add(Fam("clip", 3, lambda m, x, lo, hi: m.clip(x, lo, hi), kinds=("ddd", "dnn")))
    for n in ("stack", "concatenate", "hstack", "vstack", "dstack", "block"):
        add(Fam("seq:" + n, 2, lambda m, x, y, n=n: getattr(m, n)([x, y]), kinds=("dd", "dn", "nd")))
    for n in ("stack", "concatenate", "block"):
        add(Fam("seq3:" + n, 3, lambda m, x, y, z, n=n: getattr(m, n)([x, y, z]), kinds=("ddd", "dnd")))
    add(Fam("block:column", 2, lambda m, x, y: m.block([[x], [y]]) if _nd(x) == 2 else m.block([[x[:, None]], [y[:, None]]]), kinds=("dd",)))
    add(Fam("choose", 2, lambda m, x, y: m.choose(_idx(m, x), [x, y]), kinds=("dd",)))
    add(Fam("select", 2, lambda m, x, y: m.select([_idx(m, x) == 0, _idx(m, x) == 1], [x, y]), kinds=("dd",)))
    add(Fam("map_blocks:ufunc-add", 2, lambda m, x, y: (np.add(x, y) if m is np else m.map_blocks(np.add, x, y, dtype=np.add(_np0(x), _np0(y)).dtype)), kinds=("dd", "dn", "nd"), same_chunks=True))
    add(Fam("map_blocks:first", 2, lambda m, x, y: (f_first(x, y) if m is np else m.map_blocks(f_first, x, y, dtype=_dt(x))), kinds=("dd",), same_chunks=True))
    add(Fam("map_blocks:second", 2, lambda m, x, y: (f_second(x, y) if m is np else m.map_blocks(f_second, x, y, dtype=_dt(y))), kinds=("dd",), same_chunks=True))
    add(Fam("map_blocks:first3", 3, lambda m, x, y, z: (f_first3(x, y, z) if m is np else m.map_blocks(f_first3, x, y, z, dtype=_dt(x))), kinds=("ddd",), same_chunks=True))
    add(Fam("blockwise:first", 2, lambda m, x, y: (f_first(x, y) if m is np else m.blockwise(f_first, _ind(x), x, _ind(x), y, _ind(y), dtype=_dt(x))), kinds=("dd",)))
    add(Fam("blockwise:pair", 2, lambda m, x, y: (f_pair(x, y) if m is np else m.blockwise(f_pair, _ind(x), x, _ind(x), y, _ind(y), dtype=f_pair(_np0(x), _np0(y)).dtype)), kinds=("dd",)))
    add(Fam("apply_gufunc:first", 2, lambda m, x, y: (f_first(x, y) if m is np else m.apply_gufunc(f_first, "(),()->()", x, y, output_dtypes=_dt(x))), kinds=("dd",)))
    add(Fam("dot", 2, lambda m, x, y: m.dot(x, y), exact=False, kinds=("dd", "dn", "nd")))
    add(Fam("matmul", 2, lambda m, x, y: m.matmul(x, y), exact=False, kinds=("dd",)))
    add(Fam("outer", 2, lambda m, x, y: m.outer(x, y), exact=False, kinds=("dd", "dn", "nd")))
    add(Fam("tensordot:0", 2, lambda m, x, y: m.tensordot(x, y, axes=0), exact=False, kinds=("dd",)))
    add(Fam("tensordot:1", 2, lambda m, x, y: m.tensordot(x, y, axes=1), exact=False, kinds=("dd",)))
    add(Fam("einsum:outer", 2, lambda m, x, y: m.einsum("i,j->ij", x, y) if _nd(x) == 1 else m.einsum("ij,jk->ik", x, y), exact=False, kinds=("dd",)))
    add(Fam("einsum:elementwise", 2, lambda m, x, y: m.einsum("i,i->i", x, y) if _nd(x) == 1 else m.einsum("ij,ij->ij", x, y), exact=False, kinds=("dd",)))
    add(Fam("isclose", 2, lambda m, x, y: m.isclose(x, y, rtol=0.5, atol=0.0), kinds=("dd", "dn", "nd")))
    add(Fam("isin", 2, lambda m, x, y: m.isin(x, y), kinds=("dd",)))
    add(Fam("append", 2, lambda m, x, y: m.append(x, y), kinds=("dd", "dn", "nd")))
    add(Fam("average:weights", 2, lambda m, x, y: m.average(x, weights=y), exact=False, kinds=("dd",)))
    add(Fam("cov", 2, lambda m, x, y: m.cov(x, y), exact=False, kinds=("dd",)))
    add(Fam("meshgrid:0", 2, lambda m, x, y: m.meshgrid(x, y)[0] if _nd(x) == 1 else m.meshgrid(x[0], y[0])[0], kinds=("dd",)))
    add(Fam("broadcast_arrays:0", 2, lambda m, x, y: m.broadcast_arrays(x, y)[0], kinds=("dd",)))
    # chains: associativity / mixed operations, three operands in every order
    add(Fam("chain:(x+y)+z", 3, lambda m, x, y, z: (x + y) + z, kinds=("ddd", "dnd", "dds")))
    add(Fam("chain:x+(y+z)", 3, lambda m, x, y, z: x + (y + z), kinds=("ddd", "dnd")))
    add(Fam("chain:x*y+z", 3, lambda m, x, y, z: x * y + z, kinds=("ddd",)))
    add(Fam("chain:maximum3", 3, lambda m, x, y, z: m.maximum(m.maximum(x, y), z), kinds=("ddd",)))
    add(Fam("chain:minimum-of-maximum", 3, lambda m, x, y, z: m.minimum(m.maximum(x, y), m.maximum(y, z)), kinds=("ddd",)))
    add(Fam("chain:sum-of-both-orders", 2, lambda m, x, y: m.stack([m.maximum(x, y), m.maximum(y, x)]), kinds=("dd",)))
    add(Fam("chain:(x+y)[::2]", 2, lambda m, x, y: (x + y)[::2], kinds=("dd", "dn")))
    _FAMS = out
    return out


def family(name):
    for f in families():
        if f.name == name:
            return f
    return None


def _dt(x):
    """dtype of an operand (dask collection / ndarray / scalar) without computing anything"""
    return x.dtype if hasattr(x, "dtype") else np.asarray(x).dtype


def _nd(x):
    return x.ndim if hasattr(x, "ndim") else np.ndim(x)


def _np0(x):
    """a zero-length NumPy stand-in with the operand's dtype (to ask NumPy for result dtypes)"""
    if isinstance(x, np.ndarray):
        return x[:0]
    if hasattr(x, "dtype") and hasattr(x, "ndim"):
        return np.empty((0,) * max(1, x.ndim), dtype=x.dtype)
    return np.asarray(x)


def _ind(x):
    return "ij"[: x.ndim]


def _idx(m, x):
    shape = x.shape
    idx = (np.arange(int(np.prod(shape))).reshape(shape) * 3 // 2) % 2
    if m is np:
        return idx
    return m.from_array(idx, chunks=x.chunks)


# ------------------------------------------------------------------------------ comparison

def fingerprint(v):
    """Strict identity of a NumPy result (bitwise for numbers; contents for strings / objects; mask + visible data)."""
    if isinstance(v, np.ma.MaskedArray):
        mask = np.ma.getmaskarray(v)
        data = np.ma.getdata(v)
        return ("masked", data.dtype.str, v.shape, mask.tobytes(), np.ascontiguousarray(data[~mask]).tobytes())
    v = np.asarray(v)
    if v.dtype.kind == "O":
        return ("O", v.shape, tuple(type(x).__name__ + ":" + repr(x) for x in v.ravel().tolist()))
    if v.dtype.kind in "US":
        return (v.dtype.kind, v.shape, tuple(v.ravel().tolist()))
    return (v.dtype.str, v.shape, np.ascontiguousarray(v).tobytes())


def same(got, want, exact):
    """computed value vs oracle value: signed zeros told apart for exact families, NaNs equal to each other"""
    gm, wm = isinstance(got, np.ma.MaskedArray), isinstance(want, np.ma.MaskedArray)
    if gm or wm:
        if not (gm and wm):
            return False
        mg, mw = np.ma.getmaskarray(got), np.ma.getmaskarray(want)
        if got.shape != want.shape or not np.array_equal(mg, mw):
            return False
        return same(np.ma.getdata(got)[~mg], np.ma.getdata(want)[~mw], exact)
    a, b = np.asarray(got), np.asarray(want)
    if a.shape != b.shape:
        return False
    if a.dtype.kind in "OUS" or b.dtype.kind in "OUS":
        if (a.dtype.kind == "O") != (b.dtype.kind == "O"):
            return False
        return [type(x).__name__ + repr(x) for x in a.ravel().tolist()] == [type(x).__name__ + repr(x) for x in b.ravel().tolist()]
    if a.dtype != b.dtype:
        return False
    if a.dtype.kind == "c":
        return same(a.real, b.real, exact) and same(a.imag, b.imag, exact)
    if a.dtype.kind == "f":
        na, nb = np.isnan(a), np.isnan(b)
        if not np.array_equal(na, nb):
            return False
        ok = ~na
        if exact:
            return bool(np.array_equal(a[ok], b[ok]) and np.array_equal(np.signbit(a[ok]), np.signbit(b[ok])))
        with np.errstate(all="ignore"):
            return bool(np.allclose(a[ok], b[ok], rtol=1e-6 if a.dtype.itemsize <= 4 else 1e-10, atol=1e-12))
    return bool(np.array_equal(a, b))


def brief(v, limit=12):
    if isinstance(v, np.ma.MaskedArray):
        return {"masked": True, "data": brief(np.ma.getdata(v)), "mask": np.ma.getmaskarray(v).ravel()[:limit].tolist()}
    a = np.asarray(v)
    return {"shape": list(a.shape), "dtype": str(a.dtype), "head": [repr(x) for x in a.ravel()[:limit].tolist()]}


# ------------------------------------------------------------------------------ one combination

def chunk_choices(shape):
    if len(shape) == 2:
        return [(2, 2), (3, 3), (2, 3), (1, 3)]
    return [(2,), (3,), (6,), (4,)]


def operands(mode, recipe, kinds, chunks):
    """The operand tuple for `mode` ('np' or 'da'): dask collections / NumPy arrays / scalars per kind letter."""
    import dask_array as da

    data = recipes()[recipe]
    out = []
    for k, (kind, d) in enumerate(zip(kinds, data)):
        if kind == "s":
            v = d.ravel()[1] if not isinstance(d, np.ma.MaskedArray) else np.ma.getdata(d).ravel()[0]
            out.append(v)
        elif kind == "n" or mode == "np":
            out.append(d)
        else:
            out.append(da.from_array(d, chunks=tuple(chunks[k])))
    return out


def call(fam, mode, ops, perm):
    import dask_array as da

    m = np if mode == "np" else da
    with warnings.catch_warnings(), np.errstate(all="ignore"):
        warnings.simplefilter("ignore")
        return fam.fn(m, *[ops[i] for i in perm])


def perms(arity):
    return [list(p) for p in itertools.permutations(range(arity))]


def np_refs(fam, recipe, kinds, chunks):
    """NumPy result per operand order, or None when NumPy refuses the call / the data for the identity order."""
    ops = operands("np", recipe, kinds, chunks)
    refs = {}
    for p in perms(fam.arity):
        try:
            r = call(fam, "np", ops, p)
            if r is NotImplemented:
                raise TypeError("NotImplemented")
            r = r if isinstance(r, np.ma.MaskedArray) else np.asarray(r)
            fingerprint(r)
            refs[tuple(p)] = r
        except Exception:
            continue
    return refs


def compute_one(x):
    import dask

    with dask.config.set(scheduler="sync"), warnings.catch_warnings(), np.errstate(all="ignore"):
        warnings.simplefilter("ignore")
        r = x.compute()
    return r if isinstance(r, np.ma.MaskedArray) else np.asarray(r)


class Combo:
    """One (family, recipe, kinds, chunks): every operand order built, all alive."""

    def __init__(self, ctx, reg, fam, recipe, kinds, chunks, order, stats):
        self.ctx, self.reg, self.fam, self.recipe, self.kinds, self.chunks, self.order, self.stats = ctx, reg, fam, recipe, kinds, chunks, order, stats
        self.failed = False

    def case(self, **kw):
        c = {"order_stream": True, "family": self.fam.name, "recipe": self.recipe, "kinds": self.kinds, "chunks": [list(c) for c in self.chunks],
             "build_order": [list(p) for p in self.order]}
        c.update(kw)
        return c

    def fail(self, sig, what, **kw):
        self.failed = True
        self.ctx.fail(sig, self.case(**kw), what)

    def alone(self, perm):
        def go():
            ops = operands("da", self.recipe, self.kinds, self.chunks)
            return compute_one(call(self.fam, "da", ops, perm))

        try:
            return ("ok", self.reg.isolated(go))
        except Exception as e:
            return ("err", f"{type(e).__name__}: {str(e)[:120]}")

    def run(self, refs, do_compute):
        ctx, fam = self.ctx, self.fam
        try:
            ops = operands("da", self.recipe, self.kinds, self.chunks)
        except Exception:
            self.stats["sources-refused"] += 1
            return
        built = []
        for p in self.order:
            if tuple(p) not in refs:
                continue
            try:
                x = call(fam, "da", ops, p)
                nm = x.name
                x.chunks, x.dtype
            except Exception as e:
                self.stats["build-refused"] += 1
                self.stats[f"refused:{fam.name}:{self.recipe}"] += 1
                continue
            built.append((tuple(p), x, nm))
        if len(built) < 2:
            return
        ctx.count(("order", fam.name, self.recipe, self.kinds))
        self.stats["combos-built"] += 1
        by = collections.defaultdict(list)
        for p, x, nm in built:
            by[nm].append((p, x))
        for nm, mem in by.items():
            for (p0, x0), (p1, x1) in itertools.combinations(mem, 2):
                self.stats["same-name-orders"] += 1
                if fingerprint(refs[p0]) != fingerprint(refs[p1]):
                    if not self.package_tells_them_apart(p0, p1, refs):
                        continue
                    self.fail(f"order:one-name-two-arrays:{fam.name}",
                              f"{fam.name}: the operand orders {list(p0)} and {list(p1)} of the same operands ({self.recipe}, kinds {self.kinds}) get ONE name {nm!r} but NumPy gives two different arrays",
                              name=nm, order_i=list(p0), order_j=list(p1), numpy_i=brief(refs[p0]), numpy_j=brief(refs[p1]))
                    return
                try:
                    m0, m1 = (tuple(map(tuple, x0.chunks)), str(x0.dtype)), (tuple(map(tuple, x1.chunks)), str(x1.dtype))
                except Exception:
                    continue
                if m0 != m1:
                    self.fail(f"order:one-name-two-layouts:{fam.name}", f"{fam.name}: two operand orders get the name {nm!r} but advertise different chunks / dtype",
                              name=nm, order_i=list(p0), order_j=list(p1), meta_i=m0, meta_j=m1)
                    return
        for c in self.reg.drain(f"order:{fam.name}:build"):
            cls = "+".join(sorted({c["a"]["class"], c["b"]["class"]}))
            kind = "meta" if c["what"].startswith("shape") else "values"
            self.fail(f"order:registry-one-name-two-arrays:{fam.name}:{cls}:{kind}",
                      f"two expression nodes named {c['name']!r} created while building the operand orders of one call: {c['what']}", registry_conflict=c)
            return
        if not do_compute:
            return
        # values: separately, merged, stacked into one expression
        import dask

        got = {}
        for p, x, nm in built:
            self.check_value(p, lambda x=x: compute_one(x), refs, "separately")
            if self.failed:
                return
        try:
            with dask.config.set(scheduler="sync"), warnings.catch_warnings(), np.errstate(all="ignore"):
                warnings.simplefilter("ignore")
                merged = dask.compute(*[x for _, x, _ in built])
        except Exception:
            self.stats["merged-compute-raised"] += 1
            merged = None
        if merged is not None:
            for (p, x, nm), g in zip(built, merged):
                self.check_value(p, lambda g=g: g if isinstance(g, np.ma.MaskedArray) else np.asarray(g), refs, "in one merged dask.compute")
                if self.failed:
                    return
        shapes = {(tuple(x.shape), str(x.dtype)) for _, x, _ in built}
        if len(shapes) == 1 and not any(isinstance(refs[p], np.ma.MaskedArray) for p, _, _ in built):  # stacking changes the container type
            import dask_array as da

            try:
                st = compute_one(da.stack([x for _, x, _ in built]))
            except Exception:
                self.stats["stacked-compute-raised"] += 1
                st = None
            if st is not None and st.shape[0] == len(built):
                for k, (p, x, nm) in enumerate(built):
                    self.check_value(p, lambda k=k: st[k], refs, "stacked with the other orders into one expression", loose_dtype=True)
                    if self.failed:
                        return
        self.reg.drain(f"order:{fam.name}:compute")

    def package_tells_them_apart(self, p0, p1, refs):
        """NumPy distinguishes the two orders.  One name is wrong only if the package ITSELF computes two arrays
        for the two calls alone (a consistent deviation from NumPy is C01's subject)."""
        a0, a1 = self.alone(p0), self.alone(p1)
        if a0[0] != "ok" or a1[0] != "ok":
            return True
        if fingerprint(a0[1]) != fingerprint(a1[1]):
            return True
        self.stats["numpy-distinguishes-but-package-computes-one-array(C01 subject)"] += 1
        self.stats[f"deviates-from-numpy-consistently:{self.fam.name}:{self.recipe}"] += 1
        return False

    def check_value(self, p, thunk, refs, how, loose_dtype=False):
        fam = self.fam
        self.ctx.count(("order-compute", fam.name, how))
        try:
            got = ("ok", thunk())
        except Exception as e:
            got = ("err", f"{type(e).__name__}: {str(e)[:120]}")
        want = refs[p]
        if got[0] == "ok" and loose_dtype and isinstance(got[1], np.ma.MaskedArray) and not np.ma.getmaskarray(got[1]).any():
            got = ("ok", np.ma.getdata(got[1]))  # stacking with a masked member turns every member into a masked array
        if got[0] == "ok":
            g = got[1]
            if loose_dtype and not isinstance(g, np.ma.MaskedArray) and g.dtype != np.asarray(want).dtype and g.dtype.kind not in "OUS":
                try:
                    g = g.astype(np.asarray(want).dtype)
                except Exception:
                    pass
            if same(g, want, fam.exact):
                return
        self.stats["value-differs-from-numpy"] += 1
        al = self.alone(p)
        if al[0] != "ok":
            if got[0] == "err":
                self.stats["raises-also-alone"] += 1
                return
            self.stats["alone-raises-but-together-computes"] += 1
            return
        if got[0] == "ok":
            g = got[1]
            if loose_dtype and not isinstance(g, np.ma.MaskedArray) and g.dtype.kind not in "OUS":
                try:
                    g = g.astype(np.asarray(al[1]).dtype)
                except Exception:
                    pass
            if same(g, al[1], True) or same(g, al[1], fam.exact):
                self.stats["differs-from-numpy-but-same-alone(C01 subject)"] += 1
                self.stats[f"not-numpy-but-history-independent:{fam.name}:{self.recipe}"] += 1
                return
            self.fail(f"order:value-depends-on-companions:{fam.name}",
                      f"{fam.name}: the operand order {list(p)} computed {how} gives another array than the same call alone (the other orders of the same operands are alive: one computation substituted for another)",
                      order_i=list(p), how=how, got=brief(got[1]), alone=brief(al[1]), numpy=brief(want))
        else:
            self.fail(f"order:raises-only-with-companions:{fam.name}",
                      f"{fam.name}: the operand order {list(p)} computed {how} raises ({got[1]}) but computes alone", order_i=list(p), how=how, error=got[1], alone=brief(al[1]))


# ------------------------------------------------------------------------------ driver

def kinds_for(fam, rng, full):
    ks = list(fam.kinds)
    if full:
        return ks
    return [ks[0]] + ([rng.choice(ks[1:])] if len(ks) > 1 and rng.random() < 0.4 else [])


def pick_chunks(fam, recipe, rng):
    shape = np.shape(recipes()[recipe][0])
    ch = chunk_choices(shape)
    if fam.same_chunks:
        c = rng.choice(ch)
        return [c] * fam.arity
    c = rng.choice(ch)
    return [c if rng.random() < 0.7 else rng.choice(ch) for _ in range(fam.arity)]


def run(ctx, reg, budget_s=None):
    with warnings.catch_warnings(), np.errstate(all="ignore"):
        warnings.simplefilter("ignore")
        return _run(ctx, reg, budget_s)


def _run(ctx, reg, budget_s=None):
    rng = ctx.rng
    stats = collections.Counter()
    t0 = ctx.elapsed()
    budget = budget_s if budget_s is not None else ctx.scale(4, 120)
    full = ctx.tier != "quick"
    fams = list(families())
    rng.shuffle(fams)
    recs = list(recipes())
    plan = []
    asym = collections.Counter()
    for fam in fams:
        for rec in recs:
            for kinds in kinds_for(fam, rng, full):
                chunks = pick_chunks(fam, rec, rng)
                refs = np_refs(fam, rec, kinds, chunks)
                stats["combos"] += 1
                if len(refs) < 2:
                    stats["numpy-refuses"] += 1
                    continue
                if len({fingerprint(r) for r in refs.values()}) < 2:
                    stats["symmetric-for-this-data"] += 1
                    continue
                asym[fam.name] += 1
                order = perms(fam.arity)
                order = [p for p in order if tuple(p) in refs]
                rng.shuffle(order)
                plan.append((fam, rec, kinds, chunks, order, refs))
    stats["asymmetric-combos"] = len(plan)
    ctx.notes["order_families"] = {"total": len(fams), "with-asymmetric-data": len(asym), "never-asymmetric": sorted(f.name for f in fams if not asym[f.name])}
    stats["seconds-numpy-refs"] = round(ctx.elapsed() - t0, 1)
    # pass A, always complete: names + registry for every asymmetric combination
    failed = set()
    nfail = 0
    for fam, rec, kinds, chunks, order, refs in plan:
        if fam.name in failed:
            continue
        c = Combo(ctx, reg, fam, rec, kinds, chunks, order, stats)
        try:
            c.run(refs, do_compute=False)
        finally:
            if c.failed:
                reg.drain("discard")
                failed.add(fam.name)
                nfail += 1
        del c
        if nfail >= 6:
            break
    gc.collect(1)
    stats["seconds-names-pass"] = round(ctx.elapsed() - t0, 1)
    # pass B, time-boxed: values of a random subset (separately / merged / stacked)
    sub = list(plan)
    rng.shuffle(sub)
    seen = set()
    first, rest = [], []
    for q in sub:  # one combination of every family first, then the others
        (rest if q[0].name in seen else first).append(q)
        seen.add(q[0].name)
    sub = first + rest
    computed = 0
    for fam, rec, kinds, chunks, order, refs in sub:
        if fam.name in failed:
            continue
        if len(failed) >= 6:  # enough reports for one run
            stats["combos-not-computed(failures)"] += 1
            continue
        if ctx.elapsed() - t0 > budget:
            stats["combos-not-computed(time)"] += 1
            continue
        c = Combo(ctx, reg, fam, rec, kinds, chunks, order, stats)
        try:
            c.run(refs, do_compute=True)
        finally:
            if c.failed:
                reg.drain("discard")
                failed.add(fam.name)
        computed += 1
    stats["combos-computed"] = computed
    stats["seconds"] = round(ctx.elapsed() - t0, 1)
    ctx.notes["order"] = {k: v for k, v in stats.items() if ":" not in k}
    ctx.notes["order_detail"] = {k: v for k, v in stats.items() if ":" in k}
    if plan:
        fam, rec, kinds, chunks, order, refs = plan[0]
        ctx.sample({"kind": "operand-orders", "family": fam.name, "recipe": rec, "kinds": kinds, "chunks": [list(c) for c in chunks]})


def replay(ctx, reg, case):
    fam = family(case["family"])
    if fam is None:
        ctx.notes["replay"] = f"unknown family {case['family']}"
        return
    stats = collections.Counter()
    chunks = [tuple(c) for c in case["chunks"]]
    refs = np_refs(fam, case["recipe"], case["kinds"], chunks)
    order = [list(p) for p in case["build_order"]]
    for o in (order, order[::-1]):
        c = Combo(ctx, reg, fam, case["recipe"], case["kinds"], chunks, o, stats)
        c.run(refs, do_compute=True)
        if c.failed:
            break
        del c
        gc.collect()
    ctx.notes["order"] = dict(stats)
