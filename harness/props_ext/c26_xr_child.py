"""Child interpreter of the C26 xarray-level differential stream (see c26_xr.py).

usage: python c26_xr_child.py registered|stock   < JSON list of cases   > "RESULT <json>"

Every case is a plain dict that fully determines an xarray program (sizes, chunk sizes, variable layout,
operation, the seed of the integer-valued test data).  The program is run twice in this interpreter: on
NumPy-backed objects (the oracle) and on chunked objects (`registered`: after dask_array.xarray.register(), so
the chunked objects are dask_array-backed and every manager-dispatched step goes through
DaskArrayExprManager; `stock`: xarray's own dask manager, never registered -- the refusal baseline).
Per case the child reports a verdict string ("ok" / "mismatch …" / "raises …" / "numpy-raises …") and the
set of DaskArrayExprManager methods that were entered while the chunked program ran.
"""
from __future__ import annotations

import functools
import json
import operator
import sys
import warnings

warnings.simplefilter("ignore")

import numpy as np
import xarray as xr

MODE = sys.argv[1] if len(sys.argv) > 1 else "registered"
CALLS: set = set()


def instrument():
    """Record which manager methods are entered (thin pass-through wrappers on the class)."""
    from dask_array._xarray import DaskArrayExprManager as M

    def wrap(f, n):
        @functools.wraps(f)
        def w(*a, **k):
            CALLS.add(n)
            return f(*a, **k)
        return w

    for name, obj in list(vars(M).items()):
        if name.startswith("__"):
            continue
        if isinstance(obj, property):
            setattr(M, name, property(lambda self, _f=obj.fget, _n=name: (CALLS.add(_n), _f(self))[1]))
        elif callable(obj):
            setattr(M, name, wrap(obj, name))


if MODE == "registered":
    import dask_array
    import dask_array.xarray as dx

    dx.register()
    assert dx.isactive()
    instrument()

from xarray.namedarray.parallelcompat import guess_chunkmanager  # noqa: E402
from xarray.namedarray.pycompat import is_chunked_array  # noqa: E402


# ------------------------------------------------------------------------------------ helpers

def tochunk(c):
    return tuple(c) if isinstance(c, list) else c


def ivals(rng, shape, nan=0):
    a = rng.integers(-6, 10, size=shape).astype("f8")
    for _ in range(nan):
        if a.size:
            a[tuple(int(rng.integers(0, s)) for s in a.shape)] = np.nan
    return a


def canon(obj):
    """→ {name: (dims, ndarray)}; computes whatever is still lazy."""
    out = {}
    if isinstance(obj, xr.DataTree):
        for node in obj.subtree:
            for k, v in canon(node.to_dataset(inherit=False)).items():
                out[node.path + ":" + k] = v
        return out
    if isinstance(obj, xr.Dataset):
        for k, v in obj.variables.items():
            out[str(k)] = (tuple(map(str, v.dims)), np.asarray(v.values))
        return out
    if isinstance(obj, xr.DataArray):
        out["<data>"] = (tuple(map(str, obj.dims)), np.asarray(obj.values))
        for k, v in obj.coords.items():
            out["coord:" + str(k)] = (tuple(map(str, v.dims)), np.asarray(v.values))
        return out
    if isinstance(obj, xr.Variable):
        return {"<var>": (tuple(map(str, obj.dims)), np.asarray(obj.values))}
    if isinstance(obj, dict):
        for k, v in obj.items():
            for kk, vv in canon(v).items():
                out[f"{k}/{kk}"] = vv
        return out
    if isinstance(obj, (tuple, list)):
        for i, v in enumerate(obj):
            for kk, vv in canon(v).items():
                out[f"{i}/{kk}"] = vv
        return out
    if hasattr(obj, "compute") and not isinstance(obj, np.ndarray):
        obj = obj.compute()
    return {"<array>": ((), np.asarray(obj))}


def same(gw, gg):
    if gw.shape != gg.shape:
        return f"shape {gg.shape} vs {gw.shape}"
    if gw.dtype.kind in "fc" or gg.dtype.kind in "fc":
        try:
            ok = np.allclose(gg.astype("c16" if "c" in (gw.dtype.kind, gg.dtype.kind) else "f8"),
                             gw.astype("c16" if "c" in (gw.dtype.kind, gg.dtype.kind) else "f8"),
                             rtol=1e-9, atol=1e-9, equal_nan=True)
        except (TypeError, ValueError):
            ok = False
        return None if ok else "values got=" + repr(gg.tolist())[:160] + " want=" + repr(gw.tolist())[:160]
    if gw.dtype.kind in "mM" or gg.dtype.kind in "mM":
        ok = bool(np.array_equal(gw.astype("i8"), gg.astype("i8"))) and gw.dtype.kind == gg.dtype.kind
    else:
        ok = bool(np.array_equal(gw, gg))
    return None if ok else "values got=" + repr(gg.tolist())[:160] + " want=" + repr(gw.tolist())[:160]


def compare(want, got, dims_strict=True):
    if set(want) != set(got):
        return f"mismatch variables {sorted(got)} vs {sorted(want)}"
    for k in want:
        wd, wv = want[k]
        gd, gv = got[k]
        if wd != gd:
            if set(wd) == set(gd) and len(wd) == len(gd) and not dims_strict:
                gv = np.transpose(gv, [gd.index(d) for d in wd])
            else:
                return f"mismatch {k}: dims {gd} vs {wd}"
        why = same(wv, gv)
        if why:
            return f"mismatch {k}: {why}"
    return "ok"


# ------------------------------------------------------------------------------------ family: dsload

EXPRS = {
    "mul2": lambda a, b: a * 2.0,
    "neg_add1": lambda a, b: -a + 1.0,
    "lin": lambda a, b: a * 2.0 - b,
    "sum_keep": lambda a, b: a + b * 0.0 + 3.0,
    "T": lambda a, b: a.transpose(*reversed(a.dims)),
    "cumsum": lambda a, b: a.cumsum(a.dims[-1]) if a.ndim else a + 1.0,
    "mean0": lambda a, b: a.mean(a.dims[0]) if a.ndim else a - 1.0,
    "isel": lambda a, b: a.isel({a.dims[0]: slice(1, None)}) if a.ndim else a * 3.0,
}


def build_dataset(case, lazy):
    rng = np.random.default_rng(case["data_seed"])
    sizes, chunks = case["sizes"], case["chunks"]
    ds = xr.Dataset(coords={d: np.arange(n) * (10 if d == "y" else 1) for d, n in sizes.items()})
    byname = {}
    coordnames = []
    for spec in case["vars"]:
        byname[spec["name"]] = spec
        k = spec["kind"]
        if k in ("base", "np"):
            arr = ivals(rng, [sizes[d] for d in spec["dims"]], nan=spec.get("nan", 0))
            val = xr.DataArray(arr, dims=spec["dims"])
            if lazy and k == "base":
                val = val.chunk({d: tochunk(spec.get("chunks", chunks)[d]) for d in spec["dims"]})
        elif k == "alias":
            val = ds[spec["of"]]
        elif k == "alias_var":          # the same lazy array object under a new Variable
            src = ds[spec["of"]].variable
            val = xr.Variable(src.dims, src._data if lazy else src.values)
        elif k == "expr":
            val = EXPRS[spec["op"]](ds[spec["of"]], ds[spec["other"]] if spec.get("other") else None)
        elif k == "same_expr":          # structurally the same expression as an earlier variable, built again
            ref = byname[spec["of"]]
            val = EXPRS[ref["op"]](ds[ref["of"]], ds[ref["other"]] if ref.get("other") else None)
        else:
            raise ValueError(k)
        ds[spec["name"]] = val
        if spec.get("coord"):
            coordnames.append(spec["name"])
    if coordnames:
        ds = ds.set_coords(coordnames)
    if case.get("select"):
        ds = ds[case["select"]]
    return ds


def check_loaded(obj):
    """compute()/load() must leave nothing chunked."""
    if isinstance(obj, xr.DataTree):
        for node in obj.subtree:
            check_loaded(node.to_dataset(inherit=False))
        return
    vs = obj.variables if isinstance(obj, xr.Dataset) else obj._to_temp_dataset().variables
    for k, v in vs.items():
        if is_chunked_array(v._data):
            raise AssertionError(f"variable {k!r} is still chunked after compute/load")


def as_dataarray(ds, case):
    name = case["da_var"]
    d = ds[name]
    extra = {k: ds[k].variable for k in ds.variables if k != name and k not in ds.dims and set(ds[k].dims) <= set(d.dims)}
    return d.reset_coords(drop=True).assign_coords(extra) if extra else d


def as_tree(ds, case):
    names = list(ds.data_vars)
    cut = case.get("tree_cut", 1)
    return xr.DataTree.from_dict({"/": ds[names[:cut]], "/child": ds[names[cut:]], "/child/leaf": ds[names[:1] + names[-1:]]})


def run_dsload(case, lazy):
    import dask

    ds = build_dataset(case, lazy)
    m = case["method"]
    if not lazy:
        if m.startswith("dataarray_"):
            return as_dataarray(ds, case)
        if m.startswith("datatree_"):
            return as_tree(ds, case)
        return ds
    if m == "compute":
        out = ds.compute(); check_loaded(out); return out
    if m == "compute_sync":
        out = ds.compute(scheduler="synchronous"); check_loaded(out); return out
    if m == "load":
        out = ds.copy(); out.load(); check_loaded(out); return out
    if m == "load_async":
        import asyncio
        out = ds.copy(); asyncio.run(out.load_async()); check_loaded(out); return out
    if m == "persist":
        return ds.persist()
    if m == "persist_compute":
        out = ds.persist().compute(); check_loaded(out); return out
    if m == "persist_twice":
        return ds.persist().persist()
    if m == "dask_compute":
        (out,) = dask.compute(ds); return out
    if m == "dask_compute_two":
        out, other = dask.compute(ds, ds[list(ds.data_vars)[::-1]]); return out
    if m == "dask_persist":
        (out,) = dask.persist(ds); return out
    if m == "values":
        return xr.Dataset({k: (v.dims, v.values) for k, v in ds.variables.items() if k not in ds.dims},
                          coords={d: ds[d] for d in ds.dims}).set_coords([c for c in ds.coords if c not in ds.dims])
    if m == "dataarray_compute":
        out = as_dataarray(ds, case).compute(); check_loaded(out); return out
    if m == "dataarray_load":
        out = as_dataarray(ds, case).copy(); out.load(); check_loaded(out); return out
    if m == "dataarray_persist":
        return as_dataarray(ds, case).persist()
    if m == "datatree_compute":
        out = as_tree(ds, case).compute(); check_loaded(out); return out
    if m == "datatree_load":
        out = as_tree(ds, case); out.load(); check_loaded(out); return out
    if m == "datatree_persist":
        return as_tree(ds, case).persist()
    raise ValueError(m)


# ------------------------------------------------------------------------------------ family: mapblocks

def _dvars(b):
    return list(b.data_vars)


def _widest(b):
    """the data variable with the most dims (the first such): keeping it keeps every chunked dim in the output"""
    vs = _dvars(b)
    return max(vs, key=lambda v: (b[v].ndim, -vs.index(v)))


def mb_affine(b):
    if isinstance(b, xr.DataArray):
        out = b * 2.0 + 1.0
        for c in b.coords:
            if c not in b.dims and b[c].dtype.kind == "f":
                out = out + b[c]
        return out
    s = 0.0
    for i, v in enumerate(_dvars(b)):
        s = s + (i + 1.0) * b[v]
    for c in b.coords:
        if c not in b.dims and b[c].dtype.kind == "f":
            s = s + 100.0 * b[c]
    out = {"s": s}
    for v in _dvars(b):
        out[v + "_2"] = b[v] * 2.0
    return xr.Dataset(out)


def mb_identity(b):
    return b


def mb_first_da(b):
    if isinstance(b, xr.DataArray):
        return b + 1.0
    return b[_widest(b)] + 1.0


def mb_pairs(b):
    """one output per ordered pair of neighbouring variables (xarray aligns dims by name)"""
    if isinstance(b, xr.DataArray):
        return b - 1.0
    vs = _dvars(b)
    out = {}
    for p, q in zip(vs, vs[1:] + vs[:1]):
        out[f"{p}_minus_{q}"] = b[p] - 3.0 * b[q]
    return xr.Dataset(out)


def mb_transposed(b):
    r = mb_affine(b)
    if isinstance(r, xr.DataArray):
        return r.transpose(*reversed(r.dims))
    return r.map(lambda v: v.transpose(*reversed(v.dims)))


def mb_coord_mul(b):
    if isinstance(b, xr.DataArray):
        return b * b[b.dims[0]]
    return xr.Dataset({v: b[v] * b[b[v].dims[0]] + b[b[v].dims[-1]] for v in _dvars(b)})


def mb_reduce(b, rdim=None):
    if isinstance(b, xr.DataArray):
        return b.sum(rdim) if rdim in b.dims else b
    return b.map(lambda v: v.sum(rdim) if rdim in v.dims else v)


def mb_newdim(b):
    r = b.expand_dims(w=[10, 20])
    return r * xr.DataArray([1.0, -1.0], dims="w", coords={"w": [10, 20]})


def mb_with_args(b, other, k=1.0):
    return b * k + other


def mb_subset(b):
    if isinstance(b, xr.DataArray):
        return b.reset_coords(drop=True) * 3.0
    return (b[[_widest(b)]] * 3.0).reset_coords(drop=True)


MBFUNCS = {
    "affine": mb_affine, "identity": mb_identity, "first_da": mb_first_da, "pairs": mb_pairs,
    "transposed": mb_transposed, "coord_mul": mb_coord_mul, "reduce": mb_reduce, "newdim": mb_newdim,
    "with_args": mb_with_args, "subset": mb_subset,
}


def run_mapblocks(case, lazy):
    ds = build_dataset(case, lazy)
    obj = as_dataarray(ds, case) if case.get("obj") == "dataarray" else ds
    f = MBFUNCS[case["func"]]
    args, kwargs = [], {}
    if case["func"] == "reduce":
        kwargs = {"rdim": case["rdim"]}
    if case["func"] == "with_args":
        rng = np.random.default_rng(case["data_seed"] + 1)
        od = case["other_dims"]
        other = xr.DataArray(ivals(rng, [case["sizes"][d] for d in od]), dims=od,
                             coords={d: ds[d] for d in od})
        if lazy and case.get("other_chunked"):
            other = other.chunk({d: tochunk(case["chunks"][d]) for d in od})
        args, kwargs = [other], {"k": 2.0}
    if not lazy:
        return f(obj, *args, **kwargs)
    template = None
    if case.get("template") == "explicit":
        template = f(obj, *args, **kwargs)
    via = case.get("via", "function")
    if via == "method":
        return obj.map_blocks(f, args=args, kwargs=kwargs, template=template)
    return xr.map_blocks(f, obj, args=args, kwargs=kwargs, template=template)


# ------------------------------------------------------------------------------------ family: ufunc / route (shared environment)

class Env:
    pass


def build_env(case, lazy):
    rng = np.random.default_rng(case["data_seed"])
    nx, ny = case["sizes"]["x"], case["sizes"]["y"]
    e = Env()
    e.nx, e.ny = nx, ny
    g = rng.integers(0, 3, size=nx)
    cx = {"x": np.arange(nx), "y": np.arange(ny) * 0.5}
    a = xr.DataArray(ivals(rng, (nx, ny), nan=case.get("nan", 1)), dims=("x", "y"), coords=cx, name="a")
    b = xr.DataArray(ivals(rng, (ny, nx)), dims=("y", "x"), coords=cx, name="b")
    v = xr.DataArray(ivals(rng, (nx,)), dims=("x",), coords={"x": cx["x"]}, name="v")
    t = xr.DataArray(np.datetime64("2001-01-30T05:00") + np.arange(nx) * np.timedelta64(37, "h"), dims=("x",),
                     coords={"x": cx["x"]}, name="t")
    k = xr.DataArray(rng.integers(0, 50, size=(nx, ny)).astype("i2"), dims=("x", "y"), coords=cx, name="k")
    if lazy:
        ca, cb = case["chunks"], case.get("chunks_b", case["chunks"])
        a = a.chunk({d: tochunk(ca[d]) for d in a.dims})
        b = b.chunk({d: tochunk(cb[d]) for d in b.dims})
        v = v.chunk({"x": tochunk(cb["x"])})
        t = t.chunk({"x": tochunk(ca["x"])})
        k = k.chunk({d: tochunk(ca[d]) for d in k.dims})
    e.a = a.assign_coords(g=("x", g))
    e.b, e.v, e.t, e.k = b, v, t, k
    e.a0 = e.a.fillna(0.0)
    e.ds = xr.Dataset({"a": e.a, "b": e.b, "v": e.v})
    e.lazy = lazy
    return e


def _par(**kw):
    return dict(dask="parallelized", **kw)


def _single(d, dim, lazy):
    return d.chunk({dim: -1}) if lazy else d


UFUNCS = {
    "allowed_add_perm": lambda e: xr.apply_ufunc(np.add, e.a, e.b, dask="allowed"),
    "allowed_where3": lambda e: xr.apply_ufunc(np.where, e.a > 0, e.a, e.b, dask="allowed"),
    "allowed_dataset": lambda e: xr.apply_ufunc(np.multiply, e.ds, 2.0, dask="allowed"),
    "allowed_scalar_out": lambda e: xr.apply_ufunc(np.hypot, e.a0, e.v, dask="allowed"),
    "par_elementwise": lambda e: xr.apply_ufunc(lambda p, q: p * 2 + q, e.a, e.b, **_par(output_dtypes=[float])),
    "par_three_inputs": lambda e: xr.apply_ufunc(lambda p, q, r: p - q * r, e.a0, e.b, e.v, **_par(output_dtypes=[float])),
    "par_dataset": lambda e: xr.apply_ufunc(lambda p: p * 3 - 1, e.ds, **_par(output_dtypes=[float])),
    "par_dataset_two": lambda e: xr.apply_ufunc(lambda p, q: p + q, e.ds, e.ds[["b", "a", "v"]] * 2, **_par(output_dtypes=[float])),
    "par_core_reduce": lambda e: xr.apply_ufunc(lambda p: p.sum(-1), _single(e.a0, "y", e.lazy), input_core_dims=[["y"]], **_par(output_dtypes=[float])),
    "par_core_reduce_first_dim": lambda e: xr.apply_ufunc(lambda p: p.max(-1), _single(e.a0, "x", e.lazy), input_core_dims=[["x"]], **_par(output_dtypes=[float])),
    "par_core_rechunk": lambda e: xr.apply_ufunc(lambda p: p.sum(-1), e.a0, input_core_dims=[["y"]],
                                                 **_par(output_dtypes=[float], dask_gufunc_kwargs={"allow_rechunk": True})),
    "par_core_keep": lambda e: xr.apply_ufunc(lambda p: np.cumsum(p, -1), _single(e.a0, "y", e.lazy), input_core_dims=[["y"]],
                                              output_core_dims=[["y"]], **_par(output_dtypes=[float])),
    "par_new_core": lambda e: xr.apply_ufunc(lambda p: np.stack([p.min(-1), p.mean(-1), p.max(-1)], -1), _single(e.a0, "y", e.lazy),
                                             input_core_dims=[["y"]], output_core_dims=[["q"]],
                                             **_par(output_dtypes=[float], dask_gufunc_kwargs={"output_sizes": {"q": 3}})),
    "par_two_outputs": lambda e: xr.apply_ufunc(lambda p: (p.min(-1), p.max(-1)), _single(e.a0, "y", e.lazy), input_core_dims=[["y"]],
                                                output_core_dims=[[], []], **_par(output_dtypes=[float, float])),
    "par_two_outputs_elementwise": lambda e: xr.apply_ufunc(lambda p, q: (p + q, p - q), e.a0, e.b, output_core_dims=[[], []],
                                                            **_par(output_dtypes=[float, float])),
    "par_vectorize": lambda e: xr.apply_ufunc(lambda p: p - p.mean(), _single(e.a0, "y", e.lazy), input_core_dims=[["y"]],
                                              output_core_dims=[["y"]], vectorize=True, **_par(output_dtypes=[float])),
    "par_inner_perm": lambda e: xr.apply_ufunc(lambda p, q: (p * q).sum(-1), _single(e.a0, "y", e.lazy), _single(e.b, "y", e.lazy),
                                               input_core_dims=[["y"], ["y"]], **_par(output_dtypes=[float])),
    "par_exclude_dims": lambda e: xr.apply_ufunc(lambda p, q: np.concatenate([p, q], -1), _single(e.a0, "y", e.lazy),
                                                 _single(e.a0.isel(y=slice(0, 2)), "y", e.lazy), input_core_dims=[["y"], ["y"]],
                                                 output_core_dims=[["y"]], exclude_dims={"y"},
                                                 **_par(output_dtypes=[float], dask_gufunc_kwargs={"output_sizes": {"y": e.ny + 2}})),
    "par_kwargs": lambda e: xr.apply_ufunc(np.clip, e.a0, kwargs={"a_min": -1, "a_max": 2}, **_par(output_dtypes=[float])),
    "par_keep_attrs": lambda e: xr.apply_ufunc(np.negative, e.a0.assign_attrs(u="m"), keep_attrs=True, **_par(output_dtypes=[float])),
    "par_meta": lambda e: xr.apply_ufunc(lambda p: p.astype("i8"), e.a0, **_par(dask_gufunc_kwargs={"meta": np.ndarray((0, 0), dtype="i8")})),
}


def _store(e):
    from xarray.backends.common import ArrayWriter

    w = ArrayWriter()
    t1 = np.full((e.nx, e.ny), -1.0)
    t2 = np.full((e.ny, e.nx), -1.0)
    t3 = np.full((e.nx + 1, e.ny), -1.0)
    w.add(e.a0.data, t1)
    w.add(e.b.data, t2)
    w.add(e.a0.data, t3, region=(slice(1, None), slice(None)))
    w.sync()
    return {"t1": t1, "t2": t2, "t3": t3}


def _decode(e):
    raw = xr.Dataset({"k": e.k.assign_attrs(scale_factor=0.5, add_offset=10.0, _FillValue=np.int16(7))})
    return xr.decode_cf(raw)


def _time_ds(e):
    return xr.Dataset({"a": e.a0, "v": e.v}).assign_coords(time=("x", e.t.values)).swap_dims(x="time")


ROUTES = {
    # ---- binary ops across objects whose dims are ordered differently / chunked differently
    "add_perm": lambda e: e.a + e.b,
    "add_perm_ds": lambda e: e.ds + e.ds[["v", "b", "a"]],
    "mul_broadcast": lambda e: e.b * e.v,
    "where_perm": lambda e: e.a.where(e.b > 0),
    "where_other_perm": lambda e: xr.where(e.b > 0, e.a, e.v),
    "dot_perm": lambda e: xr.dot(e.a0, e.b, dim="y"),
    "dot_all": lambda e: xr.dot(e.a0, e.b),
    "matmul": lambda e: e.a0 @ e.b,
    "cov": lambda e: xr.cov(e.a0, e.b, dim="x"),
    "corr": lambda e: xr.corr(e.a0 + e.v, e.b, dim="y"),
    "combine_first": lambda e: e.a.combine_first(e.b),
    "fillna_perm": lambda e: e.a.fillna(e.b),
    "clip_arrays": lambda e: e.a0.clip(e.v - 3, e.v + 3),
    "isin": lambda e: e.a.isin([1.0, 2.0, 3.0]),
    # ---- concat / merge / align / stack
    "concat_perm": lambda e: xr.concat([e.a.drop_vars("g"), e.b], "x"),
    "concat_newdim": lambda e: xr.concat([e.a0.drop_vars("g"), e.b, e.b * 2], "run"),
    "concat_ds": lambda e: xr.concat([e.ds, e.ds[["b", "v", "a"]] + 1], "y"),
    "merge": lambda e: xr.merge([e.a0.rename("p"), e.b.rename("q"), e.v.rename("r")]),
    "align_outer": lambda e: xr.align(e.a.isel(x=slice(1, None)), e.b.isel(x=slice(0, -1)), join="outer"),
    "align_inner_sum": lambda e: e.a.isel(x=slice(1, None)) + e.b.isel(x=slice(0, -1)),
    "broadcast": lambda e: xr.broadcast(e.v, e.b),
    "stack_unstack": lambda e: e.b.stack(z=("x", "y")).unstack("z"),
    "ds_stack": lambda e: e.ds[["a", "b"]].stack(z=("y", "x")),
    "to_array": lambda e: e.ds[["a", "b"]].to_array("var"),
    "ds_transpose": lambda e: e.ds.transpose("y", "x"),
    "expand_squeeze": lambda e: e.b.expand_dims("w", axis=1).isel(w=0),
    # ---- reductions / scans over Datasets
    "ds_mean": lambda e: e.ds.mean("x"),
    "ds_sum_all": lambda e: e.ds.sum(),
    "ds_std_y": lambda e: e.ds.std("y", ddof=1),
    "ds_reduce_multi": lambda e: e.ds[["a", "b"]].max(("x", "y")),
    "ds_cumsum": lambda e: e.ds.fillna(0).cumsum("x"),
    "cumprod": lambda e: (e.a0 / 4).cumprod("y"),
    "ds_argmin": lambda e: e.ds[["a", "b"]].fillna(99).argmin("y"),
    "argmax_dict": lambda e: e.b.argmax(("x", "y")),
    "idxmax": lambda e: e.a.idxmax("y"),
    "idxmin_perm": lambda e: e.b.idxmin("y"),
    "ds_idxmax": lambda e: e.ds[["a", "b"]].idxmax("x"),
    "quantile_multi": lambda e: _single(e.b, "y", e.lazy).quantile([0.25, 0.5], "y"),
    "median_ds": lambda e: e.ds[["a", "b"]].median("x"),
    "any_all": lambda e: xr.Dataset({"any": (e.a > 5).any("x"), "all": (e.b > -7).all("y")}),
    "prod": lambda e: (e.b / 4).prod("x"),
    "var_ddof": lambda e: e.a.var("y", ddof=1),
    "count_ds": lambda e: e.ds.count(),
    "first_last": lambda e: xr.Dataset({"f": e.a.groupby("g").first(), "l": e.a.groupby("g").last(skipna=False)}),
    # ---- manager.scan via push
    "ffill": lambda e: e.a.ffill("y"),
    "ffill_limit": lambda e: e.a.ffill("y", limit=1),
    "bfill_x": lambda e: e.a.bfill("x"),
    "bfill_limit_ds": lambda e: e.ds.bfill("x", limit=2),
    "interpolate_na": lambda e: _single(e.a, "y", e.lazy).interpolate_na("y", use_coordinate=False),
    # ---- groupby / resample / rolling / coarsen
    "groupby_ds_mean": lambda e: e.ds[["a", "v"]].groupby("g").mean(),
    "groupby_map": lambda e: e.a0.groupby("g").map(lambda q: q - q.mean("x")),
    "groupby_arith": lambda e: e.a0.groupby("g") - e.a0.groupby("g").mean(),
    "groupby_bins": lambda e: e.b.groupby_bins("x", [-1, 1, 3, 100]).sum(),
    "groupby_max_perm": lambda e: e.b.assign_coords(g=("x", e.a.g.values)).groupby("g").max(),
    "shuffle_to_chunks": lambda e: e.a0.groupby("g").shuffle_to_chunks(),
    "shuffle_ds": lambda e: e.ds[["a", "b"]].assign_coords(g=("x", e.a.g.values)).groupby("g").shuffle_to_chunks(),
    "resample_mean": lambda e: _time_ds(e).resample(time="2D").mean(),
    "resample_first": lambda e: _time_ds(e).resample(time="3D").first(),
    "rolling_ds": lambda e: e.ds[["a", "b"]].rolling(x=2).max(),
    "rolling_2d": lambda e: e.b.rolling(x=2, y=3, min_periods=1).sum(),
    "rolling_construct": lambda e: e.b.rolling(y=3).construct("win"),
    "rolling_reduce": lambda e: e.a0.rolling(y=2).reduce(np.ptp),
    "coarsen_ds": lambda e: e.ds[["a", "b"]].coarsen(x=2, boundary="pad").mean(),
    "coarsen_construct": lambda e: e.b.coarsen(y=2, boundary="trim").construct(y=("yc", "yf")),
    "cumulative": lambda e: e.b.cumulative("x").sum(),
    "weighted_perm": lambda e: e.b.weighted(e.v.clip(1, None)).sum("x"),
    "weighted_ds": lambda e: e.ds[["a", "b"]].weighted(e.v * 0 + 2).mean(("x", "y")),
    # ---- indexing
    "isel_vectorized": lambda e: e.b.isel(x=xr.DataArray([0, e.nx - 1, 1], dims="p"), y=xr.DataArray([1, 0, 2], dims="p")),
    "isel_outer": lambda e: e.b.isel(x=[e.nx - 1, 0], y=slice(None, None, -1)),
    "sel_nearest": lambda e: e.b.sel(y=[0.2, 1.4], method="nearest"),
    "ds_isel": lambda e: e.ds.isel(x=slice(1, 3), y=[2, 0]),
    "reindex_fill": lambda e: e.b.reindex(x=[-1, 0, 2, e.nx + 1], fill_value=-5.0),
    "reindex_like": lambda e: e.ds[["a", "b"]].reindex_like(e.v.isel(x=slice(1, None))),
    "head_tail_thin": lambda e: xr.Dataset({"h": e.b.head(x=2), "t": e.b.tail(y=2), "n": e.a.thin(y=2)}),
    "roll": lambda e: e.ds.roll(x=1, y=-2, roll_coords=False),
    "shift_ds": lambda e: e.ds.shift(x=1),
    "pad_reflect": lambda e: e.b.pad(x=(1, 2), mode="reflect"),
    "pad_edge_ds": lambda e: e.ds[["a", "b"]].pad(y=(0, 1), mode="edge"),
    "diff_ds": lambda e: e.ds.diff("x"),
    "sortby_values": lambda e: e.b.sortby(e.v.compute() if e.lazy else e.v),
    "where_drop": lambda e: e.b.where((e.v > 0).compute() if e.lazy else e.v > 0, drop=True),
    "differentiate": lambda e: (e.b.chunk({"y": 3}) if e.lazy else e.b).differentiate("y"),
    "integrate": lambda e: e.ds[["a", "b"]].fillna(0).integrate("y"),
    "cumulative_integrate": lambda e: e.b.cumulative_integrate("y"),
    "polyfit": lambda e: e.b.polyfit("y", 1).polyfit_coefficients,
    "polyval": lambda e: xr.polyval(e.v, xr.DataArray([1.0, 2.0, 0.5], dims="degree", coords={"degree": [0, 1, 2]})),
    "rank": lambda e: _single(e.b, "y", e.lazy).rank("y"),
    "cross": lambda e: xr.cross(_single(e.a0.isel(y=slice(0, 3)), "y", e.lazy), _single((e.a0 * 2 + e.v).isel(y=slice(0, 3)), "y", e.lazy), dim="y"),
    # ---- creation / chunk management through the manager
    "full_like": lambda e: xr.full_like(e.b, 3.5),
    "zeros_ones_like": lambda e: xr.Dataset({"z": xr.zeros_like(e.a), "o": xr.ones_like(e.b, dtype="i4")}),
    "full_like_ds": lambda e: xr.full_like(e.ds, 2),
    "unify_chunks": lambda e: xr.unify_chunks(e.a, e.b, e.v) if e.lazy else (e.a, e.b, e.v),
    "ds_unify_chunks": lambda e: xr.Dataset({"p": e.a0, "q": e.b.isel(x=slice(None)), "r": e.v}).unify_chunks(),
    "rechunk_ds": lambda e: e.ds.chunk({"x": 2, "y": 3}) if e.lazy else e.ds,
    "rechunk_auto": lambda e: e.ds.chunk("auto") if e.lazy else e.ds,
    "rechunk_tuple": lambda e: e.b.chunk({"x": (1, e.nx - 1)}) if e.lazy else e.b,
    "chunk_mixed": lambda e: xr.Dataset({"p": e.a0, "n": (("y",), np.arange(e.ny) * 1.0)}).chunk({"y": 2}) if e.lazy
    else xr.Dataset({"p": e.a0, "n": (("y",), np.arange(e.ny) * 1.0)}),
    "copy_deep": lambda e: e.ds.copy(deep=True) + 1,
    "astype_ds": lambda e: e.ds.fillna(0).astype("i4"),
    "map_ds": lambda e: e.ds.map(lambda q: q * 2 - q.mean()),
    "assign": lambda e: e.ds.assign(w=lambda d: d.a * d.b, u=e.v * 2).drop_vars("a"),
    "np_ufunc": lambda e: np.sin(e.ds),
    "array_ufunc_out_perm": lambda e: np.maximum(e.a, e.b),
    "round_abs": lambda e: abs((e.ds / 3).round(1)),
    "isnull_notnull": lambda e: xr.Dataset({"n": e.a.isnull(), "m": e.a.notnull().sum("y")}),
    # ---- manager.map_blocks via accessors / coding
    "dt_fields": lambda e: xr.Dataset({"y": e.t.dt.year, "d": e.t.dt.dayofyear, "h": e.t.dt.hour, "wd": e.t.dt.weekday}),
    "dt_floor": lambda e: e.t.dt.floor("D"),
    "dt_round": lambda e: e.t.dt.round("6h"),
    "dt_strftime": lambda e: e.t.dt.strftime("%Y-%m-%d %H"),
    "dt_season_leap": lambda e: xr.Dataset({"s": e.t.dt.season, "l": e.t.dt.is_leap_year, "q": e.t.dt.quarter}),
    "timedelta": lambda e: (e.t - e.t.isel(x=0)).dt.days,
    "datetime_reduce": lambda e: xr.Dataset({"mn": e.t.min(), "mx": e.t.max()}),
    "decode_cf": _decode,
    "store": _store,
    "str_accessor": lambda e: e.t.dt.strftime("%d").str.len(),
    "to_series": lambda e: xr.DataArray(e.b.to_series().to_numpy(), dims="i"),
    "to_dataframe": lambda e: xr.DataArray(e.ds[["a", "b"]].to_dataframe().to_numpy(), dims=("i", "c")),
}


def run_ufunc(case, lazy):
    return UFUNCS[case["variant"]](build_env(case, lazy))


def run_route(case, lazy):
    return ROUTES[case["op"]](build_env(case, lazy))


# ------------------------------------------------------------------------------------ family: mgr (manager methods called directly)

def _mgr_arrays(case, lazy):
    e = build_env(case, lazy)
    A, B, V = e.a0.data, e.b.data, e.v.data
    return e, A, B, V


def _chunk_sum(x, axis=None, keepdims=False):
    return np.sum(x, axis=axis, keepdims=keepdims)


def run_mgr(case, lazy):
    e, A, B, V = _mgr_arrays(case, lazy)
    m = case["method"]
    if not lazy:   # NumPy oracle
        if m in ("compute_dups", "persist_dups", "compute_dups_tail", "compute_mixed"):
            pat = case["pattern"]
            pool = {"A": A, "B": B, "V": V, "A2": A * 2, "N": np.arange(3.0)}
            return [pool[p] for p in pat]
        if m == "blockwise_perm":
            return A + B.T
        if m == "blockwise_outer":
            return V[:, None] * np.ones(e.ny)[None, :] + A
        if m == "map_blocks":
            return A * 2 + 1
        if m == "map_blocks_two":
            return A - 2 * B.T
        if m == "map_blocks_drop_axis":
            return A.sum(1)
        if m == "map_blocks_new_axis":
            return V[:, None] * np.ones(2)
        if m == "reduction":
            return A.sum(case["axis"])
        if m == "reduction_keepdims":
            return A.sum(case["axis"], keepdims=True)
        if m == "scan":
            return np.cumsum(A, case["axis"])
        if m == "scan_prod":
            return np.cumprod(A / 4, case["axis"])
        if m == "apply_gufunc":
            return A.sum(-1)
        if m == "apply_gufunc_two":
            return (A * B.T).sum(-1)
        if m == "apply_gufunc_axes":
            return A.sum(0)
        if m == "apply_gufunc_multi":
            return [A.min(-1), A.max(-1)]
        if m == "unify_chunks":
            return [A, B]
        if m == "rechunk":
            return A
        if m == "from_array":
            return B
        if m == "normalize_chunks":
            return [np.array(case["shape"])]
        if m == "store":
            return [A, B]
        if m == "store_regions":
            t = np.full((e.nx + 2, e.ny), -1.0)
            t[1:e.nx + 1] = A
            return t
        if m == "shuffle":
            return np.take(A, [i for grp in case["indexer"] for i in grp], axis=case["axis"])
        if m == "array_api":
            return [np.concatenate([A, A]), np.where(A > 0, A, 0.0), np.stack([V, V]), np.arange(5)]
        if m == "chunks_is_chunked":
            return [np.array([1, 1, 0])]
        raise ValueError(m)

    mgr = guess_chunkmanager(None)
    if m in ("compute_dups", "persist_dups", "compute_dups_tail", "compute_mixed"):
        pool = {"A": A, "B": B, "V": V, "A2": A * 2, "N": np.arange(3.0)}
        pat = case["pattern"]
        args = [pool[p] for p in pat]
        out = mgr.persist(*args) if m == "persist_dups" else mgr.compute(*args)
        if len(out) != len(args):
            raise AssertionError(f"{len(args)} arrays in, {len(out)} results out")
        return list(out)
    if m == "blockwise_perm":
        return mgr.blockwise(lambda p, q: p + q.T, "ij", A, "ij", B, "ji", dtype=A.dtype)
    if m == "blockwise_outer":
        return mgr.blockwise(lambda v, a: v[:, None] + a, "ij", V, "i", A, "ij", dtype=A.dtype)
    if m == "map_blocks":
        return mgr.map_blocks(lambda x: x * 2 + 1, A, dtype=A.dtype)
    if m == "map_blocks_two":
        Bt = mgr.rechunk(B.T, A.chunks)
        return mgr.map_blocks(lambda x, y: x - 2 * y, A, Bt, dtype=A.dtype)
    if m == "map_blocks_drop_axis":
        A1 = mgr.rechunk(A, {1: -1})
        return mgr.map_blocks(lambda x: x.sum(1), A1, dtype=A.dtype, drop_axis=1)
    if m == "map_blocks_new_axis":
        return mgr.map_blocks(lambda v: v[:, None] * np.ones(2), V, dtype=V.dtype, new_axis=1, chunks=(V.chunks[0], (2,)))
    if m == "reduction":
        return mgr.reduction(A, func=_chunk_sum, aggregate_func=_chunk_sum, axis=case["axis"], dtype=A.dtype)
    if m == "reduction_keepdims":
        return mgr.reduction(A, func=_chunk_sum, combine_func=_chunk_sum, aggregate_func=_chunk_sum, axis=case["axis"], dtype=A.dtype, keepdims=True)
    if m == "scan":
        return mgr.scan(np.cumsum, operator.add, 0, A, axis=case["axis"], dtype=A.dtype)
    if m == "scan_prod":
        return mgr.scan(np.cumprod, operator.mul, 1, A / 4, axis=case["axis"], dtype=A.dtype)
    if m == "apply_gufunc":
        return mgr.apply_gufunc(lambda x: x.sum(-1), "(i)->()", mgr.rechunk(A, {1: -1}), output_dtypes=[A.dtype])
    if m == "apply_gufunc_two":
        return mgr.apply_gufunc(lambda x, y: (x * y).sum(-1), "(i),(i)->()", mgr.rechunk(A, {1: -1}), mgr.rechunk(B.T, (A.chunks[0], -1)),
                                output_dtypes=[A.dtype])
    if m == "apply_gufunc_axes":
        return mgr.apply_gufunc(lambda x: x.sum(-1), "(i)->()", A, axes=[(0,), ()], output_dtypes=[A.dtype], allow_rechunk=True)
    if m == "apply_gufunc_multi":
        return list(mgr.apply_gufunc(lambda x: (x.min(-1), x.max(-1)), "(i)->(),()", mgr.rechunk(A, {1: -1}), output_dtypes=[A.dtype, A.dtype]))
    if m == "unify_chunks":
        _, (a2, b2) = mgr.unify_chunks(A, "ij", B, "ji")
        if a2.chunks != b2.chunks[::-1]:
            raise AssertionError(f"unify_chunks left {a2.chunks} vs {b2.chunks}")
        return [a2, b2]
    if m == "rechunk":
        r = mgr.rechunk(A, tuple(tochunk(c) for c in case["new_chunks"]))
        return r
    if m == "from_array":
        r = mgr.from_array(np.asarray(e.b.values), tuple(tochunk(c) for c in case["new_chunks"]))
        if not mgr.is_chunked_array(r):
            raise AssertionError("from_array result is not recognised by the manager")
        return r
    if m == "normalize_chunks":
        n = mgr.normalize_chunks(tochunk(case["spec"]) if not isinstance(case["spec"], list) else tuple(tochunk(c) for c in case["spec"]),
                                 shape=tuple(case["shape"]), dtype=np.dtype("f8"))
        return [np.array([sum(c) for c in n])]
    if m == "store":
        t1, t2 = np.full(A.shape, -1.0), np.full(B.shape, -1.0)
        mgr.store([A, B], [t1, t2], lock=False, compute=True)
        return [t1, t2]
    if m == "store_regions":
        t = np.full((e.nx + 2, e.ny), -1.0)
        mgr.store([A], [t], lock=False, compute=True, regions=[(slice(1, e.nx + 1), slice(None))])
        return t
    if m == "shuffle":
        return mgr.shuffle(A, case["indexer"], case["axis"], chunks="auto")
    if m == "array_api":
        api = mgr.array_api
        return [api.concatenate([A, A]), api.where(A > 0, A, 0.0), api.stack([V, V]), api.arange(5, chunks=2)]
    if m == "chunks_is_chunked":
        ok = [int(mgr.is_chunked_array(A)), int(mgr.chunks(A) == A.chunks), int(mgr.is_chunked_array(np.zeros(2)))]
        if not isinstance(mgr.get_auto_chunk_size(), int):
            raise AssertionError("get_auto_chunk_size() is not an int")
        return [np.array(ok)]
    raise ValueError(m)


# ------------------------------------------------------------------------------------ family: mutate (copies × in-place operations)
#
# One case = a small script over named objects: "o" is the original (DataArray / Dataset / Variable / DataTree / the raw
# array), every other name is introduced by a `copy` or a `derive` step.  Steps (plain dicts):
#   {"do": "copy",   "src": n, "dst": m, "kind": <COPIES key>}
#   {"do": "mut",    "on": n, "how": <MUTS key>, "var": <variable of a Dataset / coord of a DataArray or None>, …params}
#   {"do": "derive", "src": n, "dst": m, "how": <DERIVES key>}      an expression captured BEFORE later mutations
#   {"do": "peek",   "on": n}                                        the object is computed (result discarded) at this point
# After the script EVERY named object is read (case["read"]) and compared with the NumPy-backed run of the same script,
# so a mutation of a copy that leaks into the original (or the reverse, or into a derived expression) shows up.

MUT_DIMS = {"u": ("x", "y"), "u2": ("x", "y"), "v": ("x",), "w": ("y", "x"), "h": ("x",)}


def mut_build(case, lazy):
    rng = np.random.default_rng(case["data_seed"])
    nx, ny = case["sizes"]["x"], case["sizes"]["y"]
    ch = case["chunks"]
    cx = {"x": np.arange(nx), "y": np.arange(ny) * 10}

    def mk(name):
        dims = MUT_DIMS[name]
        d = xr.DataArray(ivals(rng, [case["sizes"][k] for k in dims]), dims=dims, coords={k: cx[k] for k in dims}, name=name)
        return d.chunk({k: tochunk(ch[k]) for k in dims}) if lazy else d

    u, v, w, h = mk("u"), mk("v"), mk("w"), mk("h")
    kind = case["obj"]
    if kind == "dataarray":
        return u.assign_coords(h=h.variable)          # h: a chunked non-index coordinate
    if kind == "variable":
        return u.variable
    if kind == "array":
        return u.data
    ds = xr.Dataset({"u": u, "v": v, "w": w}).assign_coords(h=h.variable)
    if case.get("alias"):
        ds["u2"] = ds["u"]                               # the same array under two names
    if kind == "datatree":
        return xr.DataTree.from_dict({"/": ds[["u", "v"]], "/child": ds[["w"] + (["u2"] if case.get("alias") else [])]})
    return ds


def _redata(src, f):
    """a copy of src whose arrays are f(array) -- the array-level copy protocol under an xarray object"""
    if isinstance(src, xr.Dataset):
        return src.copy(deep=True, data={k: f(src[k].data) for k in src.data_vars})
    if isinstance(src, (xr.DataArray, xr.Variable)):
        return src.copy(data=f(src.data))
    raise TypeError("redata")


def _loaded(c):
    c.load()
    return c


def _pickle(s):
    import pickle
    return pickle.loads(pickle.dumps(s))


def _copymod():
    import copy
    return copy


COPIES = {
    "copy_default": lambda s: s.copy(),
    "copy_deep": lambda s: s.copy(deep=True),
    "copy_shallow": lambda s: s.copy(deep=False),
    "copy_copy": lambda s: _copymod().copy(s),
    "copy_deepcopy": lambda s: _copymod().deepcopy(s),
    "deepcopy_in_container": lambda s: _copymod().deepcopy({"k": [s, 1]})["k"][0],
    "pickle": _pickle,
    "deep_load": lambda s: _loaded(s.copy(deep=True)),
    "shallow_load": lambda s: _loaded(s.copy(deep=False)),
    "deep_persist": lambda s: s.copy(deep=True).persist(),
    "deep_of_shallow": lambda s: s.copy(deep=False).copy(deep=True),
    "deepcopy_data": lambda s: _redata(s, lambda a: _copymod().deepcopy(a)),
    "copycopy_data": lambda s: _redata(s, lambda a: _copymod().copy(a)),
    "copymethod_data": lambda s: _redata(s, lambda a: a.copy()),
    # raw arrays only
    "arr_copy_method": lambda s: s.copy(),
}


def _dec(k):
    if isinstance(k, dict):
        if "s" in k:
            return slice(*k["s"])
        if "l" in k:
            return list(k["l"])
        if "b" in k:
            return np.array(k["b"], dtype=bool)
    if k == "...":
        return Ellipsis
    return k


def _key(step, positional=False):
    k = step["key"]
    if isinstance(k, dict) and not positional:
        return {d: _dec(x) for d, x in k.items()}
    if isinstance(k, list):
        return tuple(_dec(x) for x in k)
    return _dec(k)


def _value(step, sel, lazy):
    """the assigned value: a scalar, or an array shaped like the selection `sel` (NumPy, Variable, DataArray, chunked)"""
    val = step.get("val", {"kind": "scalar", "v": 99.0})
    if val["kind"] == "scalar":
        return val["v"]
    shape = tuple(sel.shape)
    arr = np.random.default_rng(val["seed"]).integers(20, 40, size=shape).astype("f8")
    if val["kind"] == "array" or not hasattr(sel, "dims"):
        if val["kind"] == "lazy" and lazy and arr.ndim:
            return guess_chunkmanager(None).from_array(arr, chunks=tuple(max(1, s // 2) for s in shape))
        return arr
    out = xr.Variable(sel.dims, arr)
    if val["kind"] == "lazy" and lazy and arr.ndim:
        out = out.chunk({d: max(1, s // 2) for d, s in zip(sel.dims, shape)})
    if val["kind"] == "dataarray" and isinstance(sel, xr.DataArray):
        out = xr.DataArray(out, coords={d: sel.coords[d] for d in sel.dims if d in sel.coords})
    return out


def _other_like(t, step, lazy):
    """a second operand shaped like t; chunked only where t itself is (an in-place operator of a NumPy array with a
    chunked operand is refused by every chunked backend)"""
    arr = np.random.default_rng(step["seed"]).integers(1, 5, size=tuple(t.shape)).astype("f8")
    lazy = bool(lazy and step.get("lazy_other") and is_chunked_array(t.data if hasattr(t, "dims") else t))
    if isinstance(t, xr.DataArray):
        o = xr.DataArray(arr, dims=t.dims, coords={d: t.coords[d] for d in t.dims})
        return o.chunk({d: 2 for d in t.dims}) if lazy else o
    if isinstance(t, xr.Variable):
        o = xr.Variable(t.dims, arr)
        return o.chunk({d: 2 for d in t.dims}) if lazy else o
    return guess_chunkmanager(None).from_array(arr, chunks=2) if lazy else arr


def _m_setitem_dict(t, st, lazy):
    k = _key(st)
    t[k] = _value(st, t.isel(k), lazy)


def _m_setitem_pos(t, st, lazy):
    k = _key(st, positional=True)
    t[k] = _value(st, t[k], lazy)


def _m_loc_dict(t, st, lazy):
    k = _key(st)
    t.loc[k] = _value(st, t.loc[k], lazy)


def _m_var_setitem(t, st, lazy):
    k = _key(st, positional=True)
    v = t.variable
    v[k] = _value(st, v[k], lazy)


def _m_data_setitem(t, st, lazy):
    k = _key(st, positional=True)
    a = t.data if hasattr(t, "dims") else t
    a[k] = _value(st, a[k], lazy)


def _m_data_mask(t, st, lazy):
    a = t.data if hasattr(t, "dims") else t
    a[a > st["thr"]] = st.get("val", {}).get("v", 99.0)


def _m_data_out(t, st, lazy):
    a = t.data if hasattr(t, "dims") else t
    np.add(a, st["k"], out=a)


def _m_data_out_other(t, st, lazy):
    a = t.data if hasattr(t, "dims") else t
    np.multiply(a, _other_like(a, st, lazy), out=a)


def _m_data_assign(t, st, lazy):
    t.data = t.data * st["k"]


def _m_values_assign(t, st, lazy):
    t.values = np.random.default_rng(st["seed"]).integers(50, 60, size=tuple(t.shape)).astype("f8")


MUTS = {
    # ---- item assignment through xarray
    "setitem_dict": _m_setitem_dict,
    "setitem_pos": _m_setitem_pos,
    "loc_dict": _m_loc_dict,
    "var_setitem": _m_var_setitem,
    # ---- item assignment / out= on the wrapped array itself
    "data_setitem": _m_data_setitem,
    "data_mask": _m_data_mask,
    "data_out": _m_data_out,
    "data_out_other": _m_data_out_other,
    # ---- replacing the wrapped array
    "data_assign": _m_data_assign,
    "values_assign": _m_values_assign,
}
# augmented assignments rebind the name / the item, so they are executed by mut_apply itself
AUGMENTED = {"iadd": operator.iadd, "isub": operator.isub, "imul": operator.imul, "itruediv": operator.itruediv,
             "ipow": operator.ipow, "imod": operator.imod}


def mut_apply(O, st, lazy):
    obj = O[st["on"]]
    how, var = st["how"], st.get("var")
    node = st.get("node")
    if node is not None:                                  # DataTree: address a node first
        holder = obj[node]
    else:
        holder = obj
    # ---- whole-object operations
    if how == "ds_setitem_dict":
        holder[_key(st)] = st["val"]["v"]
        return
    if how == "ds_loc":
        holder.loc[_key(st)] = st["val"]["v"]
        return
    if how == "ds_assign_var":
        holder[var] = holder[var] * st["k"]
        return
    if how == "ds_update":
        holder.update({var: holder[var] + st["k"]})
        return
    if how == "ds_coord_assign":
        holder.coords["h"] = ("x", np.random.default_rng(st["seed"]).integers(70, 80, size=holder.sizes["x"]).astype("f8"))
        return
    if how == "ds_where_assign":
        holder[var] = holder[var].where(holder[var] <= st["thr"], st["k"])
        return
    if how == "ds_new_var":
        holder["fresh"] = holder[var] * 0.0 + st["k"]
        return
    if how in AUGMENTED and var is None:
        other = _other_like(obj, st, lazy) if st.get("other") and not isinstance(obj, (xr.Dataset, xr.DataTree)) else st["k"]
        x = holder
        x = AUGMENTED[how](x, other)
        if node is None:
            O[st["on"]] = x
        return
    # ---- operations on one variable / coordinate of the object
    if var is None:
        t = holder
    elif isinstance(holder, xr.DataArray):
        t = holder.coords[var]
    else:
        t = holder[var]
    if how in AUGMENTED:
        other = _other_like(t, st, lazy) if st.get("other") else st["k"]
        if st.get("via_item") and not isinstance(holder, xr.DataArray):
            holder[var] = AUGMENTED[how](holder[var], other)          # ds["u"] += k
        else:
            t = AUGMENTED[how](t, other)
        return
    MUTS[how](t, st, lazy)


DERIVES = {
    "add1": lambda s: s + 1.0,
    "mul_self": lambda s: s * s,
    "sum_y": lambda s: s.sum(1) if not hasattr(s, "dims") else s.sum("y"),
    "neg": lambda s: -s,
}


def _rolled(o):
    return o.rolling(x=2, min_periods=1).sum() if isinstance(o, (xr.DataArray, xr.Dataset)) else o


MUT_READS = {
    "values": lambda o: o,
    "sum_x": lambda o: o.sum(0) if not hasattr(o, "dims") else (o.sum("x") if not isinstance(o, xr.DataTree) else o.sum("x")),
    "mean_all": lambda o: o.mean(),
    "cumsum_x": lambda o: np.cumsum(o, 0) if not hasattr(o, "dims") else (o.cumsum("x") if not isinstance(o, xr.DataTree) else o),
    "rolling_x": _rolled,
    "plus_other": lambda o: o * 2.0 - 1.0,
}


def run_mutate(case, lazy):
    O = {"o": mut_build(case, lazy)}
    for st in case["steps"]:
        if st["do"] == "copy":
            O[st["dst"]] = COPIES[st["kind"]](O[st["src"]])
        elif st["do"] == "derive":
            O[st["dst"]] = DERIVES[st["how"]](O[st["src"]])
        elif st["do"] == "peek":
            canon(O[st["on"]])
        else:
            mut_apply(O, st, lazy)
    rd = MUT_READS[case.get("read", "values")]
    out = {}
    for n in sorted(O):
        out[n] = rd(O[n])
    return out


# ------------------------------------------------------------------------------------ family: grid (operation × chunk count × NaN placement)
#
# One case = one xarray operation along the dimension "t" of a (t, y) array whose "t" axis is cut into EXACTLY the chunks
# listed in case["tchunks"] (1, 2, 4 or 7 of them), with NaNs placed relative to those chunk boundaries
# (case["nanpat"]), next to a second array with permuted dims (y, t) and its own cut of "t", a vector along "t" and a
# Dataset of the three.  The operation's keyword arguments come from case["p"] (chosen by the generator in c26_xr.py:
# limits relative to the chunk sizes, windows wider than a chunk, every pad mode, reindex / sel methods …).

def nan_mask(rng, pat, tch, ny):
    nt = sum(tch)
    m = np.zeros((nt, ny), dtype=bool)
    if pat == "none":
        return m
    starts = [int(s) for s in np.cumsum([0] + list(tch[:-1]))]
    k = len(tch)
    for j in range(ny):
        if j and rng.random() < 0.3:
            continue
        if pat == "chunk_start":                       # a leading run in (most) chunks
            for s, c in zip(starts, tch):
                if rng.random() < 0.8:
                    m[s:s + int(rng.integers(1, max(2, c))), j] = True
        elif pat == "chunk_end":                       # a trailing run in (most) chunks
            for s, c in zip(starts, tch):
                if rng.random() < 0.8:
                    m[s + c - int(rng.integers(1, max(2, c))):s + c, j] = True
        elif pat == "whole_chunk":                     # whole chunks (never all of them); one chunk only: its first half
            if k == 1:
                m[:max(1, nt // 2), j] = True
            else:
                for i in rng.choice(k, size=int(rng.integers(1, k)), replace=False):
                    m[starts[i]:starts[i] + tch[i], j] = True
        elif pat == "late_starts":                     # leading runs (up to the whole chunk) in the chunks after the second
            for i, (s, c) in enumerate(zip(starts, tch)):
                if i >= min(2, k - 1):
                    m[s:s + int(rng.integers(1, c + 1)), j] = True
        elif pat == "dense":
            m[:, j] = rng.random(nt) < 0.5
        elif pat == "sparse":
            m[:, j] = rng.random(nt) < 0.15
        elif pat == "lead_trail":
            m[:int(rng.integers(0, nt // 2 + 1)), j] = True
            t = int(rng.integers(0, nt // 2 + 1))
            if t:
                m[nt - t:, j] = True
        else:
            raise ValueError(pat)
    for j in range(ny):                                # never a whole column (NumPy's nanarg* refuse it eagerly)
        if m[:, j].all():
            m[int(rng.integers(0, nt)), j] = False
    return m


def build_grid(case, lazy):
    rng = np.random.default_rng(case["data_seed"])
    nt, ny = case["nt"], case["ny"]
    tch = list(case["tchunks"])
    e = Env()
    e.nt, e.ny, e.lazy, e.tch, e.p = nt, ny, lazy, tch, case.get("p", {})
    if case.get("vals") == "perm":                     # all values distinct: an inherited OLDER value is always visible
        base = (rng.permutation(nt * ny).reshape(nt, ny) - 5).astype("f8")
    else:
        base = rng.integers(-6, 10, size=(nt, ny)).astype("f8")
    mask = nan_mask(rng, case.get("nanpat", "none"), tch, ny)
    an = base.copy()
    an[mask] = np.nan
    bb = rng.integers(-6, 10, size=(ny, nt)).astype("f8")
    bn = bb.copy()
    bn[rng.random(bb.shape) < 0.25] = np.nan
    vv = rng.integers(-6, 10, size=nt).astype("f8")
    tc = np.cumsum(case["tgaps"]).astype("f8") if case.get("tgaps") else np.arange(nt)
    cx = {"t": tc, "y": np.arange(ny) * 0.5}
    mk = lambda arr, dims, name: xr.DataArray(arr, dims=dims, coords={d: cx[d] for d in dims}, name=name)
    a, a0 = mk(an, ("t", "y"), "a"), mk(base, ("t", "y"), "a")
    b, bnn = mk(bb, ("y", "t"), "b"), mk(bn, ("y", "t"), "b")
    v = mk(vv, ("t",), "v")
    if lazy:
        ca = {"t": tuple(tch), "y": tochunk(case["ychunks"])}
        cb = {"t": tuple(case.get("btchunks", tch)), "y": tochunk(case.get("bychunks", ny))}
        a, a0 = a.chunk(ca), a0.chunk(ca)
        b, bnn = b.chunk(cb), bnn.chunk(cb)
        v = v.chunk({"t": cb["t"]})
    e.a, e.a0, e.b, e.bn, e.v = a, a0, b, bnn, v
    e.ds = xr.Dataset({"a": a, "b": bnn, "v": v})
    e.times = np.datetime64("2001-01-01") + np.arange(nt) * np.timedelta64(1, "D")
    return e


def _src(e):
    return e.a if e.p.get("src", "a") == "a" else e.a0


def _timed(e, d):
    return d.assign_coords(time=("t", e.times)).swap_dims(t="time").drop_vars("t")


def _sl(x):
    return slice(*x) if isinstance(x, list) else x


def _kw(e, *names):
    return {n: e.p[n] for n in names if n in e.p}


def _rechunked(e, d):
    if not e.lazy:
        return d
    c = e.p["chunk"]
    return d.chunk(c) if isinstance(c, str) else d.chunk({"t": tochunk(c)})


def _g_evaluate(e):
    d = e.a * 2.0 + e.b
    how = e.p["how"]
    if how == "to_numpy":
        return xr.DataArray(d.to_numpy(), dims=d.dims)
    if how == "values":
        return xr.DataArray(d.values, dims=d.dims)
    if how == "np_asarray":
        return xr.DataArray(np.asarray(d), dims=d.dims)
    if how == "load":
        return d.copy().load()
    if how == "compute":
        return d.compute()
    if how == "persist":
        return d.persist()
    if how == "persist_ffill":
        return d.persist().ffill("t")
    if how == "ds_compute":
        return xr.Dataset({"p": d, "q": e.a.ffill("t"), "r": e.v}).compute()
    if how == "ds_persist_scan":
        return xr.Dataset({"p": d, "q": e.a}).persist().bfill("t")
    if how == "to_pandas":
        return xr.DataArray(d.to_pandas().to_numpy(), dims=d.dims)
    if how == "scalar":
        return xr.DataArray(float(e.a.sum()))
    raise ValueError(how)


def _g_reduce(e):
    red = e.p["red"]
    d = _src(e)
    if red == "median" and e.lazy:
        d = d.chunk({"t": -1})
    if red in ("any", "all"):
        return getattr(d > e.p.get("thr", 0.0), red)("t")
    if red == "count":
        return d.count("t")
    return getattr(d if red != "prod" else d / 8.0, red)("t", **_kw(e, "skipna", "ddof", "min_count"))


def _g_pad(e):
    kw = dict(e.p["kw"])
    for k2 in ("constant_values", "end_values", "stat_length"):
        if isinstance(kw.get(k2), list):
            kw[k2] = tuple(kw[k2])
    return _src(e).pad(t=tuple(e.p["width"]), mode=e.p["mode"], **kw)


def _g_map_blocks_ds(e):
    def f(d):
        return d.assign(s=d.a.fillna(0.0) + d.b.fillna(1.0) * 2.0 + d.t)
    return xr.map_blocks(f, e.ds[["a", "b"]].unify_chunks() if e.lazy else e.ds[["a", "b"]])


def _np_ffill(x, axis, dtype=None):
    x = np.moveaxis(np.array(x, dtype="f8"), axis, 0)
    for i in range(1, x.shape[0]):
        m = np.isnan(x[i])
        x[i][m] = x[i - 1][m]
    return np.moveaxis(x, 0, axis)


def _np_cumfirst(x, axis, dtype=None):
    """out[i] = the first non-NaN among x[0..i]"""
    x = np.moveaxis(np.array(x, dtype="f8"), axis, 0)
    for i in range(1, x.shape[0]):
        m = ~np.isnan(x[i - 1])
        x[i][m] = x[i - 1][m]
    return np.moveaxis(x, 0, axis)


def _tail(cum):
    def pre(x, axis=None, keepdims=True, **kw):
        axis = axis[0] if isinstance(axis, (tuple, list)) else axis
        if x.shape[axis] == 0:
            return np.full([1 if i == axis else n for i, n in enumerate(x.shape)], np.nan)
        out = np.take(cum(x, axis), [-1], axis=axis)
        return out if keepdims else np.squeeze(out, axis)
    return pre


def _merge_last(a, b):
    return np.where(np.isnan(b), a, b)


def _merge_first(a, b):
    return np.where(np.isnan(a), b, a)


def _head_first(x, axis=None, keepdims=False, **kw):
    """first non-NaN along axis (order-sensitive chunk / combine / aggregate function of a tree reduction)"""
    axis = axis[0] if isinstance(axis, (tuple, list)) else axis
    out = np.take(_np_ffill(np.flip(x, axis), axis), [-1], axis=axis)
    return out if keepdims else np.squeeze(out, axis)


def _g_mgr_scan(e):
    """the manager's scan called directly with NON-commutative (associative) merges, both methods"""
    axis = e.p["axis"]
    A = (e.a if axis == 0 else e.a.transpose("y", "t")).data
    cum, merge = (_np_ffill, _merge_last) if e.p["merge"] == "last" else (_np_cumfirst, _merge_first)
    if not e.lazy:
        return cum(A, axis)
    kw = {"method": e.p["method"]}
    if e.p["method"] == "blelloch":
        kw["preop"] = _tail(cum)
    return guess_chunkmanager(None).scan(cum, merge, np.nan, A, axis=axis, dtype=A.dtype, **kw)


def _g_mgr_reduction(e):
    """the manager's reduction called directly with an order-sensitive function (what xarray's first()/last() do)"""
    which, axis = e.p["which"], e.p["axis"]
    A = (e.a if axis == 0 else e.a.transpose("y", "t")).data
    f = _head_first if which == "first" else _tail(_np_ffill)
    if not e.lazy:
        return f(A, axis=axis, keepdims=False)
    kw = dict(e.p.get("kw", {}))
    if e.p.get("combine"):
        kw["combine_func"] = f
    return guess_chunkmanager(None).reduction(A, func=f, aggregate_func=f, axis=axis, dtype=A.dtype, keepdims=False, **kw)


def _g_groupby_first_last(e):
    lab = np.array(e.p["labels"])
    d = e.a.assign_coords(g=("t", lab))
    return xr.Dataset({"f": d.groupby("g").first(**_kw(e, "skipna")), "l": d.groupby("g").last(**_kw(e, "skipna"))})


GRID = {
    # ---- manager.scan(method="blelloch", preop=nanlast, binop=non-commutative) through push
    "ffill": lambda e: e.a.ffill("t", limit=e.p.get("limit")),
    "bfill": lambda e: e.a.bfill("t", limit=e.p.get("limit")),
    "ffill_ds": lambda e: e.ds.ffill("t", limit=e.p.get("limit")),
    "bfill_ds": lambda e: e.ds.bfill("t", limit=e.p.get("limit")),
    "ffill_transposed": lambda e: e.a.transpose("y", "t").ffill("t", limit=e.p.get("limit")),
    "bfill_perm": lambda e: e.bn.bfill("t", limit=e.p.get("limit")),
    "ffill_bfill": lambda e: e.a.ffill("t").bfill("t"),
    "ffill_of_sum": lambda e: (e.a + e.b).ffill("t", limit=e.p.get("limit")),
    "ffill_of_concat": lambda e: xr.concat([e.a, e.a + 100.0], "t").ffill("t"),
    "ffill_of_where": lambda e: e.a0.where(e.a0 > e.p["thr"]).ffill("t"),
    "bfill_of_shift": lambda e: e.a0.shift(t=e.p["shift"]).bfill("t"),
    "ffill_of_rechunk": lambda e: _rechunked(e, e.a).ffill("t"),
    "ffill_y": lambda e: e.a.ffill("y"),
    "interpolate_na": lambda e: (e.a.chunk({"t": -1}) if e.lazy else e.a).interpolate_na("t", **_kw(e, "use_coordinate", "limit", "max_gap")),
    "mgr_scan": _g_mgr_scan,
    "mgr_reduction_first_last": _g_mgr_reduction,
    "groupby_first_last": _g_groupby_first_last,
    "resample_first_last": lambda e: getattr(_timed(e, e.a).resample(time=e.p["freq"]), e.p["how"])(),
    "resample_up": lambda e: getattr(_timed(e, e.a).resample(time="12h"), e.p["how"])(),
    # ---- cumulative
    "cumsum": lambda e: e.a.cumsum("t", **_kw(e, "skipna")),
    "cumprod": lambda e: (e.a / 8.0).cumprod("t", **_kw(e, "skipna")),
    "cumsum_ds": lambda e: e.ds.cumsum("t"),
    "cumsum_two_dims": lambda e: e.a.cumsum(["t", "y"]),
    "cumulative": lambda e: getattr(e.a.cumulative("t", min_periods=e.p.get("min_periods", 1)), e.p["red"])(),
    "cumulative_integrate": lambda e: e.a0.cumulative_integrate("t"),
    # ---- rolling / coarsen
    "rolling_red": lambda e: getattr(e.a.rolling(t=e.p["window"], **_kw(e, "center", "min_periods")), e.p["red"])(),
    "rolling_ds": lambda e: getattr(e.ds.rolling(t=e.p["window"], **_kw(e, "center", "min_periods")), e.p["red"])(),
    "rolling_2d": lambda e: e.a.rolling(t=e.p["window"], y=2, min_periods=1).sum(),
    "rolling_construct": lambda e: e.a.rolling(t=e.p["window"], **_kw(e, "center")).construct("win", **_kw(e, "stride", "fill_value")),
    "rolling_reduce": lambda e: e.a0.rolling(t=e.p["window"], **_kw(e, "center")).reduce(np.ptp),
    "coarsen_red": lambda e: getattr(e.a.coarsen(t=e.p["window"], **_kw(e, "boundary", "side")), e.p["red"])(),
    "coarsen_ds": lambda e: getattr(e.ds.coarsen(t=e.p["window"], **_kw(e, "boundary", "side")), e.p["red"])(),
    "coarsen_construct": lambda e: e.a.coarsen(t=e.p["window"], boundary="trim").construct(t=("tc", "tf")),
    # ---- positions of extremes
    "idxmax": lambda e: e.a.idxmax("t", **_kw(e, "skipna", "fill_value")),
    "idxmin": lambda e: e.a.idxmin("t", **_kw(e, "skipna", "fill_value")),
    "idxmax_ds": lambda e: e.ds[["a", "b"]].idxmax("t"),
    "argmax_dim": lambda e: e.a.argmax("t", **_kw(e, "skipna")),
    "argmin_dict": lambda e: e.a.argmin(dim=list(e.p["dims"]), **_kw(e, "skipna")),
    "argmax_dict": lambda e: e.a.argmax(dim=list(e.p["dims"]), **_kw(e, "skipna")),
    "argmin_ds": lambda e: e.ds[["a", "b"]].argmin("t"),
    # ---- where / fillna / clip / combine_first
    "where_cond_perm": lambda e: e.a.where(e.b > e.p["thr"]),
    "where_other": lambda e: e.a.where(e.a > e.p["thr"], e.v if e.p.get("other") == "v" else -99.0),
    "xr_where": lambda e: xr.where(e.b > e.p["thr"], e.a, e.v),
    "where_drop": lambda e: e.a.where((e.v > e.p["thr"]).compute() if e.lazy else e.v > e.p["thr"], drop=True),
    "fillna_scalar": lambda e: e.a.fillna(-7.0),
    "fillna_perm": lambda e: e.a.fillna(e.bn),
    "fillna_ds_dict": lambda e: e.ds.fillna({"a": -1.0, "b": e.v}),
    "clip": lambda e: e.a.clip(e.p.get("lo"), e.p.get("hi")),
    "clip_arrays": lambda e: e.a.clip(e.v - 3.0, e.b + 3.0),
    "combine_first": lambda e: e.a.combine_first(e.bn),
    "combine_first_shifted": lambda e: e.a.isel(t=slice(e.p["cut"], None)).combine_first(e.bn.isel(t=slice(0, -e.p["cut"]))),
    # ---- diff / shift / roll / pad
    "diff": lambda e: e.a.diff("t", **_kw(e, "n", "label")),
    "shift": lambda e: e.a.shift(t=e.p["shift"], **_kw(e, "fill_value")),
    "shift_ds": lambda e: e.ds.shift(t=e.p["shift"]),
    "roll": lambda e: e.a.roll(t=e.p["shift"], roll_coords=e.p.get("roll_coords", False)),
    "roll_ds": lambda e: e.ds.roll(t=e.p["shift"], roll_coords=e.p.get("roll_coords", False)),
    "pad": _g_pad,
    # ---- label-based selection
    "reindex": lambda e: e.a.reindex(t=e.p["labels"], **_kw(e, "method", "tolerance", "fill_value")),
    "reindex_like": lambda e: e.ds[["a", "b"]].reindex_like(e.v.isel(t=_sl(e.p["keep"]))),
    "sel_method": lambda e: e.a.sel(t=e.p["labels"], **_kw(e, "method")),
    "sel_slice": lambda e: e.a.sel(t=slice(e.p["lo"], e.p["hi"])),
    "isel_list": lambda e: e.a.isel(t=e.p["idx"]),
    "isel_vectorized": lambda e: e.a.isel(t=xr.DataArray(e.p["idx"], dims="p"), y=xr.DataArray(e.p["idy"], dims="p")),
    "isel_negstep": lambda e: e.a.isel(t=slice(None, None, -e.p["step"])),
    "sortby_desc": lambda e: e.a.sortby("t", ascending=False),
    "sortby_values": lambda e: e.a.sortby(e.v.compute() if e.lazy else e.v),
    "head_tail_thin": lambda e: xr.Dataset({"h": e.a.head(t=e.p["n"]), "l": e.a.tail(t=e.p["n"]), "n": e.b.thin(t=e.p["n"])}),
    # ---- contractions
    "dot_t": lambda e: xr.dot(e.a0, e.b, dim="t"),
    "dot_all": lambda e: xr.dot(e.a0, e.b),
    "dot_three": lambda e: xr.dot(e.a0, e.b, e.v, dim="t"),
    "dot_outer": lambda e: xr.dot(e.a0, e.a0.rename(y="y2"), dim="t"),
    "matmul": lambda e: e.a0 @ e.b,
    "weighted": lambda e: e.a.weighted(e.v.clip(1.0, None)).mean("t"),
    # ---- apply_ufunc / map_blocks
    "ufunc_par_core_y": lambda e: xr.apply_ufunc(lambda q: np.nansum(q, -1), e.a.chunk({"y": -1}) if e.lazy else e.a,
                                                 input_core_dims=[["y"]], **_par(output_dtypes=[float])),
    "ufunc_par_core_t_rechunk": lambda e: xr.apply_ufunc(lambda q: np.nancumsum(q, -1), e.a, input_core_dims=[["t"]], output_core_dims=[["t"]],
                                                         **_par(output_dtypes=[float], dask_gufunc_kwargs={"allow_rechunk": True})),
    "ufunc_par_two_core": lambda e: xr.apply_ufunc(lambda q, r: (q * r).sum(-1), _single(e.a0, "t", e.lazy), _single(e.b, "t", e.lazy),
                                                   input_core_dims=[["t"], ["t"]], **_par(output_dtypes=[float])),
    "ufunc_allowed_core": lambda e: xr.apply_ufunc(lambda q, r: (q * r).sum(-1), e.a0, e.b, input_core_dims=[["t"], ["t"]], dask="allowed"),
    "ufunc_allowed_keep": lambda e: xr.apply_ufunc(lambda q: q.cumsum(-1), e.a0, input_core_dims=[["t"]], output_core_dims=[["t"]], dask="allowed"),
    "ufunc_allowed_elementwise": lambda e: xr.apply_ufunc(np.fmax, e.a, e.b, dask="allowed"),
    "map_blocks_da": lambda e: e.a.map_blocks(lambda q: q.fillna(-1.0) * 2.0 + q.t),
    "map_blocks_ds": _g_map_blocks_ds,
    # ---- chunk management
    "unify_chunks": lambda e: xr.unify_chunks(e.a, e.b, e.v) if e.lazy else (e.a, e.b, e.v),
    "unify_ds": lambda e: e.ds.unify_chunks(),
    "chunk_dict": lambda e: _rechunked(e, e.a) + 1.0,
    "chunk_ds": lambda e: (e.ds.chunk(e.p["chunk"] if isinstance(e.p["chunk"], str) else {"t": tochunk(e.p["chunk"])}) if e.lazy else e.ds) * 2.0,
    # ---- evaluation entry points
    "evaluate": _g_evaluate,
    # ---- reductions along the split dimension
    "reduce": _g_reduce,
    "reduce_all_dims": lambda e: getattr(e.ds, e.p["red"])(),
    "isnull_count": lambda e: xr.Dataset({"n": e.a.isnull(), "c": e.a.notnull().sum("t"), "k": e.ds.count("t").to_array()}),
    "differentiate": lambda e: e.a0.differentiate("t", **_kw(e, "edge_order")),
    "integrate": lambda e: e.ds.fillna(0.0).integrate("t"),
}


def run_grid(case, lazy):
    return GRID[case["op"]](build_grid(case, lazy))


# ------------------------------------------------------------------------------------ main

FAMILIES = {"dsload": run_dsload, "mapblocks": run_mapblocks, "ufunc": run_ufunc, "route": run_route, "mgr": run_mgr,
            "mutate": run_mutate, "grid": run_grid}
LOOSE_DIMS = {"mapblocks"}
DIGEST = {"mutate"}          # families whose chunked results are also compared between the registered and the stock run


def digest(c):
    """canonical text of a canon() result (small integer-valued test data), to compare two chunked runs with each other"""
    return json.dumps({k: [list(d), np.asarray(v).astype("f8").round(9).tolist() if np.asarray(v).dtype.kind in "fiub" else np.asarray(v).astype(str).tolist()]
                       for k, (d, v) in sorted(c.items())})


def one(case):
    import time
    t0 = time.perf_counter()
    res = _one(case)
    res["secs"] = round(time.perf_counter() - t0, 4)
    return res


def _one(case):
    run = FAMILIES[case["fam"]]
    try:
        want = canon(run(case, False))
    except Exception as e:
        return {"verdict": "numpy-raises " + type(e).__name__ + ": " + str(e)[:120], "calls": []}
    CALLS.clear()
    try:
        got = canon(run(case, True))
    except Exception as e:
        return {"verdict": "raises " + type(e).__name__ + ": " + str(e)[:200].replace("\n", " "), "calls": sorted(CALLS)}
    calls = sorted(CALLS)
    try:
        res = {"verdict": compare(want, got, dims_strict=case["fam"] not in LOOSE_DIMS), "calls": calls}
    except Exception as e:
        return {"verdict": "compare-error " + repr(e)[:160], "calls": calls}
    if case["fam"] in DIGEST and res["verdict"] != "ok":
        res["digest"] = digest(got)
    return res


def main():
    cases = json.load(sys.stdin)
    out = [one(c) for c in cases]
    where = sys.modules["dask_array"].__file__ if MODE == "registered" else None   # which tree was exercised
    print("RESULT " + json.dumps({"results": out, "dask_array_file": where}))


if __name__ == "__main__":
    main()
