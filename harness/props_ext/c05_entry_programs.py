"""C05 fourth round — FUSION-SENSITIVE programs through every materialization entry point.

Blockwise fusion only runs on the entry points that materialize the collection's OWN graph (x.compute(), x.persist(),
x.optimize(), x.to_delayed(), np.asarray(x), store); dask.compute(x, other) / dask.persist / dask.optimize go through dask's
generic optimizer without it.  A defect in the fusion analysis therefore shows up as a DISAGREEMENT between the two
families of entry points on programs whose fused group is non-trivial.  The random programs of harness.programs rarely
contain such a group, so this stream builds them on purpose:

  * hand-built `da.blockwise` calls with ONE lazy operand repeated under permuted / partially shared / broadcast /
    contracted index patterns ('ij','ji'; 'ij','jk' and 'ij','kj' contractions with concatenate=True/False/None;
    'i','j' outer products; new_axes; 3-d cycles 'ijk','jki','kij'; index patterns given as letters or as integers),
  * the same shapes spelt with the array API (b op b.T, b @ b.T, tensordot, einsum, where, map_blocks over two views of
    one lazy chain, v[:, None] * v[None, :]),
  * 0-3 elementwise layers BELOW (the lazy operand b = x*3+1, x*x+1, …) and 0-3 ABOVE the form, so that producers and
    consumers fuse,
  * block grids with several blocks per axis (uniform, ragged) and with ONE block along one axis (broadcast block ids),
  * the enumerated multi-site / broadcast programs of props_ext/c21_fused (reused read-only),

each run through EVERY entry point (the 16 of c05_types plus x.__array__, store, store(compute=False)) and compared
with a whole-array NumPy evaluation and, for persisted / optimized collections, on name / chunks / dtype / keys and a
follow-on operation.

Signatures: `entry:<entry point>:fusion-program:<raises|values|meta|followon>`; documented findings of the dask-level
entry points keep the signatures of props/C05.classify / classify_value.  Cases are plain JSON dicts (kind "fusion").
"""
from __future__ import annotations

import functools
import json
import warnings

import numpy as np

KIND = "fusion"

EXTRA_ENTRIES = ("x.__array__", "store", "store(compute=False)")
# entry points that materialize x's own graph (blockwise fusion runs) / that go through dask's generic optimizer
OWN_GRAPH = ("x.compute", "np.asarray(x)", "x.__array__", "x.persist", "x.optimize", "to_delayed", "x.persist.to_delayed", "store",
             "store(compute=False)")
KEEPS_META = ("x.persist", "dask.persist(x)", "dask.persist(x,y)", "dask.optimize(x)", "dask.optimize(x,y)")
# quick tier: these on every program, plus ROTATE of the others (thorough: all of them on every program)
CORE = ("x.compute", "dask.compute(x,y)", "x.persist", "dask.persist(x)", "x.optimize", "dask.optimize(x)", "to_delayed", "np.asarray(x)", "store")
ROTATE = 3


def all_entries():
    from harness.props_ext import c05_types

    return tuple(c05_types.TYPED_ENTRIES) + EXTRA_ENTRIES


# ------------------------------------------------------------------------------------------ the block function

@functools.lru_cache(maxsize=512)
def _spec(s):
    return json.loads(s)


def _cat(v, axis):
    """blocks of one operand along ONE contracted index (concatenate=False hands a list)"""
    if isinstance(v, (list, tuple)):
        return np.concatenate([_cat(u, axis) for u in v], axis=axis)
    return np.asarray(v)


def bw_apply(spec_s, *blocks):
    """The block function of every hand-built blockwise call: operand k (index pattern inds[k]) is aligned to the index space
    out + contracted, the operands are combined pointwise (weighted sum or product form), new axes are filled with a ramp and
    contracted indices are summed.  Pointwise in the kept indices and a plain sum over the contracted ones: applying it to the
    WHOLE arrays gives the value every correct blockwise evaluation must give."""
    sp = _spec(spec_s)
    inds, out, new = sp["inds"], sp["out"], sp.get("new", {})
    contracted = [i for i in sorted({i for ind in inds for i in ind}) if i not in out]
    full = list(out) + contracted
    comb = None
    for k, (b, ind) in enumerate(zip(blocks, inds)):
        if isinstance(b, (list, tuple)):
            ax = [p for p, i in enumerate(ind) if i in contracted]
            b = _cat(b, ax[0])
        b = np.asarray(b)
        order = [ind.index(i) for i in full if i in ind]
        b = b.transpose(order)
        shape = []
        it = iter(b.shape)
        for i in full:
            shape.append(next(it) if i in ind else 1)
        a = b.reshape(shape).astype(np.int64)
        w = sp["w"][k]
        if comb is None:
            comb = w * a
        elif sp["mode"] == "lin":
            comb = comb + w * a
        else:
            comb = comb * (a + w) if k % 2 else comb + w * a
    for i, n in new.items():
        p = full.index(i)
        shape = [1] * len(full)
        shape[p] = n
        comb = comb * (np.arange(n, dtype=np.int64) + 1).reshape(shape)
    if contracted:
        comb = comb.sum(axis=tuple(range(len(out), len(full))))
    return comb


def mb_two(u, v, w=2):
    return u - w * v


# --------------------------------------------------------------------------------------------------- catalogue
# arrays: B / B2 lazy chains over source 0 (B2 a different chain over the SAME source), C a lazy chain over source 1, V a lazy
# chain over the 1-d source 2, S the bare source 0.  dims: one class letter per axis; axes of one class share size and chunks.
# bw forms: (dims of source 0, dims of source 1, dims of source 2, [(array, index pattern)], out pattern, options)

BW_FORMS = {
    "perm2": ("nn", None, None, [("B", "ij"), ("B", "ji")], "ij", {}),
    "perm2-rev": ("nn", None, None, [("B", "ji"), ("B", "ij")], "ij", {}),
    "perm2-outT": ("nn", None, None, [("B", "ij"), ("B", "ji")], "ji", {}),
    "same2": ("nn", None, None, [("B", "ij"), ("B", "ij")], "ij", {}),
    "perm3": ("nn", None, None, [("B", "ij"), ("B", "ji"), ("B", "ij")], "ij", {}),
    "perm2+other": ("nn", "nn", None, [("B", "ij"), ("C", "ij"), ("B", "ji")], "ij", {}),
    "perm2+chain2": ("nn", None, None, [("B", "ij"), ("B2", "ji")], "ij", {}),
    "perm2+src": ("nn", None, None, [("B", "ji"), ("S", "ij")], "ij", {}),
    "perm2-rect": ("nm", "mn", None, [("B", "ij"), ("C", "ji")], "ij", {}),
    "contract-jk": ("nn", None, None, [("B", "ij"), ("B", "jk")], "ik", {"contract": True}),
    "contract-kj": ("nm", None, None, [("B", "ij"), ("B", "kj")], "ik", {"contract": True}),
    "contract-ik": ("nm", None, None, [("B", "ij"), ("B", "ik")], "jk", {"contract": True}),
    "contract-to-1d": ("nn", None, None, [("B", "ij"), ("B", "ji")], "i", {"contract": True}),
    "contract+keep": ("nn", None, None, [("B", "ij"), ("B", "jk"), ("B", "ik")], "ik", {"contract": True}),
    "outer": (None, None, "n", [("V", "i"), ("V", "j")], "ij", {}),
    "outer+diag": ("nn", None, "n", [("V", "i"), ("B", "ij"), ("V", "j")], "ij", {}),
    "outer+perm": ("nn", None, "n", [("B", "ji"), ("V", "i"), ("B", "ij")], "ij", {}),
    "outer-rect": ("nm", None, "n", [("V", "i"), ("B", "ij"), ("V", "k")], "ikj", {}),
    "new-axis": ("nn", None, None, [("B", "ij"), ("B", "ji")], "izj", {"new": {"z": 3}}),
    "new-axis-outer": (None, None, "n", [("V", "i"), ("V", "j")], "ijz", {"new": {"z": 2}}),
    "cycle3": ("nnn", None, None, [("B", "ijk"), ("B", "jki"), ("B", "kij")], "ijk", {}),
    "swap3": ("nmn", None, None, [("B", "ijk"), ("B", "kji")], "ijk", {}),
    "swap3-out": ("nmn", None, None, [("B", "ijk"), ("B", "kji")], "jik", {}),
    "3d+2d": ("nmn", "nn", None, [("B", "ijk"), ("C", "ki"), ("C", "ik")], "ijk", {}),
    "3d-contract": ("nmn", None, None, [("B", "ijk"), ("B", "kjl")], "il", {"contract": True}),
}

# array-API forms over b (and c, v): name -> (dims0, dims1, dims2, function of (np | da module, b, c, v, s))
API_FORMS = {
    "b+b.T": ("nn", None, None, lambda m, b, c, v, s: b + b.T),
    "b*b.T-b": ("nn", None, None, lambda m, b, c, v, s: b * b.T - b),
    "(b-b.T)*(b+1)": ("nn", None, None, lambda m, b, c, v, s: (b - b.T) * (b + 1)),
    "b.T-b*b": ("nn", None, None, lambda m, b, c, v, s: b.T - b * b),
    "b+s.T": ("nn", None, None, lambda m, b, c, v, s: b + s.T),
    "where(b>b.T)": ("nn", None, None, lambda m, b, c, v, s: m.where(b > b.T, b, -b.T)),
    "maximum(b,b.T)+c": ("nn", "nn", None, lambda m, b, c, v, s: m.maximum(b, b.T) + c),
    "b@b.T": ("nm", None, None, lambda m, b, c, v, s: b @ b.T),
    "b.T@b": ("nm", None, None, lambda m, b, c, v, s: b.T @ b),
    "b@b": ("nn", None, None, lambda m, b, c, v, s: b @ b),
    "b@b.T+b*2": ("nn", None, None, lambda m, b, c, v, s: b @ b.T + b * 2),
    "dot(b,b)": ("nn", None, None, lambda m, b, c, v, s: m.dot(b, b)),
    "tensordot(b,b,1-1)": ("nm", None, None, lambda m, b, c, v, s: m.tensordot(b, b, axes=((1,), (1,)))),
    "tensordot(b,b,0-0)": ("nm", None, None, lambda m, b, c, v, s: m.tensordot(b, b, axes=((0,), (0,)))),
    "einsum(ij,kj)": ("nm", None, None, lambda m, b, c, v, s: m.einsum("ij,kj->ik", b, b)),
    "einsum(ij,ji)": ("nn", None, None, lambda m, b, c, v, s: m.einsum("ij,ji->ij", b, b)),
    "b+b.transpose(2,1,0)": ("nmn", None, None, lambda m, b, c, v, s: b * 2 + b.transpose(2, 1, 0)),
    "b+b.transpose(1,2,0)": ("nnn", None, None, lambda m, b, c, v, s: b - b.transpose(1, 2, 0) * 3),
    "v[:,None]*v[None,:]": (None, None, "n", lambda m, b, c, v, s: v[:, None] * v[None, :] + v),
    "v[:,None]*v[None,:]+b": ("nn", None, "n", lambda m, b, c, v, s: v[:, None] * v[None, :] + b),
    "b+v": ("nn", None, "n", lambda m, b, c, v, s: (b + v) * b.T),
    "b*col+row": ("nm", None, "n", lambda m, b, c, v, s: b * v[:, None] - v[:, None]),
    "col-row*b": ("nn", None, "n", lambda m, b, c, v, s: v[:, None] - v[None, :] * b),
    "b-b[::-1]": ("nm", None, None, lambda m, b, c, v, s: b - 2 * b[::-1]),
    "b*b[:,::-1].T": ("nn", None, None, lambda m, b, c, v, s: b * b[:, ::-1].T),
}

# families of the array-API spellings (quick tier: a rotating sample of EVERY family)
API_FAMILIES = {
    "transposed": (("b+b.T", "b*b.T-b", "(b-b.T)*(b+1)", "b.T-b*b", "b+s.T", "where(b>b.T)", "maximum(b,b.T)+c"), 2),
    "contraction": (("b@b.T", "b.T@b", "b@b", "b@b.T+b*2", "dot(b,b)", "tensordot(b,b,1-1)", "tensordot(b,b,0-0)", "einsum(ij,kj)", "einsum(ij,ji)"), 2),
    "perm3": (("b+b.transpose(2,1,0)", "b+b.transpose(1,2,0)"), 1),
    "broadcast": (("v[:,None]*v[None,:]", "v[:,None]*v[None,:]+b", "b+v", "b*col+row", "col-row*b"), 2),
    "reversed": (("b-b[::-1]", "b*b[:,::-1].T"), 1),
}

# map_blocks over two views of one lazy chain: the block function is applied per block (the views share the block grid)
MB_FORMS = {
    "mb(b,b.T)": ("nn", lambda b: b.T),
    "mb(b,b*2)": ("nm", lambda b: b * 2),
    "mb(b,b.T.T)": ("nm", lambda b: b.T.T),
    "mb(b,b+b.T)": ("nn", lambda b: b + b.T),
}

BELOW = ("affine", "affine", "self", "deep", "none", "where")
ABOVE_OPS = (("mul", 2), ("add", 1), ("sub", 3), ("neg", 0), ("mul", -1), ("add", 7))


def _below(kind, x, m, alt=False):
    """the lazy operand over a source (>= 1 elementwise layer unless kind == 'none')"""
    if kind == "none":
        return x if not alt else x + 0
    if kind == "affine":
        return x * 3 + 1 if not alt else x * 2 - 5
    if kind == "self":
        return x * x + 1 if not alt else x * x - x
    if kind == "deep":
        return ((x + 1) * 2 - 3) * 5 if not alt else ((x - 1) * 3 + 2) * 2
    if kind == "where":
        return m.where(x % 2 == 0, x, -x) + 1 if not alt else m.where(x % 3 == 0, x + 1, x)
    raise ValueError(kind)


def _above(ops, y):
    for op, c in ops:
        y = y * c if op == "mul" else y + c if op == "add" else y - c if op == "sub" else -y
    return y


def _data(shape, mul, off, mod):
    n = int(np.prod(shape))
    return ((np.arange(n, dtype=np.int64) * mul + off) % mod).reshape(shape)


def build(case):
    """-> (x, want, y, ywant): the dask collection, the whole-array NumPy value, a companion sharing the lazy operand"""
    import dask_array as da

    cl = case["classes"]  # class letter -> {"n": size, "chunks": [...]}
    srcs = []
    for k, dims in enumerate(case["dims"]):
        if dims is None:
            srcs.append((None, None))
            continue
        shape = tuple(cl[d]["n"] for d in dims)
        a = _data(shape, *case["data"][k])
        srcs.append((da.from_array(a, chunks=tuple(tuple(cl[d]["chunks"]) for d in dims)), a))

    def arrays(m, which):
        s0, s1, s2 = (s[which] for s in srcs)
        b = None if s0 is None else _below(case["below"], s0, m)
        b2 = None if s0 is None else _below(case["below"], s0, m, alt=True)
        c = None if s1 is None else _below(case["below"], s1, m, alt=True)
        v = None if s2 is None else _below(case["below"], s2, m)
        return {"B": b, "B2": b2, "C": c, "V": v, "S": s0}

    A, N = arrays(da, 0), arrays(np, 1)
    form = case["form"]
    if form["type"] == "bw":
        spec = {"inds": [ind for _, ind in form["ops"]], "out": form["out"], "new": form.get("new", {}), "w": form["w"], "mode": form["mode"]}
        spec_s = json.dumps(spec, sort_keys=True)
        f = functools.partial(bw_apply, spec_s)
        enc = (lambda ind: tuple(ord(i) - ord("a") for i in ind)) if form.get("int_inds") else (lambda ind: ind)
        pairs = []
        for nm, ind in form["ops"]:
            pairs += [A[nm], enc(ind)]
        kw = {}
        if form.get("concatenate") is not None:
            kw["concatenate"] = form["concatenate"]
        if form.get("new"):
            kw["new_axes"] = {enc(i)[0] if form.get("int_inds") else i: n for i, n in form["new"].items()}
        core = da.blockwise(f, enc(form["out"]), *pairs, dtype="int64", **kw)
        ncore = bw_apply(spec_s, *[N[nm] for nm, _ in form["ops"]])
        partner, npartner = A[form["ops"][0][0]], N[form["ops"][0][0]]
    elif form["type"] == "api":
        fn = API_FORMS[form["name"]][3]
        core = fn(da, A["B"], A["C"], A["V"], A["S"])
        ncore = fn(np, N["B"], N["C"], N["V"], N["S"])
        partner, npartner = (A["B"], N["B"]) if A["B"] is not None else (A["V"], N["V"])
    elif form["type"] == "mb":
        view = MB_FORMS[form["name"]][1]
        if form.get("method"):
            core = A["B"].map_blocks(mb_two, view(A["B"]), w=form["w"], dtype="int64")
        else:
            core = da.map_blocks(mb_two, A["B"], view(A["B"]), w=form["w"], dtype="int64")
        ncore = mb_two(N["B"], view(N["B"]), w=form["w"])
        partner, npartner = A["B"], N["B"]
    else:
        raise ValueError(form["type"])
    x, want = _above(case["above"], core), _above(case["above"], np.asarray(ncore))
    yk = case.get("y", "core+1")
    if yk == "core+1":
        y, ywant = core + 1, np.asarray(ncore) + 1
    elif yk == "operand":
        y, ywant = partner * 2, npartner * 2
    else:
        y, ywant = x.sum(), np.asarray(want).sum()
    return x, np.asarray(want), y, np.asarray(ywant)


def build_c21(case):
    from harness.props_ext import c21_fused

    env = c21_fused.build_fused(case["c21"])
    x, want = env["y"], np.asarray(env["_expected"]["y"])
    core = env["core"]
    return x, want, core * 2 + 1, np.asarray(env["_expected"]["core"]) * 2 + 1


# --------------------------------------------------------------------------------------------------- generators

def _chunks(rng, n, style):
    if style == "single" or n < 2:
        return [n]
    if style == "uniform":
        c = 2 if n >= 4 else 1
        out = [c] * (n // c)
        if n % c:
            out.append(n % c)
        return out
    for _ in range(30):
        k = rng.randint(2, min(3, n))
        cuts = sorted(rng.sample(range(1, n), k - 1))
        ch = [b - a for a, b in zip([0] + cuts, cuts + [n])]
        if len(set(ch)) > 1 or n < 3:
            return ch
    return ch


def _classes(rng, dims_all, styles=None):
    letters = sorted({d for dims in dims_all if dims for d in dims})
    out = {}
    for l in letters:
        big = l == "n"
        n = rng.randint(4, 6) if big else rng.randint(2, 4)
        style = (styles or {}).get(l) or (rng.choice(("uniform", "ragged", "ragged")) if big else rng.choice(("uniform", "ragged", "single", "single")))
        if sum(len(d) for d in dims_all if d) >= 3 and max(len(d) for d in dims_all if d) >= 3:
            n = min(n, 4) if big else min(n, 3)
        out[l] = {"n": n, "chunks": _chunks(rng, n, style)}
    return out


def _case(rng, dims, form, **kw):
    case = {"kind": KIND, "dims": list(dims), "classes": _classes(rng, dims, kw.pop("styles", None)),
            "data": [[rng.choice((3, 5, 7)), rng.randint(0, 4), rng.choice((7, 11, 13))] for _ in dims],
            "below": kw.pop("below", None) or rng.choice(BELOW), "above": kw.pop("above", None), "form": form,
            "y": rng.choice(("core+1", "operand", "sum")), "sched": "sync", "follow": rng.choice(("add1", "self", "T", "slice", "sum0"))}
    if case["above"] is None:
        case["above"] = [list(rng.choice(ABOVE_OPS)) for _ in range(rng.choice((0, 1, 2, 2, 3)))]
    case.update(kw)
    return case


def bw_form(rng, name, concatenate="auto", int_inds=None, mode=None):
    d0, d1, d2, ops, out, opt = BW_FORMS[name]
    form = {"type": "bw", "name": name, "ops": [list(o) for o in ops], "out": out, "w": [rng.choice((1, 2, 3, 5)) for _ in ops],
            "mode": mode or rng.choice(("lin", "lin", "prod"))}
    # distinct weights so that swapping two reads of one operand changes the value
    form["w"] = [w + 2 * k for k, w in enumerate(form["w"])]
    if opt.get("new"):
        form["new"] = dict(opt["new"])
    if opt.get("contract"):
        ncontr = len({i for _, ind in ops for i in ind} - set(out))
        form["concatenate"] = (True if ncontr > 1 else rng.choice((True, False, None))) if concatenate == "auto" else concatenate
    form["int_inds"] = (rng.random() < 0.3) if int_inds is None else int_inds
    return (d0, d1, d2), form


def grid_cases(rng, full=False):
    """the enumerated part: every catalogue member at least once per run"""
    out = []
    for i, name in enumerate(BW_FORMS):
        dims, form = bw_form(rng, name)
        # the first members on the grid the fourth-round seed needs: several blocks per axis, a fused producer below
        styles = {"n": ("uniform", "ragged")[i % 2]} if i % 3 != 2 else None
        out.append(_case(rng, dims, form, below=("affine", "self", "deep", None)[i % 4], styles=styles))
        if full and BW_FORMS[name][5].get("contract") and len({j for _, ind in BW_FORMS[name][3] for j in ind} - set(BW_FORMS[name][4])) == 1:
            dims, form = bw_form(rng, name, concatenate=not form["concatenate"])
            out.append(_case(rng, dims, form))
    api = list(API_FORMS)
    mbs = list(MB_FORMS)
    if not full:  # quick: a rotating sample of every family of array-API spellings, half of the map_blocks ones
        api = []
        for names, k in API_FAMILIES.values():
            api += rng.sample(list(names), k)
        rng.shuffle(mbs)
        mbs = mbs[:2]
    for i, name in enumerate(api):
        d0, d1, d2, _ = API_FORMS[name]
        out.append(_case(rng, (d0, d1, d2), {"type": "api", "name": name}, below=("affine", None, "deep", "self")[i % 4]))
    for i, name in enumerate(mbs):
        out.append(_case(rng, (MB_FORMS[name][0], None, None), {"type": "mb", "name": name, "w": 2 + i, "method": bool(i % 2)}))
    # one block along one axis (broadcast block ids) for the permuted reads
    single = [("swap3", {"m": "single", "n": "ragged"}), ("perm2-rect", {"m": "single", "n": "uniform"}), ("contract-kj", {"m": "single", "n": "ragged"}),
              ("outer-rect", {"m": "single", "n": "uniform"}), ("3d+2d", {"m": "single", "n": "uniform"})]
    if not full:
        rng.shuffle(single)
        single = single[:2]
    for name, styles in single:
        dims, form = bw_form(rng, name)
        out.append(_case(rng, dims, form, styles=styles))
    # threads once per family
    for name in ("perm2", "contract-jk", "cycle3") if full else ("perm2",):
        dims, form = bw_form(rng, name)
        out.append(_case(rng, dims, form, sched="threads", below="affine"))
    return out


def random_case(rng):
    r = rng.random()
    if r < 0.6:
        name = rng.choice(list(BW_FORMS))
        dims, form = bw_form(rng, name)
        # random re-wiring of the operand list: another permutation of the same patterns / another repeated array
        if rng.random() < 0.35 and not BW_FORMS[name][5].get("contract"):
            ops = form["ops"]
            arrs = sorted({a for a, _ in ops})
            k = rng.randrange(len(ops))
            cand = [a for a in arrs if a != ops[k][0] and _dims_of(dims, a) == _dims_of(dims, ops[k][0])]
            if cand:
                ops[k][0] = rng.choice(cand)
            rng.shuffle(ops)
        return _case(rng, dims, form)
    if r < 0.9:
        name = rng.choice(list(API_FORMS))
        d0, d1, d2, _ = API_FORMS[name]
        return _case(rng, (d0, d1, d2), {"type": "api", "name": name})
    name = rng.choice(list(MB_FORMS))
    return _case(rng, (MB_FORMS[name][0], None, None), {"type": "mb", "name": name, "w": rng.randint(2, 5), "method": rng.random() < 0.5})


def _dims_of(dims, arr):
    return dims[{"B": 0, "B2": 0, "S": 0, "C": 1, "V": 2}[arr]]


def c21_cases(rng, k):
    """a sample of the enumerated multi-site / broadcast / two-operand map_blocks programs of c21_fused"""
    from harness.props_ext import c21_fused

    grid = [c for c in c21_fused.fused_grid(random_like(rng)) if c.get("grid", "").split("/")[0] in ("sites", "sites-rect", "broadcast", "mb2", "mb-over-sites", "mb-sum")
            and c.get("optimize", True)]
    rng.shuffle(grid)
    return [{"kind": KIND, "c21": c, "sched": "sync", "follow": rng.choice(("add1", "self", "slice"))} for c in grid[:k]]


def random_like(rng):
    import random

    return random.Random(rng.randrange(1 << 30))


# ------------------------------------------------------------------------------------------------ entry points

def run_entry(entry, x, y, sched):
    """-> (value, derived collection | None, companion value | None)"""
    import dask
    import dask_array as da
    from harness.props_ext import c05_types

    if entry == "x.__array__":
        with dask.config.set(scheduler=sched):
            return x.__array__(), None, None
    if entry == "store":
        t = np.full(x.shape, -12345, dtype=x.dtype)
        da.store(x, t, lock=False, scheduler=sched)
        return t, None, None
    if entry == "store(compute=False)":
        t = np.full(x.shape, -12345, dtype=x.dtype)
        d = da.store(x, t, lock=False, compute=False)
        dask.compute(d, scheduler=sched)
        return t, None, None
    return c05_types.run_tentry(entry, x, y, sched)


def _follow(kind, v, x):
    if kind == "add1":
        return v + 1
    if kind == "self":
        return v - 2 * x
    if kind == "T":
        return v.T * 3
    if kind == "slice":
        return v[1:][::-1] if v.ndim else v * 2
    if kind == "sum0":
        return v.sum(axis=0) if v.ndim else v + 5
    raise ValueError(kind)


def _label(case):
    if "c21" in case:
        return "c21:" + case["c21"].get("grid", "random")
    f = case["form"]
    return f["type"] + ":" + f["name"]


def check(ctx, case, count=True, entries=None):
    """-> None (not constructible) | list of failures {sig, entry, detail}"""
    from harness.props import C05
    from harness.props_ext import c05_types

    fails = []
    with warnings.catch_warnings():
        warnings.simplefilter("ignore")
        try:
            x, want, y, ywant = build_c21(case) if "c21" in case else build(case)
        except Exception as e:
            if count:
                ctx.notes["fusion.construction_raises"] = ctx.notes.get("fusion.construction_raises", 0) + 1
                lst = ctx.extra.setdefault("fusion_construction_raises_samples", [])
                if len(lst) < 3:
                    lst.append({"case": case, "error": f"{type(e).__name__}: {str(e)[:200]}"})
            return None
        sched = case.get("sched", "sync")
        name0, chunks0, dtype0 = x.name, x.chunks, x.dtype
        label = _label(case)
        outcomes = {}
        fx = {}
        for entry in entries or case.get("entries") or all_entries():
            try:
                got, derived, comp = run_entry(entry, x, y, sched)
            except NotImplementedError:
                outcomes[entry] = "refused"
                continue
            except c05_types.CompanionMismatch as e:
                sig = C05.classify_value(case, x, y, entry) or f"entry:{entry}:fusion-program:values"
                fails.append({"sig": sig, "entry": entry, "detail": f"{label}: {entry}: {e}"})
                continue
            except Exception as e:
                sig = C05.classify(case, x, y, entry, e) or f"entry:{entry}:fusion-program:raises"
                outcomes[entry] = "raises"
                fails.append({"sig": sig, "entry": entry, "detail": f"{label}: {entry} raised {type(e).__name__}: {str(e)[:240]}"})
                if count:
                    ctx.count(("fusion", entry, "raises", sig))
                continue
            outcomes[entry] = "ok"
            if count:
                ctx.count(("fusion", entry, label, sched))
            if not C05.same(got, want):
                fails.append({"sig": C05.classify_value(case, x, y, entry) or f"entry:{entry}:fusion-program:values", "entry": entry,
                              "detail": f"{label}: {entry} -> {C05.show(got)} but NumPy (whole-array evaluation) gives {C05.show(want)}"})
                outcomes[entry] = "values"
            if comp is not None and not C05.same(comp, ywant):
                fails.append({"sig": C05.classify_value(case, x, y, entry) or f"entry:{entry}:fusion-program:values", "entry": entry,
                              "detail": f"{label}: {entry}: the companion collection -> {C05.show(comp)} but NumPy gives {C05.show(ywant)}"})
            if x.name != name0:
                fails.append({"sig": f"entry:{entry}:fusion-program:meta", "entry": entry, "detail": f"{label}: x.name {name0} -> {x.name} after {entry}"})
            if derived is not None and entry in KEEPS_META:
                from dask.core import flatten

                bad = []
                if derived.name != name0:
                    bad.append(f"name {derived.name} != {name0}")
                if not C05.chunks_equal(derived.chunks, chunks0):
                    bad.append(f"chunks {derived.chunks} != {chunks0}")
                if derived.dtype != dtype0:
                    bad.append(f"dtype {derived.dtype} != {dtype0}")
                if list(flatten(derived.__dask_keys__())) != list(flatten(x.__dask_keys__())):
                    bad.append("__dask_keys__ differ from x's")
                if bad:
                    fails.append({"sig": C05.classify_value(case, x, y, entry) or f"entry:{entry}:fusion-program:meta", "entry": entry,
                                  "detail": f"{label}: {entry}: " + "; ".join(bad)})
            if derived is not None and case.get("follow"):
                fk = case["follow"]
                if not fx:
                    try:
                        fx["want"] = _follow(fk, want, want)
                        fx["ok"] = C05.same(_follow(fk, x, x).compute(scheduler=sched), fx["want"])
                    except Exception:
                        fx["ok"] = None
                fwant = fx.get("want")
                if fx["ok"]:
                    try:
                        fd = _follow(fk, derived, x).compute(scheduler=sched)
                        if count:
                            ctx.count(("fusion", entry, "follow", fk))
                        if not C05.same(fd, fwant):
                            fails.append({"sig": C05.classify_value(case, x, y, entry) or f"entry:{entry}:fusion-program:followon", "entry": entry,
                                          "detail": f"{label}: follow-on {fk!r} on the result of {entry} -> {C05.show(fd)}; NumPy gives {C05.show(fwant)}"})
                    except NotImplementedError:
                        pass
                    except Exception as e:
                        fails.append({"sig": C05.classify(case, x, y, entry, e) or f"entry:{entry}:fusion-program:followon", "entry": entry,
                                      "detail": f"{label}: follow-on {fk!r} on the result of {entry} raised {type(e).__name__}: {str(e)[:200]} (fine on x)"})
        # an entry point that raises is a C05 matter when the entry points DISAGREE about it (another one hands back the NumPy
        # value); a program every entry point refuses alike is a C01 / C08 matter: noted with a sample, not judged here
        witness = [e for e, v in outcomes.items() if v == "ok"]
        unclassified = [f for f in fails if f["sig"].endswith(":fusion-program:raises")]
        if unclassified and not witness:
            fails = [f for f in fails if f not in unclassified]
            if count:
                ctx.notes["fusion.all_entry_points_raise"] = ctx.notes.get("fusion.all_entry_points_raise", 0) + 1
                lst = ctx.extra.setdefault("fusion_all_entry_points_raise_samples", [])
                if len(lst) < 3:
                    lst.append({"case": case, "error": unclassified[0]["detail"]})
        for f in unclassified:
            if witness:
                f["witness"] = witness[0]
                f["detail"] += f" — while {witness[0]} returns the NumPy value"
        if count:
            own = {outcomes.get(e) for e in OWN_GRAPH if e in outcomes}
            gen = {v for e, v in outcomes.items() if e not in OWN_GRAPH}
            if own and gen and own != gen and (own | gen) - {"ok", "refused"}:
                ctx.notes["fusion.families_disagree"] = ctx.notes.get("fusion.families_disagree", 0) + 1
            try:
                if any(type(n).__name__ == "FusedBlockwise" for n in x.expr.optimize().walk()):
                    ctx.notes["fusion.programs_with_fused_group"] = ctx.notes.get("fusion.programs_with_fused_group", 0) + 1
            except Exception:
                pass
    return fails


# ----------------------------------------------------------------------------------------------------- shrinking

def _shrinks(case):
    if "c21" in case:
        return
    if case.get("above"):
        yield dict(case, above=[])
        yield dict(case, above=case["above"][:1])
    if case.get("follow"):
        yield dict(case, follow=None)
    if case.get("sched") != "sync":
        yield dict(case, sched="sync")
    if case["below"] != "affine":
        yield dict(case, below="affine")
    if case.get("y") != "core+1":
        yield dict(case, y="core+1")
    f = case["form"]
    if f["type"] == "bw":
        if f.get("int_inds"):
            yield dict(case, form=dict(f, int_inds=False))
        if f["mode"] != "lin":
            yield dict(case, form=dict(f, mode="lin"))
        if len(f["ops"]) > 2:
            for k in range(len(f["ops"])):
                ops = f["ops"][:k] + f["ops"][k + 1:]
                if set(f["out"]) - set(f.get("new", {})) <= {i for _, ind in ops for i in ind}:
                    yield dict(case, form=dict(f, ops=ops, w=f["w"][:k] + f["w"][k + 1:]))
    for l, c in case["classes"].items():
        if len(set(c["chunks"])) > 1 and c["n"] % 2 == 0:
            yield dict(case, classes=dict(case["classes"], **{l: {"n": c["n"], "chunks": [2] * (c["n"] // 2)}}))
        if c["n"] > 4:
            yield dict(case, classes=dict(case["classes"], **{l: {"n": 4, "chunks": [2, 2]}}))


def shrink(ctx, case, sig, entry, witness=None):
    ents = [entry] + ([witness] if witness and witness != entry else [])

    def still(c):
        r = check(ctx, c, count=False, entries=ents)
        return bool(r) and any(f["sig"] == sig for f in r)

    cur = dict(case, entries=ents)
    try:
        if not still(cur):
            return case
        for _ in range(4):
            changed = False
            for c in _shrinks(cur):
                if still(c):
                    cur, changed = c, True
                    break
            if not changed:
                break
    except Exception:
        return case
    return cur


_REPORTED = set()


def report(ctx, case, fails):
    from harness.props import C05

    by_sig = {}
    for f in fails:
        by_sig.setdefault(f["sig"], f)
    for sig, f in by_sig.items():
        if sig in C05.OWN_KNOWN or sig in _REPORTED:
            if sig in C05.OWN_KNOWN and sig not in _REPORTED:
                _REPORTED.add(sig)
                ctx.fail(sig, dict(case, entries=[f["entry"]], follow=None), f["detail"])
            continue
        _REPORTED.add(sig)
        small = shrink(ctx, case, sig, f["entry"], f.get("witness"))
        detail = f["detail"]
        if small is not case:
            r = check(ctx, small, count=False, entries=small["entries"])
            detail = next((g["detail"] for g in (r or []) if g["sig"] == sig), detail)
        ctx.fail(sig, small, detail)


def replay(ctx, case):
    for f in check(ctx, case) or []:
        ctx.fail(f["sig"], case, f["detail"])


def _pick_entries(ctx, rng, case):
    """quick: CORE + a rotating sample of the rest (recorded in the case: the replay runs the same entry points)"""
    if ctx.tier == "thorough":
        return
    rest = [e for e in all_entries() if e not in CORE]
    case["entries"] = list(CORE) + rng.sample(rest, ROTATE)


def run(ctx, budget_s):
    import random
    import time

    # a stream of its own derived from VERIF_SEED: the other C05 streams keep the ctx.rng sequence they had before this one existed
    rng = random.Random(ctx.seed * 1000003 + 50505)
    t0 = time.time()
    _REPORTED.clear()
    n = 0
    cases = grid_cases(rng, full=ctx.tier == "thorough") + c21_cases(rng, ctx.scale(3, 40))
    for i, case in enumerate(cases):
        if time.time() - t0 > budget_s:
            ctx.notes["fusion.grid_stopped_early_at"] = f"{i}/{len(cases)}"
            break
        _pick_entries(ctx, rng, case)
        fails = check(ctx, case)
        n += fails is not None
        if fails:
            report(ctx, case, fails)
    for it in range(ctx.scale(14, 1500)):
        if time.time() - t0 > budget_s:
            ctx.notes["fusion.random_stopped_early_at"] = it
            break
        case = random_case(rng)
        if it % 7 == 6:
            case["sched"] = "threads"
        _pick_entries(ctx, rng, case)
        fails = check(ctx, case)
        n += fails is not None
        if fails:
            report(ctx, case, fails)
    ctx.notes["fusion.programs"] = n
    ctx.notes["fusion.seconds"] = round(time.time() - t0, 1)
    ctx.sample({"fusion_program": {k: cases[0][k] for k in ("form", "classes", "below", "above")}})
