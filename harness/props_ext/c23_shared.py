"""C23 extension — programs with SHARED subexpressions over a seeded random array.

Why: the fusion pass (`optimize_blockwise_fusion_array`) forms groups of blockwise nodes; a fusable chain with TWO consumers
becomes a group of its own and is substituted, in the same pass, as an external operand into the group of its consumer
(`_substitute_many.rebuild_fused`).  Any rewrite that re-creates a member of such a group must leave a `Random` leaf alone:
`type(leaf)(*operands)` draws fresh per-block seeds from the (advanced) generator — another realisation inside the fused task.
Linear derived programs (the main stream of C23) never produce a group with a substituted external operand; the DAGs here do.

Language (a program is a list of JSON steps over the leaves `a` (the random array), `a2` (a second draw from the same
generator, same shape), `b`, `c` (deterministic from_array leaves, `c` chunked differently)):
  un fn u | bin fn u v | binc fn u const side | where u v thr      elementwise (fusable)
  cat / stack [u, v, …] axis | red fn u axis | flip u axis | rechunk u chunks | catslice u v axis   barriers (second consumers)
  root = last step; `together` = names computed by ONE dask.compute call
Oracle = the same program in NumPy over a.compute() (and a2.compute()).  Elementwise float functions are compared with
rtol=1e-9 (block-wise vs whole-array SIMD paths may differ in the last ulp); another realisation differs grossly.
A program that also fails over from_array(a.compute()) is a defect of the derivation (not reported here, counted).

Streams, both walked in every quick run:
  GRID   every distribution (scalar parameters) x {default_rng, RandomState, module, one more bit generator} x templates
         T1..T10 (shared chain consumed by the random array's group and by a concatenate / stack / reduction / second output /
         flip / rechunk / a second random array's group / itself shared), with the inner op rotating over op names that sort
         before and after the distribution names (member order of a group follows the sorted node names);
  RANDOM random DAGs: steps pick operands from the pool with replacement, so multi-consumer nodes arise by construction.
"""
from __future__ import annotations

import operator
import time

import numpy as np

SYNC = {"scheduler": "sync"}

# scalar-parameter elementwise distributions: name -> (Generator method, RandomState method, args)
S_DISTS = {
    "beta": ("beta", "beta", (2.0, 3.0)),
    "binomial": ("binomial", "binomial", (10, 0.3)),
    "chisquare": ("chisquare", "chisquare", (3.0,)),
    "exponential": ("exponential", "exponential", (2.0,)),
    "gamma": ("gamma", "gamma", (2.0, 1.5)),
    "geometric": ("geometric", "geometric", (0.3,)),
    "gumbel": ("gumbel", "gumbel", (0.5, 2.0)),
    "integers": ("integers", "randint", (-5, 50)),
    "laplace": ("laplace", "laplace", (0.0, 1.5)),
    "lognormal": ("lognormal", "lognormal", (0.0, 0.5)),
    "normal": ("normal", "normal", (1.5, 2.0)),
    "poisson": ("poisson", "poisson", (3.5,)),
    "random": ("random", "random_sample", ()),
    "standard_normal": ("standard_normal", "standard_normal", ()),
    "standard_t": ("standard_t", "standard_t", (4.0,)),
    "triangular": ("triangular", "triangular", (0.0, 1.0, 3.0)),
    "uniform": ("uniform", "uniform", (-2.0, 3.0)),
    "weibull": ("weibull", "weibull", (1.5,)),
    "zipf": ("zipf", "zipf", (2.5,)),
}

GENERATOR_KINDS = ("default_rng", "PCG64", "MT19937", "Philox", "SFC64")

_PYOPS = {"add": operator.add, "sub": operator.sub, "mul": operator.mul, "truediv": operator.truediv}
BIN_FNS = ("add", "sub", "mul", "truediv", "maximum", "minimum", "hypot", "fmax", "subtract", "arctan2", "copysign")
UN_FNS = ("sqrt", "negative", "abs", "square", "tanh", "arctan", "sin", "cos", "floor", "exp2c")
# op names that sort before every distribution name / between / after every distribution name
INNER_OPS = ("add", "mul", "sub", "truediv", "arctan2", "hypot", "maximum", "subtract")


def _is_gen(kind):
    return kind in GENERATOR_KINDS


def _make_gen(kind, seed):
    import dask_array as da

    if kind == "default_rng":
        return da.random.default_rng(seed)
    if kind in ("PCG64", "MT19937", "Philox", "SFC64"):
        return da.random.Generator(getattr(np.random, kind)(seed))
    if kind == "RandomState":
        return da.random.RandomState(seed)
    if kind == "module":
        da.random.seed(seed)
        return da.random
    raise KeyError(kind)


def _draw(g, kind, dist, shape, chunks):
    gm, rm, args = S_DISTS[dist]
    return getattr(g, gm if _is_gen(kind) else rm)(*args, size=tuple(shape), chunks=tuple(tuple(c) for c in chunks))


def _b_values(shape, k):
    n = int(np.prod(shape))
    return ((np.arange(n, dtype=np.float64) * (k + 2)) % 11 + 0.5 * k).reshape(shape)


def _alt_chunks(chunks):
    """a different chunking of the same shape (whole axes)"""
    return [[sum(c)] if len(c) > 1 else ([c[0] - c[0] // 2, c[0] // 2] if c[0] > 1 else list(c)) for c in chunks]


def build_leaves(sc):
    """the dask leaves of a scenario: fresh generator, `prefix` earlier draws, then a (and a2)"""
    import dask_array as da

    g = _make_gen(sc["kind"], sc["seed"])
    for _ in range(sc.get("prefix", 0)):
        _draw(g, sc["kind"], "normal", [3], [[2, 1]])
    shape, chunks = sc["shape"], sc["chunks"]
    leaves = {"a": _draw(g, sc["kind"], sc["dist"], shape, chunks)}
    if sc.get("two"):
        leaves["a2"] = _draw(g, sc["kind"], sc.get("dist2", sc["dist"]), shape, chunks)
    ch = tuple(tuple(c) for c in chunks)
    leaves["b"] = da.from_array(_b_values(shape, 1), chunks=ch)
    leaves["c"] = da.from_array(_b_values(shape, 2), chunks=tuple(tuple(c) for c in _alt_chunks(chunks)))
    return leaves


def np_leaves(sc, r):
    out = dict(r)
    out["b"] = _b_values(sc["shape"], 1)
    out["c"] = _b_values(sc["shape"], 2)
    return out


def _un(m, fn, u):
    if fn == "exp2c":
        return m.exp2(m.clip(u, -8, 8))
    return getattr(m, fn)(u)


def _bin(m, fn, u, v):
    if fn in _PYOPS:
        return _PYOPS[fn](u, v)
    return getattr(m, fn)(u, v)


def apply_step(st, env, m, da_mode):
    op = st["op"]
    A = [env[n] for n in st["args"]]
    if op == "un":
        return _un(m, st["fn"], A[0])
    if op == "bin":
        return _bin(m, st["fn"], A[0], A[1])
    if op == "binc":
        return _bin(m, st["fn"], A[0], st["c"]) if st.get("side", "r") == "r" else _bin(m, st["fn"], st["c"], A[0])
    if op == "where":
        return m.where(A[0] > st["thr"], A[0], A[1])
    if op == "cat":
        return m.concatenate(A, axis=st["axis"])
    if op == "stack":
        return m.stack(A, axis=st["axis"])
    if op == "red":
        return getattr(m, st["fn"])(A[0], axis=st["axis"], keepdims=True)
    if op == "flip":
        return A[0][tuple(slice(None, None, -1) if i == st["axis"] else slice(None) for i in range(A[0].ndim))]
    if op == "rechunk":
        return A[0].rechunk(tuple(tuple(c) for c in st["chunks"])) if da_mode else A[0]
    if op == "catslice":
        n = A[0].shape[st["axis"]]
        y = m.concatenate(A, axis=st["axis"])
        return y[tuple(slice(n, None) if i == st["axis"] else slice(None) for i in range(y.ndim))]
    raise KeyError(op)


def run_prog(prog, leaves, da_mode):
    import dask_array as da

    env = dict(leaves)
    m = da if da_mode else np
    for st in prog:
        env[st["out"]] = apply_step(st, env, m, da_mode)
    return env


def prune(prog, outs):
    used = set(outs)
    for st in reversed(prog):
        if st["out"] in used:
            used |= set(st["args"])
    return [st for st in prog if st["out"] in used], used


# ---------------------------------------------------------------------------- templates

def _S(out, op, args, **kw):
    return dict({"out": out, "op": op, "args": list(args)}, **kw)


def template(t, o_in, o_out, o_d, un, axis, chunks):
    """program + outputs (computed together when more than one).  d = un(b o_d 1) is the shared chain; y combines the
    random array with (d o_in 3)."""
    d = [_S("d0", "binc", ["b"], fn=o_d, c=1.0), _S("d", "un", ["d0"], fn=un)]
    y = [_S("e", "binc", ["d"], fn=o_in, c=3.0), _S("y", "bin", ["a", "e"], fn=o_out)]
    if t == "T1":  # the seed's shape: second consumer is a concatenate
        return d + y + [_S("w", "cat", ["y", "d"], axis=axis)], ["w"]
    if t == "T2":  # stack; operands the other way round
        y2 = [_S("e", "binc", ["d"], fn=o_in, c=3.0, side="l"), _S("y", "bin", ["e", "a"], fn=o_out)]
        return d + y2 + [_S("w", "stack", ["d", "y"], axis=axis)], ["w"]
    if t == "T3":  # second consumer is a reduction whose result is combined again
        return d + y + [_S("s", "red", ["d"], fn="sum", axis=axis), _S("w", "bin", ["y", "s"], fn="sub")], ["w"]
    if t == "T4":  # two outputs of one dask.compute
        return d + y, ["y", "d"]
    if t == "T5":  # second consumer is a flip / a rechunk combined with y
        return d + y + [_S("f", "flip", ["d"], axis=axis), _S("w", "bin", ["y", "f"], fn="add")], ["w"]
    if t == "T6":
        return d + y + [_S("f", "rechunk", ["d"], chunks=_alt_chunks(chunks)), _S("w", "cat", ["y", "f"], axis=axis)], ["w"]
    if t == "T7":  # both operands of the root are chains: (a o 2) o_out (d o_in 3)
        return d + [_S("e", "binc", ["d"], fn=o_in, c=3.0), _S("p", "binc", ["a"], fn="sub", c=2.0), _S("y", "bin", ["p", "e"], fn=o_out),
                    _S("w", "cat", ["y", "d"], axis=axis)], ["w"]
    if t == "T8":  # two random arrays of one generator, each in a group that receives the shared chain
        return d + y + [_S("e2", "binc", ["d"], fn="mul", c=0.5), _S("z", "bin", ["a2", "e2"], fn="sub"),
                        _S("w", "cat", ["y", "z", "d"], axis=axis)], ["w"]
    if t == "T9":  # the random array is (also) inside the shared chain
        return [_S("d0", "bin", ["a", "b"], fn=o_d), _S("d", "un", ["d0"], fn=un)] + y + [_S("w", "cat", ["y", "d"], axis=axis)], ["w"]
    if t == "T10":  # the random array used twice in its group, the shared chain two levels down
        return d + [_S("e", "binc", ["d"], fn=o_in, c=3.0), _S("q", "bin", ["e", "a"], fn="sub"), _S("p", "binc", ["a"], fn="add", c=1.0),
                    _S("y", "bin", ["p", "q"], fn=o_out), _S("w", "stack", ["y", "d"], axis=axis)], ["w"]
    raise KeyError(t)


TEMPLATES = ("T1", "T2", "T3", "T4", "T5", "T6", "T7", "T8", "T9", "T10")


# ---------------------------------------------------------------------------- random DAGs

def gen_dag(rng, sc):
    for _ in range(6):
        prog, outs = _gen_dag(rng, sc)
        if prog is not None:
            break
    return prog, outs


def _gen_dag(rng, sc):
    rank = len(sc["shape"])
    S = tuple(sc["shape"])
    pool = ["a", "b"] + (["a2"] if sc.get("two") else []) + (["c"] if rng.random() < 0.3 else [])
    shp = {n: S for n in pool}
    prog = []
    k = 0

    def new(op, args, shape, **kw):
        nonlocal k
        k += 1
        st = _S(f"v{k}", op, args, **kw)
        prog.append(st)
        shp[st["out"]] = tuple(shape)
        pool.append(st["out"])
        return st["out"]

    tainted = {"a", "a2"}  # nodes that depend on a random array

    def pick(full=False, det=None):
        # favour recent nodes, but any node may be taken again (sharing); det=True: deterministic nodes only, det=False: nodes
        # that depend on the random array
        cand = [n for n in pool if (not full or shp[n] == S) and (det is None or (n not in tainted) == det)]
        if not cand:
            cand = [n for n in pool if (not full or shp[n] == S)]
        return cand[-1 - min(int(rng.expovariate(0.7)), len(cand) - 1)] if rng.random() < 0.6 else rng.choice(cand)

    def elemwise(det1, det2):
        r = rng.random()
        if r < 0.35:
            u = pick(det=det1)
            o = new("binc", [u], shp[u], fn=rng.choice(BIN_FNS), c=float(rng.choice([0.5, 1.0, 2.0, 3.0, -1.5])), side=rng.choice("lr"))
        elif r < 0.75:
            u, v = pick(det=det1), pick(det=det2)
            if det1 is False and v not in tainted and v not in ("b", "c") and rng.random() < 0.6:
                # the deterministic operand enters through a fresh single-consumer node: the random array and the consumer of the
                # (possibly shared) deterministic chain then sit in sibling branches of one group
                v = new("binc", [v], shp[v], fn=rng.choice(INNER_OPS), c=float(rng.choice([2.0, 3.0, 0.5])), side=rng.choice("lr"))
            if rng.random() < 0.5:
                u, v = v, u
            o = new("bin", [u, v], np.broadcast_shapes(shp[u], shp[v]), fn=rng.choice(BIN_FNS))
        elif r < 0.92:
            u = pick(det=det1)
            o = new("un", [u], shp[u], fn=rng.choice(UN_FNS))
        else:
            u, v = pick(det=det1), pick(det=det2)
            o = new("where", [u, v], np.broadcast_shapes(shp[u], shp[v]), thr=float(rng.choice([0.0, 0.5, 2.0])))
        if any(x in tainted for x in prog[-1]["args"]):
            tainted.add(o)

    def shared_det():
        # deterministic full-shape nodes that are themselves chains (an operand that is not a leaf) and feed, directly or through
        # further deterministic nodes, a node that depends on the random array: as a second consumer's operand such a node becomes
        # a fused group of its own that is substituted into the random array's group
        feeds = set(tainted)
        for st in reversed(prog):
            if st["out"] in feeds:
                feeds |= set(st["args"])
        out = []
        for st in prog:
            n = st["out"]
            if n in tainted or shp[n] != S or n not in feeds:
                continue
            if any(x not in ("a", "a2", "b", "c") for x in st["args"]):
                out.append(n)
        return out

    def barrier():
        r = rng.random()
        sd = shared_det()
        u = rng.choice(sd) if sd and rng.random() < 0.7 else pick(True, det=rng.choice([True, True, None]))
        if r < 0.3:
            o = new("flip", [u], S, axis=rng.randrange(rank))
        elif r < 0.55:
            o = new("rechunk", [u], S, chunks=_alt_chunks(sc["chunks"]))
        elif r < 0.8:
            ax = rng.randrange(rank)
            o = new("red", [u], tuple(1 if i == ax else n for i, n in enumerate(S)), fn=rng.choice(["sum", "max", "mean"]), axis=ax)
        else:
            o = new("catslice", [u, pick(True)], S, axis=rng.randrange(rank))
        if any(x in tainted for x in prog[-1]["args"]):
            tainted.add(o)

    # phases: deterministic chains (candidates for sharing) -> nodes mixing the random array with them -> barriers (second
    # consumers) -> more mixing; within a phase operands are drawn at random
    for _ in range(rng.randint(2, 4)):
        elemwise(True, True)
    motif = None
    if rng.random() < 0.7:
        # seed the motif: the deepest deterministic chain d enters the random array's group through a fresh node e = d o const
        d = [n for n in pool if n not in tainted and n not in ("b", "c") and shp[n] == S][-1]
        e = new("binc", [d], S, fn=rng.choice(INNER_OPS), c=float(rng.choice([2.0, 3.0, 0.5])), side=rng.choice("lr"))
        p = pick(True, det=False)
        y = new("bin", [p, e] if rng.random() < 0.5 else [e, p], S, fn=rng.choice(BIN_FNS))
        tainted.add(y)
        motif = d
    for _ in range(rng.randint(0 if motif else 1, 3)):
        elemwise(False, rng.choice([True, True, None]))
    if motif and rng.random() < 0.5:
        # a barrier over the shared chain, combined with the random array's branch again
        r = rng.random()
        if r < 0.35:
            f = new("flip", [motif], S, axis=rng.randrange(rank))
        elif r < 0.7:
            f = new("rechunk", [motif], S, chunks=_alt_chunks(sc["chunks"]))
        else:
            ax = rng.randrange(rank)
            f = new("red", [motif], tuple(1 if i == ax else n for i, n in enumerate(S)), fn=rng.choice(["sum", "max", "mean"]), axis=ax)
        y = new("bin", [pick(True, det=False), f], S, fn=rng.choice(BIN_FNS))
        tainted.add(y)
        motif = None if rng.random() < 0.6 else motif
    for _ in range(rng.randint(0, 2)):
        barrier()
    for _ in range(rng.randint(0, 3)):
        elemwise(rng.choice([False, None]), None)
    full = [n for n in pool if shp[n] == S and n not in ("a", "a2", "b", "c")]
    deep = [n for n in full if n in tainted]
    if not deep:
        return None, None
    # outputs: a deep node that depends on the random array first; the further ones preferably deterministic chains that feed it
    # (a chain with two consumers, one of them a barrier / a second output, is what makes the fusion pass substitute a group
    # into a group)
    consumed = {a for st in prog for a in st["args"]}
    shared = shared_det() * 2 + [n for n in full if n in consumed]
    n_out = rng.choice([1, 2, 2, 2, 3])
    outs = [deep[-1] if rng.random() < 0.7 else rng.choice(deep)]
    if motif and n_out == 1 and rng.random() < 0.7:
        n_out = 2
    for q in range(n_out - 1):
        o = rng.choice(shared) if shared and rng.random() < 0.8 else rng.choice(full)
        if q == 0 and motif and rng.random() < 0.8:
            o = motif
        if o not in outs:
            outs.append(o)
    how = rng.choice(["cat", "cat", "stack", "stack", "together"]) if len(outs) > 1 else "single"
    if how in ("cat", "stack") and rng.random() < 0.5:
        outs = outs[::-1]
    if how in ("cat", "stack"):
        outs = [new(how, outs, S, axis=rng.randrange(rank))]
    prog, used = prune(prog, outs)
    if "a" not in used:
        return None, None
    return prog, outs


# ---------------------------------------------------------------------------- the check of one scenario

def _same(got, want):
    got, want = np.asarray(got), np.asarray(want)
    if got.shape != want.shape:
        return False
    if got.dtype.kind in "iub" and want.dtype.kind in "iub":
        return bool(np.array_equal(got, want))
    return bool(np.allclose(got, want, rtol=1e-9, atol=1e-12, equal_nan=True))


def _short(a):
    a = np.asarray(a)
    return {"shape": list(a.shape), "head": [float(v) for v in a.ravel()[:6]]}


def _fused_groups(expr):
    """member names (prefix only) of every fused group of an optimised tree, and the Random nodes inside"""
    from dask_array.random._expr import Random

    groups, rnames, seen = [], set(), set()

    def rec(n):
        if n._name in seen:
            return
        seen.add(n._name)
        if isinstance(n, Random):
            rnames.add(n._name)
        inner = getattr(n, "exprs", None)
        if inner:
            groups.append([e._name.rsplit("-", 1)[0] for e in inner])
            for e in inner:
                rec(e)
        for d in n.dependencies():
            rec(d)

    rec(expr)
    return groups, rnames


def check_scenario(ctx, sc, count=True):
    """returns True when the scenario passed"""
    import dask
    import dask_array as da

    case = {"shared_scenario": sc}
    prog, outs = sc["prog"], sc["outs"]

    def fail(sig, what, **kw):
        # the first three failing inputs of a signature are reported, further ones counted
        k = "shared_failing_inputs:" + sig
        ctx.notes[k] = ctx.notes.get(k, 0) + 1
        if ctx.notes[k] <= 3 or not count:
            ctx.fail(sig, {"shared_scenario": dict(sc, **kw)}, what)

    leaves = build_leaves(sc)
    rnames0 = {leaves[n].expr._name for n in ("a", "a2") if n in leaves}
    try:
        r = {n: leaves[n].compute(**SYNC) for n in ("a", "a2") if n in leaves}
    except Exception as e:
        fail("random:compute-raises", "a seeded random array cannot be computed", error=repr(e)[:300])
        return False
    npl = np_leaves(sc, r)
    try:
        with np.errstate(all="ignore"):
            wenv = run_prog(prog, npl, False)
        want = [wenv[o] for o in outs]
    except Exception:
        ctx.notes["shared_numpy_refused"] = ctx.notes.get("shared_numpy_refused", 0) + 1
        return True
    ok_all = True
    for opt in ((True, False) if sc.get("both", True) else (True,)):
        if count:
            ctx.count(("shared", sc["kind"] if not _is_gen(sc["kind"]) else "Generator", sc["dist"], sc.get("template", "dag"), opt))
        err, got, groups, rn = None, None, None, None
        try:
            with dask.config.set({"array.optimize-graph": opt}):
                env = run_prog(prog, leaves, True)
                ys = [env[o] for o in outs]
                got = list(dask.compute(*ys, **SYNC)) if len(ys) > 1 else [ys[0].compute(**SYNC)]
            ok = all(_same(g, w) for g, w in zip(got, want))
        except Exception as e:
            ok, err = False, e
        if ok:
            continue
        # does the randomness matter?  the same program over from_array of the realisation
        try:
            with dask.config.set({"array.optimize-graph": opt}):
                al = dict(leaves)
                for n in r:
                    al[n] = da.from_array(r[n], chunks=leaves[n].chunks)
                env2 = run_prog(prog, al, True)
                ys2 = [env2[o] for o in outs]
                alt = list(dask.compute(*ys2, **SYNC)) if len(ys2) > 1 else [ys2[0].compute(**SYNC)]
            generic = not all(_same(g, w) for g, w in zip(alt, want))
        except Exception:
            generic = True
        if generic:
            ctx.notes["shared_generic_program_defects"] = ctx.notes.get("shared_generic_program_defects", 0) + 1
            if len(ctx.extra.setdefault("shared_generic_program_defect_samples", [])) < 3:
                ctx.extra["shared_generic_program_defect_samples"].append({"scenario": sc, "optimize": opt, "error": repr(err)[:200] if err else None})
            continue
        ok_all = False
        # diagnostics: the fused groups and the Random nodes that are not the ones the program was built from
        try:
            with dask.config.set({"array.optimize-graph": opt}):
                env = run_prog(prog, leaves, True)
                root = env[outs[0]].expr.optimize() if opt else env[outs[0]].expr.lower_completely()
            groups, rn = _fused_groups(root)
            rn = sorted(n.rsplit("-", 1)[0] for n in rn - rnames0)
        except Exception:
            pass
        if err is not None:
            fail("random:shared-intermediate:derived-raises", "a program with a shared intermediate over a random array raises (it computes over from_array of the same values)",
                 optimize=opt, error=repr(err)[:300])
        else:
            i = next(i for i, (g, w) in enumerate(zip(got, want)) if not _same(g, w))
            fail("random:shared-intermediate:derived",
                 "a program with a shared intermediate (a chain with two consumers) over a random array is not computed from the array's realisation"
                 + (" — Random nodes re-created by optimisation: " + ", ".join(rn) if rn else ""),
                 optimize=opt, output=outs[i], got=_short(got[i]), want=_short(want[i]), fused_groups=groups, random_nodes_recreated=rn)
    # the array itself afterwards
    for n in r:
        if not np.array_equal(np.asarray(leaves[n].compute(**SYNC)), r[n], equal_nan=r[n].dtype.kind == "f"):
            fail("random:shared-intermediate:recompute-after", f"{n}.compute() after computing a program derived from it differs from the first realisation", leaf=n)
            ok_all = False
    return ok_all


# ---------------------------------------------------------------------------- streams

def _shape_chunks(rng):
    rank = rng.choice([1, 2, 2, 2, 3])
    shape, chunks = [], []
    for _ in range(rank):
        nb = rng.choice([1, 2, 2, 3] if rank < 3 else [1, 2])
        c = [rng.randint(1, 3) for _ in range(nb)]
        chunks.append(c)
        shape.append(sum(c))
    if int(np.prod(shape)) < 6:  # enough elements that another realisation cannot coincide
        chunks[0] = chunks[0] + [3, 3]
        shape[0] += 6
    return shape, chunks


def search(ctx, kinds_all):
    rng = ctx.rng
    t0 = time.time()
    budget = ctx.scale(8, 45)
    kinds = ["default_rng", "RandomState", "module", rng.choice(["PCG64", "MT19937", "Philox", "SFC64"])]
    # quick: T1 for every (kind, distribution), and 4 of the 9 other templates per pair (rotating, so every template meets every
    # distribution for some kind); thorough: the full product over all seven generator kinds
    others = [t for t in TEMPLATES if t != "T1"]
    cells = []
    for j, (k, d) in enumerate((k, d) for k in kinds for d in S_DISTS):
        off = rng.randrange(len(others))
        cells += [(k, d, "T1")] + [(k, d, others[(off + 2 * j + q) % len(others)]) for q in range(4)]
    if ctx.tier == "thorough":
        cells = [(k, d, t) for k in kinds_all for d in S_DISTS for t in TEMPLATES]
    # the seed's own shape first within every (kind, dist): T1 cells lead, then the rest shuffled
    rng.shuffle(cells)
    cells.sort(key=lambda c: c[2] != "T1")
    done = 0
    rot = rng.randrange(len(INNER_OPS))
    for i, (k, d, t) in enumerate(cells):
        if time.time() - t0 > budget * 0.7:
            ctx.notes["shared_grid_stopped_on_budget_after"] = i
            break
        shape, chunks = _shape_chunks(rng)
        o_in = INNER_OPS[(i + rot) % len(INNER_OPS)] if t != "T1" else ("add" if i % 2 == 0 else INNER_OPS[(i + rot) % len(INNER_OPS)])
        prog, outs = template(t, o_in, rng.choice(("add", "sub", "mul", "maximum", "truediv", "hypot")), rng.choice(("add", "mul")),
                              rng.choice(("sqrt", "tanh", "cos", "abs")), rng.randrange(len(shape)), chunks)
        sc = {"kind": k, "seed": rng.randint(0, 2**31 - 1), "dist": d, "shape": shape, "chunks": chunks, "template": t, "prog": prog, "outs": outs,
              "both": i % 4 == 0}
        if t == "T8":
            sc["two"] = True
            sc["dist2"] = rng.choice(list(S_DISTS))
        if rng.random() < 0.25:
            sc["prefix"] = rng.randint(1, 2)
        if i < 1:
            ctx.sample({"case": {"shared_scenario": sc}})
        _guard(ctx, sc)
        done += 1
    ctx.notes["shared_grid_cells"] = done
    n = ctx.scale(120, 4000)
    m = 0
    for i in range(n):
        if time.time() - t0 > budget:
            ctx.notes["shared_dag_stopped_on_budget_after"] = i
            break
        shape, chunks = _shape_chunks(rng)
        sc = {"kind": rng.choice(kinds_all), "seed": rng.randint(0, 2**31 - 1), "dist": rng.choice(list(S_DISTS)), "shape": shape, "chunks": chunks,
              "two": rng.random() < 0.3, "both": rng.random() < 0.3}
        if rng.random() < 0.25:
            sc["prefix"] = rng.randint(1, 2)
        prog, outs = gen_dag(rng, sc)
        if prog is None:
            continue
        sc["prog"], sc["outs"] = prog, outs
        _guard(ctx, sc)
        m += 1
    ctx.notes["shared_random_dags"] = m


def _guard(ctx, sc):
    import traceback

    try:
        return check_scenario(ctx, sc)
    except Exception as e:
        ctx.fail("random:shared-intermediate:raises", {"shared_scenario": dict(sc, error=repr(e)[:300], traceback=traceback.format_exc()[-1000:])},
                 "building / computing a program with shared intermediates over a seeded random array raises")
        return False


def replay(ctx, case):
    sc = {k: v for k, v in case["shared_scenario"].items()
          if k not in ("error", "traceback", "got", "want", "optimize", "output", "fused_groups", "random_nodes_recreated", "leaf")}
    sc["both"] = True
    _guard(ctx, sc)
