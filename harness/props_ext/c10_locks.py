"""C10 — lock discipline as a schedule property.

`from_array(src, lock=True | <lock object>)` promises that reads of `src` are serialised: that is what makes a source
that cannot be read concurrently (one shared file cursor) give the SAME result under the threaded scheduler as under a
serial one.  Slice / rechunk pushdown produces several FromArray nodes out of one from_array call; all of them must
keep reading under ONE lock.  Likewise `store(..., lock=True | <lock object>)` and the writes into one target.

A case is a JSON dict {"kind": "lock", "lock": "true"|"threading"|"serializable"|"recording"|"false", "shape", "chunks",
"fa": {from_array kwargs}, "views": [[<step>...]...], "combine": "concat"|"sum"|"joint", "optimize": bool, "store": {...}|None}.
steps: ["s", [a,b,c]|None per axis] slice, ["i", k] integer row, ["l", [..]] list of rows, ["rc", chunks] rechunk,
["T"], ["blk", i] x.blocks[i], ["add", c] elementwise.

Per case, three INDEPENDENT observations (none depends on timing to raise an alarm):
  1. static: every lock object found in the tasks of the graph handed to the scheduler — there must be exactly one
     (SerializableLocks are compared by token), and with lock != False every read task must carry it;
  2. recording lock (lock = an object of ours): the source checks on EVERY read that the calling thread holds that
     lock — decided under the serial scheduler already;
  3. reentrancy counter inside the shared-cursor source under the 4-thread scheduler: a read entering while another is
     in flight is an overlap (a reader waits a bounded moment for a second one to come in, so that an overlap that CAN
     happen does happen; with a correct lock nobody can come in and the wait just times out);
plus the result: serial, threaded and NumPy values must agree (the source returns the data at wherever its cursor
points when the read completes, exactly like a seek-then-read file handle).
Signature: `lock-not-shared:<from_array|store>`.
"""
from __future__ import annotations

import threading
import time
import warnings

import numpy as np


class RecordingLock:
    """a lock of ours handed to from_array / store as lock=<object>"""

    def __init__(self):
        self._lock = threading.RLock()
        self.owner = None
        self.depth = 0
        self.acquired = 0

    def acquire(self, *args, **kwargs):
        r = self._lock.acquire(*args, **kwargs)
        if r:
            self.owner = threading.get_ident()
            self.depth += 1
            self.acquired += 1
        return r

    def release(self):
        self.depth -= 1
        if self.depth == 0:
            self.owner = None
        self._lock.release()

    def __enter__(self):
        self.acquire()
        return self

    def __exit__(self, *exc):
        self.release()

    def held_here(self):
        return self.owner == threading.get_ident() and self.depth > 0


class CursorSource:
    """array-like with ONE shared cursor (seek, then read where the cursor points): not safe for concurrent access.
    Bookkeeping uses its own mutex, which does not serialise the accesses themselves."""

    def __init__(self, data, guard=None, waits=2, wait_s=0.08):
        self._data = data
        self.shape = data.shape
        self.dtype = data.dtype
        self.ndim = data.ndim
        self._guard = guard  # RecordingLock every access must hold, or None
        self._cursor = None
        self._cv = threading.Condition(threading.Lock())
        self._active = 0
        self.max_active = 0
        self.accesses = 0
        self.unguarded = 0
        self.probes = 0
        self._waits_left = waits
        self._wait_s = wait_s

    def arm(self, waits):
        self._waits_left = waits
        self.max_active = 0
        self.accesses = 0
        self.unguarded = 0

    def _enter(self, key):
        self._cursor = key  # seek
        if self._guard is not None and not self._guard.held_here():
            self.unguarded += 1
        with self._cv:
            self._active += 1
            self.accesses += 1
            if self._active > self.max_active:
                self.max_active = self._active
            if self._active > 1:
                self._cv.notify_all()
            elif self._waits_left > 0 and self.max_active < 2:
                # give an access that CAN overlap the chance to do so (bounded; never the reason for an alarm)
                self._waits_left -= 1
                self._cv.wait(self._wait_s)

    def _leave(self):
        with self._cv:
            self._active -= 1

    def __getitem__(self, key):
        if self._data[key].size == 0:
            # a metadata probe (x[0:0, ...] while the graph is BUILT, in the calling thread): not a read of the data
            self.probes += 1
            return np.array(self._data[key])
        self._enter(key)
        try:
            return np.array(self._data[self._cursor])  # ... what the cursor points at NOW
        finally:
            self._leave()

    def __setitem__(self, key, value):
        self._enter(key)
        try:
            self._data[self._cursor] = value
        finally:
            self._leave()


# ------------------------------------------------------------------------------------------ views

def _sl(e):
    return slice(None) if e is None else slice(e[0], e[1], e[2])


def apply_steps(x, steps, np_mode=False, chunks=None):
    for st in steps:
        t = st[0]
        if t == "s":
            x = x[tuple(_sl(e) for e in st[1])]
        elif t == "i":
            x = x[st[1]]
        elif t == "l":
            x = x[list(st[1])]
        elif t == "rc":
            if not np_mode:
                x = x.rechunk(tuple(tuple(c) for c in st[1]))
        elif t == "T":
            x = x.T
        elif t == "blk":
            if np_mode:  # block i along the first axis of the ORIGINAL chunking (only ever the first step)
                lo = sum(chunks[0][: st[1]])
                x = x[lo: lo + chunks[0][st[1]]]
            else:
                x = x.blocks[st[1]]
        elif t == "add":
            x = x + st[1]
    return x


def combine(da, views, how):
    if how == "sum":
        out = views[0]
        for i, v in enumerate(views[1:], 1):
            out = out + (100.0 ** i) * v
        return [out]
    if how == "concat":
        return [da.concatenate([v.reshape(-1) if v.ndim != 1 else v for v in views])]
    return list(views)


def combine_np(views, how):
    if how == "sum":
        out = views[0]
        for i, v in enumerate(views[1:], 1):
            out = out + (100.0 ** i) * v
        return [out]
    if how == "concat":
        return [np.concatenate([v.reshape(-1) for v in views])]
    return list(views)


def find_locks(dsk):
    """(lock objects found in the graph, number of tasks that read the source, number of those carrying a lock)"""
    locks = []

    def walk(o, depth=0):
        if depth > 12:
            return
        if hasattr(o, "acquire") and hasattr(o, "release"):
            locks.append(o)
            return
        if isinstance(o, (list, tuple, set, frozenset)):
            for e in o:
                walk(e, depth + 1)
        elif isinstance(o, dict):
            for e in o.values():
                walk(e, depth + 1)
        elif type(o).__name__ == "DataNode":
            walk(getattr(o, "value", None), depth + 1)
        elif hasattr(o, "func") and hasattr(o, "args"):
            walk(o.args, depth + 1)
            walk(getattr(o, "kwargs", None) or {}, depth + 1)
            # fused tasks carry their inner graph as an argument (walked above: dict of tasks)

    for v in dsk.values():
        walk(v)
    return locks


def lock_identity(lk):
    tok = getattr(lk, "token", None)
    return ("token", tok) if tok is not None else ("id", id(lk))


def make_lock(kind):
    if kind == "true":
        return True
    if kind == "false":
        return False
    if kind == "threading":
        return threading.Lock()
    if kind == "serializable":
        from dask.utils import SerializableLock

        return SerializableLock()
    if kind == "recording":
        return RecordingLock()
    raise KeyError(kind)


def source_data(case):
    shape = tuple(case["shape"])
    return (np.arange(int(np.prod(shape)), dtype="f8").reshape(shape) * 3 + 1)


# --------------------------------------------------------------------------------------- run_case

def run_case(ctx, case, count=True):
    """Returns [(signature, detail)] (empty: property holds) or None (construction refused)."""
    import dask
    import dask_array as da

    fails = []
    note = lambda k, n=1: ctx.notes.__setitem__(k, ctx.notes.get(k, 0) + n)
    data = source_data(case)
    pristine = data.copy()
    lock = make_lock(case["lock"])
    guard = lock if isinstance(lock, RecordingLock) else None
    store = case.get("store")
    who = "store" if store else "from_array"
    with dask.config.set({"array.optimize-graph": case["optimize"]}), warnings.catch_warnings():
        warnings.simplefilter("ignore")
        try:
            if store:
                # x (a plain NumPy-backed array, several views of it) stored into ONE shared-cursor target
                src = None
                x = da.from_array(data, chunks=tuple(tuple(c) for c in case["chunks"]))
                views = [apply_steps(x, v) for v in case["views"]]
                tdata = np.full(data.shape, -777.0)
                target = CursorSource(tdata, guard=guard, waits=0)
                regions = [tuple(_sl(e) for e in r) for r in store["regions"]]
                delayed = da.store(views, [target] * len(views), regions=regions, lock=lock, compute=False,
                                   return_stored=store.get("return_stored", False))
                roots = list(delayed) if isinstance(delayed, (list, tuple)) else [delayed]
                want_target = np.full(data.shape, -777.0)
                for v, r in zip(case["views"], regions):
                    want_target[r] = apply_steps(pristine, v, np_mode=True, chunks=case["chunks"])
                want = None
            else:
                src = CursorSource(data, guard=guard, waits=0)
                target = None
                fa = dict(case.get("fa") or {})
                x = da.from_array(src, chunks=tuple(tuple(c) for c in case["chunks"]), lock=lock, **fa)
                views = [apply_steps(x, v) for v in case["views"]]
                roots = combine(da, views, case["combine"])
                want = combine_np([apply_steps(pristine, v, np_mode=True, chunks=case["chunks"]) for v in case["views"]], case["combine"])
        except NotImplementedError:
            note("lock.refused_at_construction")
            return None
        except Exception as e:
            note("lock.construction_raised")
            ex = ctx.notes.setdefault("lock.construction_raised_examples", [])
            if len(ex) < 4:
                ex.append(f"{case['views']} {case.get('fa')}: {type(e).__name__}: {str(e)[:100]}")
            return None
        obj = target if store else src
        # 1. static: the locks in the graph the scheduler gets
        try:
            from harness.props_ext.c10_catalog import joint_graph

            jdsk, _ = joint_graph(roots)
            locks = find_locks(jdsk)
            ids = {lock_identity(lk) for lk in locks}
            note("lock.static_graphs")
            if case["lock"] != "false":
                if len(ids) > 1:
                    fails.append((f"lock-not-shared:{who}", f"the graph of {len(roots)} root(s) over ONE {who}(lock={case['lock']}) source holds {len(ids)} different "
                                  f"lock objects in {len(locks)} places: accesses through different pushed-down views are not mutually exclusive"))
                elif guard is not None and locks and any(lk is not guard for lk in locks):
                    fails.append((f"lock-not-shared:{who}", "the graph holds a lock that is not the lock object passed by the user"))
                elif not locks:
                    note("lock.static_no_lock_found")
            elif locks:
                note("lock.static_lock_with_lock_false")
        except Exception as e:
            note("lock.static_walk_raised")
            ctx.notes.setdefault("lock.static_walk_raised_example", f"{type(e).__name__}: {str(e)[:100]}")

        def reset_target():
            if store:
                tdata[...] = -777.0

        def values_ok(got, label):
            if store:
                if not np.array_equal(tdata, want_target):
                    fails.append((f"lock-not-shared:{who}", f"{label}: the shared-cursor target holds {tdata.ravel()[:8].tolist()} instead of {want_target.ravel()[:8].tolist()}"))
                return
            for g, w in zip(got, want):
                g = np.asarray(g)
                if g.shape != w.shape or not np.array_equal(g, w):
                    fails.append((f"lock-not-shared:{who}", f"{label}: result {g.ravel()[:8].tolist()} differs from NumPy on the wrapped data {w.ravel()[:8].tolist()}"))
                    return

        # 2. serial: values + (recording lock) every access under the user's lock
        try:
            obj.arm(0)
            reset_target()
            got = dask.compute(*roots, scheduler="sync")
            values_ok(got, "serial scheduler")
            if guard is not None:
                if obj.unguarded:
                    fails.append((f"lock-not-shared:{who}", f"serial scheduler: {obj.unguarded} of {obj.accesses} accesses of the source ran WITHOUT holding the lock object "
                                  f"passed as lock= (the lock was acquired {guard.acquired} times)"))
                note("lock.recording_checked_accesses", obj.accesses)
            if count:
                ctx.count()
        except Exception as e:
            note("lock.serial_raised")
            ctx.notes.setdefault("lock.serial_raised_example", f"{case['views']} {case.get('fa')}: {type(e).__name__}: {str(e)[:100]}")
            return fails
        # 3. threads: reentrancy counter (+ values)
        for rep in range(case.get("threads", 1)):
            obj.arm(case.get("waits", 2))
            reset_target()
            try:
                got = dask.compute(*roots, scheduler="threads", num_workers=4)
            except Exception as e:
                got = None
                err = f"{type(e).__name__}: {str(e)[:120]}"
            if case["lock"] == "false":
                note("lock.control_overlap_seen" if obj.max_active > 1 else "lock.control_no_overlap")
                continue
            if obj.max_active > 1:
                fails.append((f"lock-not-shared:{who}", f"4-thread scheduler run {rep}: {obj.max_active} accesses of the lock={case['lock']} source were in flight at once "
                              f"({obj.accesses} accesses in total)"))
            if guard is not None and obj.unguarded:
                fails.append((f"lock-not-shared:{who}", f"4-thread scheduler: {obj.unguarded} accesses without holding the user's lock"))
            if got is None:
                fails.append((f"lock-not-shared:{who}", f"serial compute succeeds, 4-thread compute run {rep} raises {err}"))
            else:
                values_ok(got, f"4-thread scheduler run {rep}")
            if count:
                ctx.count()
        if not np.array_equal(data, pristine):
            fails.append(("mutates-input:from_array", "the data behind the source changed"))
        if count:
            ctx.count(("lock", who, case["lock"], case["combine"], tuple(sorted((case.get("fa") or {}).items())), case["optimize"],
                       tuple(tuple(s[0] for s in v) for v in case["views"])), n=0)
            note("lock.cases")
    # one detail per signature
    out, seen = [], set()
    for sig, d in fails:
        if sig not in seen:
            seen.add(sig)
            out.append((sig, " ;; ".join(dd for s, dd in fails if s == sig)[:900]))
    return out


# ------------------------------------------------------------------------------------- generators

def _split(rng, n, k=None):
    from harness.props_ext.c10_catalog import compose

    return compose(rng, n, max(1, n // 2))


def gen_cases(rng, quick=True):
    """ENUMERATED in every run: lock kind x view family; from_array kwargs / chunkings / bounds drawn"""
    out = []
    kinds = ("true", "recording", "serializable", "threading")

    def fa_kwargs():
        fa = {}
        if rng.random() < 0.3:
            fa["asarray"] = rng.choice((True, False))
        if rng.random() < 0.25:
            fa["fancy"] = False
        if rng.random() < 0.3:
            fa["inline_array"] = True
        if rng.random() < 0.2:
            fa["name"] = f"src{rng.randrange(10**6)}"
        return fa

    def families(n, m):
        h = n // 2
        a = rng.randint(1, h)
        fam = {
            "halves": ([[["s", [[0, h, None], None]]], [["s", [[h, 2 * h, None], None]]]], "sum"),
            "slice+rechunk": ([[["s", [[0, h, None], None]], ["rc", [_split(rng, h), [m]]]], [["s", [[h, 2 * h, None], None]]]], "sum"),
            "rechunk-two-ways": ([[["rc", [_split(rng, n), [m]]]], [["rc", [[n], _split(rng, m)]]]], "sum"),
            "strided": ([[["s", [[0, 2 * h, 2], None]]], [["s", [[1, 2 * h, 2], None]]]], "sum"),
            "columns": ([[["s", [None, [0, m // 2, None]]]], [["s", [None, [m // 2, 2 * (m // 2), None]]]]], "sum"),
            "slice-of-slice": ([[["s", [[1, None, None], None]], ["s", [[0, a, None], None]]], [["s", [[0, a, None], None]]], [["s", [[n - a, n, None], None]]]], "sum"),
            "whole+slice": ([[], [["s", [[0, a, None], None]]]], "concat"),
            "joint-roots": ([[["s", [[0, h, None], None]]], [["s", [[h, n, None], None]]], [["s", [None, [0, 1, None]]]]], "joint"),
            "blocks": ([[["blk", 0]], [["blk", 1]]], "concat"),
            "transposed": ([[["T"], ["s", [None, [0, h, None]]]], [["T"], ["s", [None, [h, 2 * h, None]]]]], "sum"),
            "rows": ([[["i", rng.randrange(n)]], [["i", rng.randrange(-n, 0)]], [["s", [[0, 1, None], None]], ["i", 0]]], "sum"),
            "lists": ([[["l", sorted(rng.sample(range(n), 2))]], [["l", sorted(rng.sample(range(n), 2))]]], "sum"),
            "after-elementwise": ([[["add", 1.0], ["s", [[0, h, None], None]]], [["s", [[h, 2 * h, None], None]], ["add", 1.0]]], "sum"),
        }
        return fam

    names = ["halves", "slice+rechunk", "rechunk-two-ways", "strided", "columns", "slice-of-slice", "whole+slice", "joint-roots", "blocks",
             "transposed", "rows", "lists", "after-elementwise"]
    order = names[:]
    rng.shuffle(order)
    # the pushed-down pair of windows under EVERY lock kind first, then each other family once with a rotating lock kind
    plan = [("halves", k) for k in kinds] + [(nm, kinds[i % len(kinds)]) for i, nm in enumerate(order) if nm != "halves"]
    for nm, kind in plan:
        n, m = 2 * rng.randint(2, 5), rng.randint(2, 5)
        views, comb = families(n, m)[nm]
        if nm == "blocks":
            ch = [[n // 2, n - n // 2], [m]]
        else:
            ch = [_split(rng, n), [m] if rng.random() < 0.6 else _split(rng, m)]
        out.append({"kind": "lock", "family": nm, "lock": kind, "shape": [n, m], "chunks": ch, "fa": fa_kwargs(), "views": views, "combine": comb,
                    "store": None, "threads": 1, "waits": 2 if kind in ("true", "serializable", "threading") else 0})
    # store: several views written into ONE shared-cursor target
    for kind in ("true", "recording"):
        n, m = 2 * rng.randint(2, 4), rng.randint(2, 4)
        h = n // 2
        views = [[["s", [[0, h, None], None]]], [["s", [[h, n, None], None]]]]
        regions = [[[0, h, None], None], [[h, n, None], None]]
        out.append({"kind": "lock", "family": "store", "lock": kind, "shape": [n, m], "chunks": [_split(rng, n), [m]], "fa": {}, "views": views, "combine": "joint",
                    "store": {"regions": regions, "return_stored": False}, "threads": 1, "waits": 2 if kind == "true" else 0})
    # control: without a lock the detector must be able to see overlapping reads (noted, never an alarm)
    n, m = 8, 3
    views, comb = families(n, m)["halves"]
    out.append({"kind": "lock", "family": "control", "lock": "false", "shape": [n, m], "chunks": [[2, 2, 2, 2], [m]], "fa": {}, "views": views, "combine": comb,
                "store": None, "threads": 1, "waits": 2})
    return out


def run(ctx, budget_s):
    t0 = time.time()
    cases = gen_cases(ctx.rng)
    ctx.notes["lock.generated"] = ctx.notes.get("lock.generated", 0) + len(cases)
    sampled = False
    for c in cases:
        if time.time() - t0 > budget_s:
            ctx.notes["lock.stopped_early"] = ctx.notes.get("lock.stopped_early", 0) + 1
            continue
        case = dict(c, optimize=ctx.rng.random() < 0.7)
        fails = run_case(ctx, case)
        if not sampled and fails is not None:
            sampled = True
            ctx.sample({"lock-discipline": c["family"], "lock": c["lock"], "views": c["views"], "chunks": c["chunks"], "fa": c["fa"]})
        for sig, detail in fails or []:
            ctx.fail(sig, case, detail)
