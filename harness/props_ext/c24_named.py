"""C24 extension — sources that share a user-supplied `name=`.

`da.from_array(src, chunks, name="frame")` names the read after the user's string; giving the same string to reads of
DIFFERENT sources is supported (every explicitly named read carries a per-call token; the repository's
test_from_array_exact_name_does_not_reuse_metadata relies on it).  The rewrites that push a slice chain / a rechunk into
the read derive the name of the rebuilt read from the parent's name and the pushed region / chunks only, so two reads of
different data end up with equal derived names.  Whatever the implementation caches or deduplicates by name, each read
must still return the elements of ITS OWN source.

One case = 2-3 sources (same or different shapes / chunks / kinds) wrapped with one name, ONE chain of steps applied to
each, and a HISTORY: the order in which the collections are built, optimized, computed and dropped.  Every compute of
collection i is compared with the same NumPy operations on source i (and, for recording sources, every request is checked
against the bounds).  Collections are always computed one at a time (two same-named reads in one graph share their keys by
construction; that is the user's business, as in dask.array).

Families
  pushed    (reported)  1-3 unit slices (the first one narrowing every source), optionally followed by rechunks / further
                        slices on sources without a storage grid: the whole chain is absorbed into the read.
  control   (reported)  nothing pushed: the bare read, an elementwise op, a transpose, a stepped slice, a reduction.
  probe:*   (reported)  chains that leave an expression ABOVE a same-named read (rechunk of the bare read, an integer
                        index, an op over a pushed slice, a rechunk over a pushed slice of a source with a storage grid):
                        before /repo b639cae these returned the first source's elements (signature
                        `from_array-named:above-read:values:elements-of-another-source`, recorded as fixed); they are
                        reported like the other families (VERIF_C24_NAMED_PROBES=0 turns them back into notes).
"""
from __future__ import annotations

import gc
import os

import numpy as np

from harness import gen

REPORT_PROBES = os.environ.get("VERIF_C24_NAMED_PROBES", "1") != "0"
SPACING = 100003  # value ranges of the sources of one case are disjoint

HISTORIES = {
    # the first collection is still alive (with whatever it cached) when the second is built / optimized / computed
    "seq": [["build", 0], ["compute", 0], ["build", 1], ["compute", 1]],
    "seq-again": [["build", 0], ["compute", 0], ["build", 1], ["compute", 1], ["compute", 0], ["compute", 1]],
    "both-01": [["build", 0], ["build", 1], ["compute", 0], ["compute", 1]],
    "both-10": [["build", 0], ["build", 1], ["compute", 1], ["compute", 0]],
    "opt-first": [["build", 0], ["optimize", 0], ["build", 1], ["compute", 1], ["compute", 0]],
    "opt-both": [["build", 0], ["build", 1], ["optimize", 0], ["optimize", 1], ["compute", 1], ["compute", 0]],
    "rebuild": [["build", 0], ["compute", 0], ["build", 1], ["compute", 1], ["build", 0], ["compute", 0]],
    # control: the first collection is gone before the second exists
    "dropped": [["build", 0], ["compute", 0], ["drop", 0], ["build", 1], ["compute", 1]],
    # three sources, one name
    "three": [["build", 0], ["compute", 0], ["build", 1], ["compute", 1], ["build", 2], ["compute", 2], ["compute", 0]],
    "three-rev": [["build", 0], ["build", 1], ["build", 2], ["compute", 2], ["compute", 1], ["compute", 0]],
}

KINDS = ("numpy", "numpy-region", "rec", "grid", "mixed")


# --------------------------------------------------------------------------- generation

def _first_slice(rng, mins):
    """unit slices, narrowing EVERY source on at least one axis (start >= 1 there)"""
    nd = len(mins)
    must = rng.randrange(nd)
    idx = []
    for k, m in enumerate(mins):
        if k == must or rng.random() < 0.5:
            a = rng.randint(1, max(1, m - 2)) if k == must else rng.randint(0, m - 1)
            b = rng.randint(a + 1, m)
            stop = None if (b == m and rng.random() < 0.3) else (b - m if (b < m and rng.random() < 0.2) else b)
            idx.append(["s", a if (a or rng.random() < 0.5) else None, stop, rng.choice([None, None, 1])])
        else:
            idx.append(["s", None, None, None])
    while idx and idx[-1] == ["s", None, None, None] and rng.random() < 0.5:
        idx.pop()
    return {"op": "index", "idx": idx}


def _next_slice(rng, mins):
    idx = []
    for m in mins:
        if m >= 1 and rng.random() < 0.7:
            a = rng.randint(0, m - 1)
            b = rng.randint(a + 1, m)
            idx.append(["s", a if (a or rng.random() < 0.5) else None, None if (b == m and rng.random() < 0.3) else b, None])
        else:
            idx.append(["s", None, None, None])
    return {"op": "index", "idx": idx}


def _rechunk(rng, mins):
    if rng.random() < 0.4:
        return {"op": "rechunk", "chunks": rng.randint(1, max(1, max(mins)))}
    return {"op": "rechunk", "chunks": [rng.randint(1, max(1, m)) for m in mins]}


def _apply_np(ref, st):
    from harness.props.C24 import dec_index

    op = st["op"]
    if op == "index":
        return ref[tuple(np.asarray(i) if isinstance(i, list) else i for i in dec_index(st["idx"]))]
    if op == "transpose":
        return ref.transpose(st["axes"])
    if op == "add":
        return ref + st["k"]
    if op == "sum":
        return ref.sum(axis=st["axis"])
    return ref  # rechunk


def _apply_da(y, st):
    from harness.props.C24 import dec_index

    op = st["op"]
    if op == "index":
        return y[dec_index(st["idx"])]
    if op == "rechunk":
        c = st["chunks"]
        return y.rechunk(tuple(c) if isinstance(c, list) else c)
    if op == "transpose":
        return y.transpose(st["axes"])
    if op == "add":
        return y + st["k"]
    if op == "sum":
        return y.sum(axis=st["axis"])
    raise KeyError(op)


def _mins(shapes, steps):
    """per-axis minimum over the sources of the shape after `steps`"""
    cur = []
    for s in shapes:
        r = np.zeros(s, dtype="i1")
        for st in steps:
            r = _apply_np(r, st)
        cur.append(r.shape)
    return [min(c[k] for c in cur) for k in range(len(cur[0]))]


def family_ok(case):
    """is the chain still inside its family's grammar?  (the shrinker must not leave it: a rechunk of the bare read, or an
    expression above the pushed read, belongs to the probe families)"""
    fam = case["family"]
    steps = case["steps"]
    if fam == "control":
        return True
    if fam != "pushed":
        return True
    if not steps or steps[0]["op"] != "index":
        return False
    shapes = [s["shape"] for s in case["sources"]]
    first = steps[0]["idx"]
    narrowing = False
    for k, e in enumerate(first):
        if not (isinstance(e, list) and e[0] == "s" and e[3] in (None, 1)):
            return False
        if e[1] is not None and e[1] >= 1 and all(e[1] < s[k] for s in shapes):
            narrowing = True
    if not narrowing:
        return False
    for st in steps:
        if st["op"] not in ("index", "rechunk"):
            return False
        if st["op"] == "index" and not all(isinstance(e, list) and e[0] == "s" and e[3] in (None, 1) for e in st["idx"]):
            return False
        if st["op"] == "rechunk" and any(s["kind"] == "grid" for s in case["sources"]):
            return False
    try:
        return all(m >= 1 for m in _mins(shapes, steps))
    except Exception:  # noqa: BLE001
        return False


def gen_named_case(rng, family, kind, history):
    nsrc = 1 + max(i for _, i in HISTORIES[history])
    rank = rng.choice([1, 2, 2, 3])
    shape0 = [rng.randint(4, 10) for _ in range(rank)]
    same_shape = rng.random() < 0.6
    sources = []
    for i in range(nsrc):
        shape = list(shape0) if (same_shape or i == 0) else [max(3, n + rng.randint(-2, 3)) for n in shape0]
        if kind == "mixed":
            k = ("numpy", "rec")[(i + rng.randint(0, 1)) % 2] if i else rng.choice(["numpy", "rec"])
        else:
            k = "numpy" if kind.startswith("numpy") else kind
        if i and same_shape and rng.random() < 0.5:
            chunks = [list(c) for c in sources[0]["chunks"]]
        else:
            chunks = [list(gen.rand_chunks(rng, n, maxparts=4)) for n in shape]
        sources.append({"kind": k, "shape": shape, "chunks": chunks,
                        "grid": [rng.choice([1, 2, 3, max(1, n // 2)]) for n in shape] if k == "grid" else None, "salt": i + 1})
    shapes = [s["shape"] for s in sources]
    steps = []
    if family == "pushed":
        steps.append(_first_slice(rng, _mins(shapes, steps)))
        tail = rng.choice(["", "s", "ss", "r", "sr", "rs", "srs", "rr", "rsr"] if kind != "grid" else ["", "s", "ss"])
        for t in tail:
            mins = _mins(shapes, steps)
            if min(mins) < 1:
                break
            steps.append(_next_slice(rng, mins) if t == "s" else _rechunk(rng, mins))
    elif family == "control":
        v = rng.choice(["none", "add", "transpose", "stepped", "sum"])
        if v == "add":
            steps.append({"op": "add", "k": rng.randint(1, 9)})
        elif v == "transpose" and rank > 1:
            steps.append({"op": "transpose", "axes": list(range(rank))[::-1]})
        elif v == "stepped":
            steps.append({"op": "index", "idx": [["s", None, None, rng.choice([2, 3, -1])]]})
        elif v == "sum":
            steps.append({"op": "sum", "axis": rng.randrange(rank)})
    elif family == "probe:root-rechunk":
        steps.append(_rechunk(rng, _mins(shapes, steps)))
    elif family == "probe:int-index":
        mins = _mins(shapes, steps)
        idx = [["s", None, None, None] for _ in mins]
        idx[rng.randrange(rank)] = rng.randint(0, min(mins) - 1)
        if rank == 1:
            steps.append(_first_slice(rng, mins))
            idx = [0]
        steps.append({"op": "index", "idx": idx})
    elif family == "probe:op-over-slice":
        steps.append(_first_slice(rng, _mins(shapes, steps)))
        steps.append({"op": "add", "k": rng.randint(1, 9)})
    elif family == "probe:grid-slice-rechunk":
        steps.append(_first_slice(rng, _mins(shapes, steps)))
        steps.append(_rechunk(rng, _mins(shapes, steps)))
    return {
        "stream": "named", "family": family, "name": f"vnamed-{rng.getrandbits(48):012x}", "sources": sources, "steps": steps,
        "history": history, "events": [list(e) for e in HISTORIES[history]],
        "np_limit": 0 if kind == "numpy-region" else None, "optimize": True,
        "inline_array": rng.random() < 0.15,
    }


# --------------------------------------------------------------------------- evaluation

def _source_data(src):
    shape = tuple(src["shape"])
    return (np.arange(int(np.prod(shape)), dtype=np.int64) * 3 + 7).reshape(shape) + src["salt"] * SPACING


def _whose(values, sources):
    """indices of the sources whose value range contains every element of `values`"""
    out = []
    v = np.asarray(values).reshape(-1)
    if v.size == 0:
        return out
    for j, s in enumerate(sources):
        lo = s["salt"] * SPACING
        hi = lo + 3 * int(np.prod(s["shape"])) + 7 + 64  # + room for an elementwise constant
        if ((v >= lo) & (v < hi)).all():
            out.append(j)
    return out


def run_named_case(case):
    """Returns (signature or None, details)."""
    import dask
    import dask_array as da
    from harness.props.C24 import RecSource, np_limit

    srcs, arrs = [], []
    for s in case["sources"]:
        arr = _source_data(s)
        if s["kind"] == "numpy":
            srcs.append(arr.copy())
        else:
            srcs.append(RecSource(arr, grid=tuple(s["grid"]) if s.get("grid") else None))
        arrs.append(arr)
    kw = {"inline_array": True} if case.get("inline_array") else {}
    live = {}
    held = []
    computes = 0
    with np_limit(case.get("np_limit")), dask.config.set({"array.optimize-graph": bool(case.get("optimize", True))}):
        for pos, (ev, i) in enumerate(case["events"]):
            s = case["sources"][i]
            try:
                if ev == "build":
                    y = da.from_array(srcs[i], chunks=tuple(tuple(c) for c in s["chunks"]), name=case["name"], **kw)
                    for st in case["steps"]:
                        y = _apply_da(y, st)
                    live[i] = y
                elif ev == "optimize":
                    held.append(live[i].optimize())
                elif ev == "drop":
                    live.pop(i, None)
                    y = None
                    gc.collect()
                elif ev == "compute":
                    ref = arrs[i]
                    for st in case["steps"]:
                        ref = _apply_np(ref, st)
                    y = live[i]
                    meta_shape = tuple(y.shape)
                    got = np.asarray(y.compute(scheduler="sync"))
                    computes += 1
                    det = {"event": pos, "source": i, "history": case.get("history")}
                    bad = list(getattr(srcs[i], "bad", []))
                    if bad:
                        return "read-out-of-bounds", dict(det, requests=bad[:5])
                    if got.shape != ref.shape or not np.array_equal(got, ref):
                        det.update(got=got.tolist() if got.size <= 64 else str(got.shape),
                                   want=ref.tolist() if ref.size <= 64 else str(ref.shape))
                        others = [j for j in _whose(got, case["sources"]) if j != i]
                        if others and i not in _whose(got, case["sources"]):
                            return "values:elements-of-another-source", dict(det, elements_of_source=others[0])
                        return "values", det
                    if meta_shape != ref.shape:
                        return "advertised-shape", dict(det, shape=meta_shape, want=ref.shape)
            except NotImplementedError as e:
                return None, {"refused": repr(e)}
            except Exception as e:  # noqa: BLE001
                return f"raises:{type(e).__name__}", {"error": repr(e)[:300], "event": pos, "source": i}
    live.clear()
    del held[:]
    return None, {"computes": computes}


def shrink_named(case, sig, budget=40):
    best, tries = case, 0

    def still(c):
        nonlocal tries
        if not family_ok(c):
            return False
        tries += 1
        try:
            return run_named_case(c)[0] == sig
        except Exception:  # noqa: BLE001
            return False

    def fresh(c):
        # another name: nothing cached for the previous attempt can play a role
        return dict(c, name=f"{case['name']}-s{tries}")

    changed = True
    while changed and tries < budget:
        changed = False
        for i in range(len(best["steps"]) - 1, -1, -1):
            c = fresh(dict(best, steps=best["steps"][:i] + best["steps"][i + 1:]))
            if still(c):
                best, changed = c, True
                break
        if changed:
            continue
        if best.get("history") != "seq" and len(best["sources"]) >= 2:
            c = fresh(dict(best, history="seq", events=[list(e) for e in HISTORIES["seq"]], sources=best["sources"][:2]))
            if still(c):
                best, changed = c, True
                continue
        for k, v in (("inline_array", False), ("np_limit", None)):
            if best.get(k) != v:
                c = fresh(dict(best, **{k: v}))
                if still(c):
                    best, changed = c, True
                    break
        if changed:
            continue
        if any(s["kind"] != "numpy" for s in best["sources"]):
            c = fresh(dict(best, sources=[dict(s, kind="numpy", grid=None) for s in best["sources"]]))
            if still(c):
                best, changed = c, True
                continue
        if any(s["shape"] != best["sources"][0]["shape"] or s["chunks"] != best["sources"][0]["chunks"] for s in best["sources"]):
            s0 = best["sources"][0]
            c = fresh(dict(best, sources=[dict(s, shape=list(s0["shape"]), chunks=[list(x) for x in s0["chunks"]], grid=s0["grid"] if s["kind"] == "grid" else None)
                                          for s in best["sources"]]))
            if still(c):
                best, changed = c, True
                continue
    return best


PROBES = ("probe:root-rechunk", "probe:int-index", "probe:op-over-slice", "probe:grid-slice-rechunk")


def named_search(ctx, prefix="from_array-named"):
    """family x source kinds x history as a grid; shapes / chunks / chains / same-or-different shapes seeded"""
    rng = ctx.rng
    rounds = ctx.scale(2, 12)
    done = 0
    per_sig = {}
    shrunk = set()
    t0 = ctx.elapsed()
    for rd in range(rounds):
        for history in HISTORIES:
            for kind in KINDS:
                for family in ("pushed", "pushed", "control") if rd % 2 == 0 else ("pushed",):
                    case = gen_named_case(rng, family, kind, history)
                    if not family_ok(case):
                        continue
                    sig, det = run_named_case(case)
                    done += 1
                    ops = "".join(st["op"][0] for st in case["steps"])
                    shapes = {tuple(s["shape"]) for s in case["sources"]}
                    ctx.count(("named", family, kind, history, ops, len(shapes) > 1, case["np_limit"], "refused" in det))
                    if done % 53 == 0:
                        ctx.sample({"program": case, "outcome": sig or "ok"})
                    if sig is not None:
                        per_sig[sig] = per_sig.get(sig, 0) + 1
                        if per_sig[sig] > 6:
                            continue
                        small = shrink_named(case, sig) if sig not in shrunk else case
                        shrunk.add(sig)
                        s2, d2 = run_named_case(small)
                        if s2 != sig:
                            small, d2 = case, det
                        ctx.fail(f"{prefix}:{sig}", {"kind": "program", "program": small, "details": d2},
                                 "two different sources wrapped by from_array under the same name=: a read (slice chain / rechunk pushed "
                                 "into the read) of one of them does not return the elements NumPy indexing of its own source returns")
    # chains that leave an expression above a same-named read: already wrong on the unchanged tree (see module docstring)
    probe = {}
    for family in PROBES:
        for history in ("seq", "both-10"):
            kind = "grid" if family == "probe:grid-slice-rechunk" else rng.choice(["numpy", "rec"])
            case = gen_named_case(rng, family, kind, history)
            sig, det = run_named_case(case)
            ctx.count(("named-probe", family, history, sig))
            row = probe.setdefault(family, {"programs": 0, "wrong": 0, "signature": None, "example": None})
            row["programs"] += 1
            if sig is not None:
                row["wrong"] += 1
                row["signature"] = f"{prefix}:above-read:{sig}"
                if row["example"] is None:
                    row["example"] = {"name": case["name"], "sources": case["sources"], "steps": case["steps"], "events": case["events"]}
                if REPORT_PROBES:
                    ctx.fail(f"{prefix}:above-read:{sig}", {"kind": "program", "program": case, "details": det},
                             "same-named sources: an expression above a same-named read returns another source's elements")
    ctx.notes["named_programs"] = done
    ctx.notes["named_wall"] = round(ctx.elapsed() - t0, 2)
    ctx.notes["named_probe(expression above a same-named read; not reported as failures)"] = probe
    if per_sig:
        ctx.notes["named_failures_by_signature"] = dict(per_sig)
