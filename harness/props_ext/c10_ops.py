"""Operation table of the C10 catalogue: OPS[name] = {"da": f(da, A, kw, extra) -> array(s), "np": g(P, kw) | None}.

A: list of dask arrays (already passed through the case's `pre` stage), P: list of pristine NumPy arrays,
kw: JSON-able keyword dict (lists stand for tuples where the API wants tuples).  `extra` is a dict an
operation may fill: "allowed" (predicate exempting values the operation is MEANT to write, i.e. store targets),
"post" (callable(pristine) -> [(kind, detail)] run after all computes).
"""
from __future__ import annotations

import numpy as np

try:
    import bottleneck as bn
except Exception:  # pragma: no cover
    bn = None

OPS = {}


def _t(v):
    return tuple(_t(e) for e in v) if isinstance(v, list) else v


def reg(name, daf, npf=None):
    OPS[name] = {"da": daf, "np": npf}


def same_name(name, nargs=1, tuple_kw=("axis", "axes", "shape", "reps", "newshape", "source", "destination", "s"),
              np_drop=("split_every",), np_name=None, method=False):
    """an operation spelled identically in dask_array and NumPy"""

    def conv(kw):
        return {k: (_t(v) if k in tuple_kw else v) for k, v in kw.items()}

    def daf(da, A, kw, extra):
        if method:
            return getattr(A[0], name)(*A[1:nargs], **conv(kw))
        return getattr(da, name)(*A[:nargs], **conv(kw))

    def npf(P, kw):
        kw = {k: v for k, v in conv(kw).items() if k not in np_drop}
        return getattr(np, np_name or name)(*P[:nargs], **kw)

    reg(name, daf, npf)


# ------------------------------------------------------------------ order statistics
for _n in ("quantile", "nanquantile"):
    def _mk(n):
        def daf(da, A, kw, extra):
            kw = dict(kw)
            q = kw.pop("q")
            if "axis" in kw:
                kw["axis"] = _t(kw["axis"])
            if kw.pop("weights", False):
                kw["weights"] = da.ones_like(A[0], dtype="f8") if kw.get("wdask") else np.ones(A[0].shape)
            kw.pop("wdask", None)
            return getattr(da, n)(A[0], q, **kw)

        def npf(P, kw):
            kw = dict(kw)
            q = kw.pop("q")
            if "axis" in kw:
                kw["axis"] = _t(kw["axis"])
            if kw.pop("weights", False):
                kw["weights"] = np.ones(P[0].shape)
            kw.pop("wdask", None)
            return getattr(np, n)(P[0], q, **kw)

        reg(n, daf, npf)

    _mk(_n)

for _n in ("median", "nanmedian"):
    same_name(_n)


def _percentile(n):
    def daf(da, A, kw, extra):
        kw = dict(kw)
        q = kw.pop("q")
        return getattr(da, n)(A[0], q, **kw)

    def npf(P, kw):
        kw = dict(kw)
        q = kw.pop("q")
        if kw.pop("internal_method", "default") != "default" or len(P[0]) > 0:
            # dask's percentile is approximate across chunks unless the array is one chunk: no oracle
            return None
        return getattr(np, n)(P[0], q, **kw)

    reg(n, daf, npf)


_percentile("percentile")
_percentile("nanpercentile")


def _topk_np(P, kw):
    k, axis = kw["k"], kw.get("axis", -1)
    s = np.sort(P[0], axis=axis)
    if k > 0:
        return np.flip(np.take(s, range(s.shape[axis] - min(k, s.shape[axis]), s.shape[axis]), axis=axis), axis)
    return np.take(s, range(0, min(-k, s.shape[axis])), axis=axis)


reg("topk", lambda da, A, kw, extra: da.topk(A[0], **kw), _topk_np)
reg("argtopk", lambda da, A, kw, extra: da.argtopk(A[0], **kw), None)
reg("topk_method", lambda da, A, kw, extra: A[0].topk(**kw), _topk_np)

# ------------------------------------------------------------------ reductions
REDUCTIONS = ("sum", "prod", "min", "max", "any", "all", "nansum", "nanprod", "nanmin", "nanmax", "mean", "nanmean",
              "var", "nanvar", "std", "nanstd", "argmax", "argmin", "nanargmax", "nanargmin", "ptp", "count_nonzero")
for _n in REDUCTIONS:
    same_name(_n)


def _moment_np(P, kw):
    a = P[0].astype("f8")
    ax = _t(kw.get("axis"))
    mu = a.mean(axis=ax, keepdims=True)
    n = a.size if ax is None else np.prod([a.shape[i] for i in (ax if isinstance(ax, tuple) else (ax,))])
    order = kw["order"]
    if order in (0, 1):
        return None
    return ((a - mu) ** order).sum(axis=ax, keepdims=kw.get("keepdims", False)) / (n - kw.get("ddof", 0))


reg("moment", lambda da, A, kw, extra: da.moment(A[0], **{k: (_t(v) if k == "axis" else v) for k, v in kw.items()}), _moment_np)


def _average(da, A, kw, extra):
    kw = dict(kw)
    w = kw.pop("weights", None)
    if w == "dask":
        kw["weights"] = abs(A[1]) + 1
    elif w == "numpy":
        kw["weights"] = np.arange(1, A[0].shape[kw["axis"]] + 1, dtype="f8")
    return da.average(A[0], **kw)


def _average_np(P, kw):
    kw = dict(kw)
    w = kw.pop("weights", None)
    if w == "dask":
        kw["weights"] = abs(P[1]) + 1
    elif w == "numpy":
        kw["weights"] = np.arange(1, P[0].shape[kw["axis"]] + 1, dtype="f8")
    return np.average(P[0], **kw)


reg("average", _average, _average_np)
same_name("trace", tuple_kw=())


def _reduce_out(da, A, kw, extra):
    """reduction(..., out=<dask array>): the out collection is rebound"""
    kw = dict(kw)
    fn = kw.pop("fn")
    res = getattr(da, fn)(A[0], **{k: _t(v) if k == "axis" else v for k, v in kw.items()})
    o = da.from_array(np.zeros(res.shape, dtype=res.dtype), chunks=res.chunks)
    r2 = getattr(da, fn)(A[0], out=o, **{k: _t(v) if k == "axis" else v for k, v in kw.items()})
    return [o, res]


def _reduce_out_np(P, kw):
    kw = dict(kw)
    fn = kw.pop("fn")
    r = getattr(np, fn)(P[0], **{k: _t(v) if k == "axis" else v for k, v in kw.items() if k != "split_every"})
    return [r, r]


reg("reduction_out", _reduce_out, _reduce_out_np)


def _custom_reduction(da, A, kw, extra):
    return da.reduction(A[0], np.sum if kw["fn"] == "sum" else np.max, np.sum if kw["fn"] == "sum" else np.max,
                        axis=_t(kw.get("axis")), keepdims=kw.get("keepdims", False), dtype=A[0].dtype,
                        split_every=kw.get("split_every"), concatenate=kw.get("concatenate", True))


reg("reduction_custom", _custom_reduction,
    lambda P, kw: getattr(np, kw["fn"])(P[0], axis=_t(kw.get("axis")), keepdims=kw.get("keepdims", False)) if kw.get("concatenate", True) else None)

# ------------------------------------------------------------------ cumulative
for _n in ("cumsum", "cumprod", "nancumsum", "nancumprod"):
    same_name(_n, np_drop=("method",))
reg("cumsum_method", lambda da, A, kw, extra: A[0].cumsum(**kw), lambda P, kw: P[0].cumsum(**{k: v for k, v in kw.items() if k != "method"}))


def _cumreduction(da, A, kw, extra):
    f, b, i = {"add": (np.cumsum, np.add, 0), "maximum": (np.maximum.accumulate, np.maximum, -np.inf),
               "minimum": (np.minimum.accumulate, np.minimum, np.inf)}[kw["fn"]]
    return da.cumreduction(f, b, i, A[0], axis=kw["axis"], dtype=A[0].dtype, method=kw.get("method", "sequential"))


reg("cumreduction", _cumreduction,
    lambda P, kw: {"add": np.cumsum, "maximum": np.maximum.accumulate, "minimum": np.minimum.accumulate}[kw["fn"]](P[0], axis=kw["axis"]))

# ------------------------------------------------------------------ moving windows


def _move(da, A, kw, extra):
    x = A[0]
    f = getattr(bn, kw["fn"])
    w, axis = kw["window"], kw.get("axis", -1)
    ax = axis % x.ndim
    call = {"window": w}
    if "axis" in kw:
        call["axis"] = axis
    if "min_count" in kw:
        call["min_count"] = kw["min_count"]
    if "ddof" in kw:
        call["ddof"] = kw["ddof"]
    dt = kw.get("dtype", "f8" if x.dtype.kind != "f" else str(x.dtype))
    # exactly xarray's dask rolling call (dask_rolling_wrapper): depth keyed by the normalised axis
    return x.map_overlap(f, depth={ax: (w - 1, 0)}, dtype=dt, **call)


def _move_np(P, kw):
    call = {k: kw[k] for k in ("min_count", "ddof") if k in kw}
    return getattr(bn, kw["fn"])(P[0].astype("f8") if P[0].dtype.kind != "f" else P[0], kw["window"], axis=kw.get("axis", -1), **call)


reg("bn.move", _move, _move_np)
for _f in ("move_sum", "move_mean", "move_min", "move_max", "move_std", "move_var", "move_median", "move_rank",
           "move_argmin", "move_argmax"):
    def _mk(f):
        reg(f"bn.{f}", lambda da, A, kw, extra: _move(da, A, dict(kw, fn=f), extra), lambda P, kw: _move_np(P, dict(kw, fn=f)))

    _mk(_f)

reg("push", lambda da, A, kw, extra: da.push(A[0], kw["n"], kw["axis"]),
    lambda P, kw: bn.push(P[0], n=kw["n"], axis=kw["axis"]))

def _smooth(b, axis=0):
    return b + np.roll(b, 1, axis) + np.roll(b, -1, axis)


def _cummax(b, axis=0):
    return np.maximum.accumulate(b, axis=axis)


def _map_overlap(da, A, kw, extra):
    f = {"smooth": _smooth, "cummax": _cummax}[kw["fn"]]
    depth = kw["depth"]
    depth = {int(k): _t(v) for k, v in depth.items()} if isinstance(depth, dict) else depth
    b = kw.get("boundary")
    b = {int(k): v for k, v in b.items()} if isinstance(b, dict) else b
    call = dict(depth=depth, boundary=b, trim=kw.get("trim", True), dtype=A[0].dtype, axis=kw.get("axis", 0))
    if kw.get("api") == "module":
        return da.map_overlap(f, A[0], **call)
    return A[0].map_overlap(f, **call)


reg("map_overlap", _map_overlap, None)


def _swv(da, A, kw, extra):
    v = da.sliding_window_view(A[0], _t(kw["window"]), axis=_t(kw.get("axis")))
    red = kw.get("reduce")
    if red is None:
        return v
    nax = 1 if not isinstance(kw["window"], list) else len(kw["window"])
    return getattr(da, red)(v, axis=tuple(range(-nax, 0)))


def _swv_np(P, kw):
    v = np.lib.stride_tricks.sliding_window_view(P[0], _t(kw["window"]), axis=_t(kw.get("axis")))
    red = kw.get("reduce")
    if red is None:
        return v
    nax = 1 if not isinstance(kw["window"], list) else len(kw["window"])
    return getattr(np, red)(v, axis=tuple(range(-nax, 0)))


reg("sliding_window_view", _swv, _swv_np)
same_name("diff", tuple_kw=())
reg("gradient", lambda da, A, kw, extra: da.gradient(A[0], axis=kw["axis"]), lambda P, kw: np.gradient(P[0], axis=kw["axis"]))
reg("coarsen", lambda da, A, kw, extra: da.coarsen(getattr(np, kw["fn"]), A[0], {int(k): v for k, v in kw["axes"].items()}, trim_excess=True), None)

# ------------------------------------------------------------------ ufuncs with out= / where=, in-place spellings


def _ufunc_out(da, A, kw, extra):
    uf = getattr(da, kw["uf"])
    nin = kw.get("nin", 2)
    args = A[:nin]
    tgt = kw.get("out", "fresh")
    if tgt == "fresh":
        o = da.from_array(np.zeros(A[0].shape, dtype=kw.get("odtype", "f8")), chunks=A[0].chunks)
    elif tgt == "src_last":
        o = A[-1]
    else:  # the first input itself
        o = A[0]
    call = {"out": o}
    w = kw.get("where")
    if w == "dask":
        call["where"] = A[0] > 0
    elif w == "numpy":
        call["where"] = np.arange(A[0].size).reshape(A[0].shape) % 2 == 0
    elif w == "scalar":
        call["where"] = True
    r = uf(*args, **call)
    return [o, r] if r is not o else [o]


def _ufunc_out_np(P, kw):
    if kw.get("where") in ("dask", "numpy") and kw.get("out", "fresh") == "fresh":
        return None  # unwritten positions of a fresh `out` are unspecified
    uf = getattr(np, kw["uf"])
    nin = kw.get("nin", 2)
    tgt = kw.get("out", "fresh")
    o = np.zeros(P[0].shape, dtype=kw.get("odtype", "f8")) if tgt == "fresh" else (P[-1] if tgt == "src_last" else P[0])
    o = o.copy()
    call = {"out": o, "casting": "unsafe"}
    w = kw.get("where")
    if w == "dask":
        call["where"] = P[0] > 0
    elif w == "numpy":
        call["where"] = np.arange(P[0].size).reshape(P[0].shape) % 2 == 0
    uf(*[p.copy() for p in P[:nin]], **call)
    return [o, o]


reg("ufunc_out", _ufunc_out, None)


def _inplace_operator(da, A, kw, extra):
    """y = f(x) built BEFORE x is 'modified in place': y and the source must not notice"""
    x = A[0]
    before = x + 1 if x.dtype.kind != "b" else ~x
    alias = x
    o = kw["operator"]
    if o == "iadd":
        x += A[1] if len(A) > 1 else 3
    elif o == "imul":
        x *= 2
    elif o == "isub":
        x -= 1
    elif o == "setitem_mask":
        x[x > 0] = kw.get("value", 0)
    elif o == "setitem_slice":
        x[1:] = kw.get("value", 0)
    elif o == "ufunc_out_self":
        da.negative(x, out=x)
    return [x, before, alias]


reg("inplace_operator", _inplace_operator, None)


def _clip(da, A, kw, extra):
    lo, hi = kw.get("min"), kw.get("max")
    if kw.get("api") == "method":
        return A[0].clip(lo, hi)
    return da.clip(A[0], lo, hi)


reg("clip", _clip, lambda P, kw: np.clip(P[0], kw.get("min"), kw.get("max")))
reg("round", lambda da, A, kw, extra: (A[0].round(kw["decimals"]) if kw.get("api") == "method" else da.round(A[0], kw["decimals"])),
    lambda P, kw: np.round(P[0], kw["decimals"]))
reg("around", lambda da, A, kw, extra: da.around(A[0], kw["decimals"]), lambda P, kw: np.around(P[0], kw["decimals"]))
reg("nan_to_num", lambda da, A, kw, extra: da.nan_to_num(A[0], **kw), lambda P, kw: np.nan_to_num(P[0].copy(), **kw))
reg("astype", lambda da, A, kw, extra: A[0].astype(kw["dtype"], **{k: v for k, v in kw.items() if k != "dtype"}),
    lambda P, kw: P[0].astype(kw["dtype"]))
reg("view", lambda da, A, kw, extra: A[0].view(kw["dtype"]), lambda P, kw: P[0].view(kw["dtype"]))
reg("copy", lambda da, A, kw, extra: A[0].copy(), lambda P, kw: P[0].copy())
UNARY_UFUNCS = ("negative", "absolute", "sqrt", "exp", "log1p", "sign", "floor", "isnan", "square", "conj", "real", "imag",
                "logical_not", "fix", "angle", "i0", "sinc", "rint", "signbit", "isfinite", "cbrt", "positive")
for _n in UNARY_UFUNCS:
    same_name(_n)
BINARY_UFUNCS = ("add", "multiply", "maximum", "fmin", "arctan2", "hypot", "copysign", "greater", "logical_and",
                 "power", "floor_divide", "mod", "nextafter", "logaddexp")
for _n in BINARY_UFUNCS:
    same_name(_n, nargs=2)
for _n in ("modf", "frexp"):
    same_name(_n)
same_name("divmod", nargs=2)
reg("where", lambda da, A, kw, extra: da.where(A[0] > 0, A[0], A[1] if len(A) > 1 else kw.get("fill", 0)),
    lambda P, kw: np.where(P[0] > 0, P[0], P[1] if len(P) > 1 else kw.get("fill", 0)))
reg("choose", lambda da, A, kw, extra: da.choose((A[0] > 0).astype("i8"), [A[0], A[1]]),
    lambda P, kw: np.choose((P[0] > 0).astype("i8"), [P[0], P[1]]))
reg("select", lambda da, A, kw, extra: da.select([A[0] > 5, A[0] < -5], [A[0], A[1]], default=kw.get("default", 0)),
    lambda P, kw: np.select([P[0] > 5, P[0] < -5], [P[0], P[1]], default=kw.get("default", 0)))
reg("piecewise", lambda da, A, kw, extra: da.piecewise(A[0], [A[0] < 0, A[0] >= 0], [lambda v: -v, lambda v: v * 2]),
    lambda P, kw: np.piecewise(P[0], [P[0] < 0, P[0] >= 0], [lambda v: -v, lambda v: v * 2]))

# ------------------------------------------------------------------ setitem


def _dec_index(enc, x):
    """index encoding: ["s",a,b,c] slice, ["i",n] int, ["l",[..]] list, ["e"] Ellipsis, ["mp",k] positional NumPy
    bool mask along that axis, ["m",thr] (alone) the value mask x > thr (a dask mask on a dask array)"""
    out = []
    for pos, e in enumerate(enc):
        t = e[0]
        if t == "s":
            out.append(slice(e[1], e[2], e[3]))
        elif t == "i":
            out.append(e[1])
        elif t == "l":
            out.append(list(e[1]))
        elif t == "e":
            out.append(Ellipsis)
        elif t == "mp":
            out.append(np.arange(x.shape[pos]) % e[1] == 0)
        elif t == "m":
            return x > e[1]
    return tuple(out)


def _setitem_value(kw, x, other, idx, is_mask):
    v = kw["value"]
    if v == "dask":
        return other[idx] if (other.shape == x.shape and not is_mask) else (other if other.shape == x.shape and is_mask else other)
    if v == "self_rev":
        return -x[idx]
    if v == "nparr":
        if is_mask:
            return 7
        shp = np.empty(x.shape)[idx].shape
        return np.arange(int(np.prod(shp)), dtype=x.dtype).reshape(shp)
    return v


def _setitem(da, A, kw, extra):
    x = A[0]
    y = x.copy() if kw.get("via_copy", True) else x + 0
    idx = _dec_index(kw["index"], x)
    is_mask = kw["index"][0][0] == "m"
    val = _setitem_value(kw, x, A[1] if len(A) > 1 else None, idx, is_mask)
    if is_mask and kw["value"] == "dask":
        y = da.where(idx, val, y) if kw.get("mask_via_where") else y
        if not kw.get("mask_via_where"):
            y[idx] = val
    else:
        y[idx] = val
    return [y, x]


def _setitem_np(P, kw):
    x = P[0]
    y = x.copy()
    idx = _dec_index(kw["index"], x)
    is_mask = kw["index"][0][0] == "m"
    val = _setitem_value(kw, x, P[1] if len(P) > 1 else None, idx, is_mask)
    if is_mask and kw["value"] == "dask":
        y = np.where(idx, val, y)
    else:
        y[idx] = val
    return [y, x]


reg("setitem", _setitem, _setitem_np)

# ------------------------------------------------------------------ store


def _store(da, A, kw, extra):
    """x stored into NumPy targets; the targets are the one thing a task may write"""
    srcs = A[: kw.get("nsrc", 1)]
    region = kw.get("region")
    targets = []
    for s in srcs:
        shape = tuple(n + (2 if region else 0) for n in s.shape)
        targets.append(np.full(shape, -777, dtype=s.dtype))
    regions = None
    if region:
        regions = tuple(slice(1, n + 1) for n in srcs[0].shape)
    call = dict(lock=kw.get("lock", True), regions=regions, return_stored=kw.get("return_stored", False))
    extra["allowed"] = lambda v: isinstance(v, np.ndarray) and any(np.shares_memory(v, t) for t in targets)
    first = [None]
    if kw.get("compute", True):
        r = da.store(list(srcs) if len(srcs) > 1 else srcs[0], targets if len(srcs) > 1 else targets[0], compute=True, **call)
        first[0] = [t.copy() for t in targets]
        for t in targets:
            t[...] = -777
        r2 = da.store(list(srcs) if len(srcs) > 1 else srcs[0], targets if len(srcs) > 1 else targets[0], compute=True, **call)
        outs = _stored(da, r) if kw.get("return_stored") else []
    else:
        r = da.store(list(srcs) if len(srcs) > 1 else srcs[0], targets if len(srcs) > 1 else targets[0], compute=False, **call)
        outs = _stored(da, r) if kw.get("return_stored") else []
        if not outs:
            import dask

            rs = r if isinstance(r, (tuple, list)) else (r,)
            dask.compute(*rs, scheduler="sync")
            first[0] = [t.copy() for t in targets]
            for t in targets:
                t[...] = -777
            dask.compute(*rs, scheduler="threads")

    def post(pristine):
        bad = []
        for i, t in enumerate(targets):
            want = np.full(t.shape, -777, dtype=t.dtype)
            want[regions if regions else ...] = pristine[i]
            for label, got in (("second store", t),) + ((("first store", first[0][i]),) if first[0] is not None else ()):
                if graphs_fp(got) != graphs_fp(want):
                    bad.append(("store-target-wrong", f"target {i} after the {label}: {np.asarray(got).ravel()[:8].tolist()} expected {want.ravel()[:8].tolist()}"))
        return bad

    extra["post"] = post
    # the sources themselves are always roots of the case
    return outs + [s + 0 for s in srcs]


def _stored(da, r):
    return [r] if isinstance(r, da.Array) else list(r)


def graphs_fp(a):
    from harness import graphs

    return graphs.fingerprint(np.asarray(a))


reg("store", _store, None)

# ------------------------------------------------------------------ contractions
reg("tensordot", lambda da, A, kw, extra: da.tensordot(A[0], A[1], axes=_t(kw["axes"])), lambda P, kw: np.tensordot(P[0], P[1], axes=_t(kw["axes"])))
reg("einsum", lambda da, A, kw, extra: da.einsum(kw["subs"], *A[: kw["n"]], **{k: v for k, v in kw.items() if k in ("optimize", "split_every", "dtype")}),
    lambda P, kw: np.einsum(kw["subs"], *P[: kw["n"]]))
for _n in ("matmul", "dot", "outer", "vdot"):
    same_name(_n, nargs=2)
reg("matmul_op", lambda da, A, kw, extra: A[0] @ A[1], lambda P, kw: P[0] @ P[1])

# ------------------------------------------------------------------ fft / linalg


def _fft(da, A, kw, extra):
    f = getattr(da.fft, kw["fn"])
    call = {k: _t(v) for k, v in kw.items() if k in ("axis", "axes", "n", "s", "norm")}
    return f(A[0], **call)


reg("fft", _fft, lambda P, kw: getattr(np.fft, kw["fn"])(P[0], **{k: _t(v) for k, v in kw.items() if k in ("axis", "axes", "n", "s", "norm")}))


def _linalg(da, A, kw, extra):
    fn = kw["fn"]
    if fn in ("solve", "lstsq"):
        return getattr(da.linalg, fn)(A[0], A[1])
    if fn == "norm":
        return da.linalg.norm(A[0], ord=kw.get("ord"), axis=_t(kw.get("axis")), keepdims=kw.get("keepdims", False))
    if fn == "svd_compressed":
        return da.linalg.svd_compressed(A[0], kw["k"], seed=0)
    return getattr(da.linalg, fn)(A[0])


reg("linalg", _linalg, lambda P, kw: np.linalg.norm(P[0], ord=kw.get("ord"), axis=_t(kw.get("axis")), keepdims=kw.get("keepdims", False)) if kw["fn"] == "norm" else None)

# ------------------------------------------------------------------ sort-like / search / histogram


def _unique(da, A, kw, extra):
    return da.unique(A[0], **kw)


reg("unique", _unique, lambda P, kw: np.unique(P[0], **kw))
reg("searchsorted", lambda da, A, kw, extra: da.searchsorted(da.from_array(np.sort(np.asarray(extra.setdefault('k', np.arange(-50.0, 50.0, 7.0)))), chunks=kw["kchunk"]), A[0], side=kw.get("side", "left")),
    lambda P, kw: np.searchsorted(np.arange(-50.0, 50.0, 7.0), P[0], side=kw.get("side", "left")))
reg("isin", lambda da, A, kw, extra: da.isin(A[0], A[1], invert=kw.get("invert", False), assume_unique=kw.get("assume_unique", False)),
    lambda P, kw: np.isin(P[0], P[1], invert=kw.get("invert", False)))
reg("digitize", lambda da, A, kw, extra: da.digitize(A[0], np.arange(-30.0, 30.0, 6.0), right=kw.get("right", False)),
    lambda P, kw: np.digitize(P[0], np.arange(-30.0, 30.0, 6.0), right=kw.get("right", False)))
reg("bincount", lambda da, A, kw, extra: da.bincount(A[0], weights=(A[1] if kw.get("weights") else None), minlength=kw.get("minlength", 0), split_every=kw.get("split_every")),
    lambda P, kw: np.bincount(P[0], weights=(P[1] if kw.get("weights") else None), minlength=kw.get("minlength", 0)))
reg("histogram", lambda da, A, kw, extra: da.histogram(A[0], bins=kw["bins"], range=_t(kw["range"]), weights=(A[1] if kw.get("weights") else None), density=kw.get("density")),
    lambda P, kw: np.histogram(P[0], bins=kw["bins"], range=_t(kw["range"]), weights=(P[1] if kw.get("weights") else None), density=kw.get("density"))[0])
reg("histogram2d", lambda da, A, kw, extra: da.histogram2d(A[0], A[1], bins=kw["bins"], range=_t(kw["range"])),
    lambda P, kw: np.histogram2d(P[0], P[1], bins=kw["bins"], range=_t(kw["range"]))[0])
reg("argwhere", lambda da, A, kw, extra: da.argwhere(A[0] > 0), lambda P, kw: np.argwhere(P[0] > 0))
reg("nonzero", lambda da, A, kw, extra: list(da.nonzero(A[0] > 0)), lambda P, kw: list(np.nonzero(P[0] > 0)))
reg("flatnonzero", lambda da, A, kw, extra: da.flatnonzero(A[0] > 0), lambda P, kw: np.flatnonzero(P[0] > 0))
reg("boolmask", lambda da, A, kw, extra: A[0][A[0] > 0], lambda P, kw: P[0][P[0] > 0])
reg("compress", lambda da, A, kw, extra: da.compress(np.arange(A[0].shape[kw["axis"]]) % 2 == 0, A[0], axis=kw["axis"]),
    lambda P, kw: np.compress(np.arange(P[0].shape[kw["axis"]]) % 2 == 0, P[0], axis=kw["axis"]))
reg("extract", lambda da, A, kw, extra: da.extract(A[0] > 0, A[0]), lambda P, kw: np.extract(P[0] > 0, P[0]))
reg("take", lambda da, A, kw, extra: da.take(A[0], kw["indices"], axis=kw["axis"]), lambda P, kw: np.take(P[0], kw["indices"], axis=kw["axis"]))
reg("take_dask", lambda da, A, kw, extra: A[0][da.from_array(np.array(kw["indices"], dtype="i8"), chunks=kw["ichunk"])],
    lambda P, kw: P[0][np.array(kw["indices"], dtype="i8")])
reg("vindex", lambda da, A, kw, extra: A[0].vindex[kw["i"], kw["j"]], lambda P, kw: P[0][kw["i"], kw["j"]])
reg("getitem", lambda da, A, kw, extra: A[0][_dec_index(kw["index"], A[0])], lambda P, kw: P[0][_dec_index(kw["index"], P[0])])
reg("shuffle", lambda da, A, kw, extra: da.shuffle(A[0], kw["indexer"], axis=kw["axis"]),
    lambda P, kw: np.take(P[0], [i for g in kw["indexer"] for i in g], axis=kw["axis"]))
same_name("cov", tuple_kw=())
same_name("corrcoef", tuple_kw=())

# ------------------------------------------------------------------ manipulation
reg("pad", lambda da, A, kw, extra: da.pad(A[0], _t(kw["pad_width"]), mode=kw["mode"], **kw.get("extra", {})),
    lambda P, kw: np.pad(P[0], _t(kw["pad_width"]), mode=kw["mode"], **kw.get("extra", {})) if kw["mode"] != "empty" else None)
same_name("roll", tuple_kw=("axis", "shift"))
same_name("repeat", tuple_kw=())
reg("tile", lambda da, A, kw, extra: da.tile(A[0], _t(kw["reps"])), lambda P, kw: np.tile(P[0], _t(kw["reps"])))
reg("insert", lambda da, A, kw, extra: da.insert(A[0], kw["obj"], kw["values"], axis=kw["axis"]), lambda P, kw: np.insert(P[0], kw["obj"], kw["values"], axis=kw["axis"]))
reg("delete", lambda da, A, kw, extra: da.delete(A[0], kw["obj"], axis=kw["axis"]), lambda P, kw: np.delete(P[0], kw["obj"], axis=kw["axis"]))
reg("append", lambda da, A, kw, extra: da.append(A[0], A[1], axis=kw["axis"]), lambda P, kw: np.append(P[0], P[1], axis=kw["axis"]))
same_name("flip")
reg("rot90", lambda da, A, kw, extra: da.rot90(A[0], k=kw["k"]), lambda P, kw: np.rot90(P[0], k=kw["k"]))
reg("concatenate", lambda da, A, kw, extra: da.concatenate([A[0], A[1], A[0]][: kw.get("n", 2)], axis=kw["axis"]),
    lambda P, kw: np.concatenate([P[0], P[1], P[0]][: kw.get("n", 2)], axis=kw["axis"]))
reg("stack", lambda da, A, kw, extra: da.stack([A[0], A[1]], axis=kw["axis"]), lambda P, kw: np.stack([P[0], P[1]], axis=kw["axis"]))
reg("block", lambda da, A, kw, extra: da.block([[A[0], A[1]], [A[1], A[0]]]), lambda P, kw: np.block([[P[0], P[1]], [P[1], P[0]]]))
for _n in ("vstack", "hstack", "dstack"):
    def _mk(n):
        reg(n, lambda da, A, kw, extra: getattr(da, n)([A[0], A[1]]), lambda P, kw: getattr(np, n)([P[0], P[1]]))

    _mk(_n)
reg("reshape", lambda da, A, kw, extra: A[0].reshape(_t(kw["shape"])), lambda P, kw: P[0].reshape(_t(kw["shape"])))
reg("ravel", lambda da, A, kw, extra: A[0].ravel(), lambda P, kw: P[0].ravel())
reg("transpose", lambda da, A, kw, extra: da.transpose(A[0], _t(kw.get("axes"))), lambda P, kw: np.transpose(P[0], _t(kw.get("axes"))))
same_name("moveaxis")
reg("swapaxes", lambda da, A, kw, extra: da.swapaxes(A[0], kw["a"], kw["b"]), lambda P, kw: np.swapaxes(P[0], kw["a"], kw["b"]))
reg("expand_squeeze", lambda da, A, kw, extra: da.squeeze(da.expand_dims(A[0], kw["axis"]), axis=kw["axis"]), lambda P, kw: P[0])
reg("broadcast_to", lambda da, A, kw, extra: da.broadcast_to(A[0], _t(kw["shape"])), lambda P, kw: np.broadcast_to(P[0], _t(kw["shape"])))
reg("diag", lambda da, A, kw, extra: da.diag(A[0], k=kw.get("k", 0)), lambda P, kw: np.diag(P[0], k=kw.get("k", 0)))
reg("diagonal", lambda da, A, kw, extra: da.diagonal(A[0], offset=kw.get("offset", 0)), lambda P, kw: np.diagonal(P[0], offset=kw.get("offset", 0)))
reg("tril", lambda da, A, kw, extra: da.tril(A[0], k=kw.get("k", 0)), lambda P, kw: np.tril(P[0], k=kw.get("k", 0)))
reg("triu", lambda da, A, kw, extra: da.triu(A[0], k=kw.get("k", 0)), lambda P, kw: np.triu(P[0], k=kw.get("k", 0)))
reg("rechunk", lambda da, A, kw, extra: A[0].rechunk(_t(kw["chunks"])), lambda P, kw: P[0])
reg("rechunk_merge", lambda da, A, kw, extra: A[0].rechunk(tuple(-1 for _ in A[0].shape)), lambda P, kw: P[0])
reg("blocks", lambda da, A, kw, extra: A[0].blocks[tuple(kw["index"])], None)
reg("T", lambda da, A, kw, extra: A[0].T, lambda P, kw: P[0].T)
reg("flatten", lambda da, A, kw, extra: A[0].flatten(), lambda P, kw: P[0].flatten())
reg("ediff1d", lambda da, A, kw, extra: da.ediff1d(A[0]), lambda P, kw: np.ediff1d(P[0]))
reg("union1d", lambda da, A, kw, extra: da.union1d(A[0], A[1]), lambda P, kw: np.union1d(P[0], P[1]))
reg("atleast_3d", lambda da, A, kw, extra: da.atleast_3d(A[0]), lambda P, kw: np.atleast_3d(P[0]))

# ------------------------------------------------------------------ generic block mappers


def _rev_cumsum(v):
    return v[::-1].cumsum()


def _row_sum(b):
    return b.sum(axis=-1)


def _np_sort_copy(b, axis=-1):
    return np.sort(b, axis=axis)


def _partition_copy(b, kth=0, axis=-1):
    return np.partition(b, min(kth, b.shape[axis] - 1), axis=axis) if b.shape[axis] else b


reg("apply_along_axis", lambda da, A, kw, extra: da.apply_along_axis(_rev_cumsum, kw["axis"], A[0], dtype=A[0].dtype, shape=(A[0].shape[kw["axis"]],)),
    lambda P, kw: np.apply_along_axis(_rev_cumsum, kw["axis"], P[0]))
reg("apply_over_axes", lambda da, A, kw, extra: da.apply_over_axes(da.sum, A[0], kw["axes"]), lambda P, kw: np.apply_over_axes(np.sum, P[0], kw["axes"]))
reg("apply_gufunc", lambda da, A, kw, extra: da.apply_gufunc(_row_sum, "(i)->()", A[0], output_dtypes=A[0].dtype, allow_rechunk=True), lambda P, kw: _row_sum(P[0]))
reg("map_blocks_sort", lambda da, A, kw, extra: A[0].rechunk({kw["axis"]: -1}).map_blocks(_np_sort_copy, axis=kw["axis"], dtype=A[0].dtype),
    lambda P, kw: np.sort(P[0], axis=kw["axis"]))
reg("map_blocks_partition", lambda da, A, kw, extra: A[0].rechunk({kw["axis"]: -1}).map_blocks(_partition_copy, kth=kw["kth"], axis=kw["axis"], dtype=A[0].dtype), None)
reg("blockwise_concat", lambda da, A, kw, extra: da.blockwise(_row_sum, "abcdefg"[: A[0].ndim - 1], A[0], "abcdefg"[: A[0].ndim], concatenate=True, dtype=A[0].dtype),
    lambda P, kw: _row_sum(P[0]))
reg("map_blocks_block_info", lambda da, A, kw, extra: A[0].map_blocks(_with_info, dtype=A[0].dtype), lambda P, kw: P[0] * 1)


def _with_info(b, block_info=None):
    return b * 1


# ------------------------------------------------------------------ dask-array ARGUMENTS (indexers, masks, bins, choices)
# Every argument collection is a SOURCE of the case (hence a root, fingerprinted as a dependency, re-computed
# afterwards and compared with its pristine data); NumPy arrays handed over as arguments are watched.


def _watch(extra, arrays):
    """NumPy arrays the user hands to the operation as ARGUMENTS (keys, values): must be bytewise unchanged afterwards"""
    from harness import graphs

    kept = [(a, a.copy(), graphs.fingerprint(a)) for a in arrays]
    prev = extra.get("post")

    def post(pristine):
        bad = list(prev(pristine) or []) if prev is not None else []
        for i, (a, c, fp) in enumerate(kept):
            if graphs.fingerprint(a) != fp:
                bad.append(("source-mutated", f"NumPy array passed as argument {i} changed: {c.ravel()[:8].tolist()} -> {a.ravel()[:8].tolist()}"))
        return bad

    extra["post"] = post


def _at(nd, axis, key, rest=None):
    """index tuple with `key` on `axis`; rest: optional encoded basic indices for the other axes"""
    out = [slice(None)] * nd
    if rest:
        for i, e in enumerate(rest):
            if i != axis and e is not None:
                out[i] = slice(e[1], e[2], e[3]) if e[0] == "s" else e[1]
    out[axis] = key
    return tuple(out)


def _arg_getitem(da, A, kw, extra):
    """x[..., key, ...] and (same key object) y[..., key, ...] with y of ANOTHER length along the axis"""
    key = A[-1]
    outs = [A[0][_at(A[0].ndim, kw["axis"], key, kw.get("rest"))]]
    for y in A[1:-1]:
        outs.append(y[_at(y.ndim, kw["axis"], key)])
    if kw.get("again"):
        outs.append(A[0][_at(A[0].ndim, kw["axis"], key)] * 2)
    return outs


def _arg_getitem_np(P, kw):
    key = P[-1]
    if key.dtype.kind == "b" and len(P) > 2:
        return None
    outs = [P[0][_at(P[0].ndim, kw["axis"], key, kw.get("rest"))]]
    for y in P[1:-1]:
        outs.append(y[_at(y.ndim, kw["axis"], key)])
    if kw.get("again"):
        outs.append(P[0][_at(P[0].ndim, kw["axis"], key)] * 2)
    return outs


reg("arg.getitem", _arg_getitem, _arg_getitem_np)
reg("arg.getitem_mask_nd", lambda da, A, kw, extra: [A[0][A[-1]], A[0][A[-1]] + 1], lambda P, kw: [P[0][P[-1]], P[0][P[-1]] + 1])
reg("arg.take", lambda da, A, kw, extra: [da.take(y, A[-1], axis=kw["axis"]) for y in A[:-1]],
    lambda P, kw: [np.take(y, P[-1], axis=kw["axis"]) for y in P[:-1]])


def _arg_setitem(da, A, kw, extra, npmode=False):
    x, key = A[0], A[-1]
    y = x.copy()
    idx = key if kw.get("full") else _at(x.ndim, kw["axis"], key, kw.get("rest"))
    v = kw["value"]
    if v == "nparr":
        shp = np.empty(x.shape)[_at(x.ndim, kw["axis"], np.zeros(key.shape, dtype="i8"), kw.get("rest"))].shape
        v = np.arange(int(np.prod(shp)), dtype=x.dtype).reshape(shp) + 1000
        if not npmode:
            _watch(extra, [v])
    y[idx] = v
    return [y, x] if npmode else [y, x, y + 1]


reg("arg.setitem", _arg_setitem, lambda P, kw: _arg_setitem(None, [p.copy() for p in P], kw, {}, npmode=True))
reg("arg.compress", lambda da, A, kw, extra: da.compress(A[-1], A[0], axis=kw["axis"]), lambda P, kw: np.compress(P[-1], P[0], axis=kw["axis"]))
reg("arg.extract", lambda da, A, kw, extra: da.extract(A[-1], A[0]), lambda P, kw: np.extract(P[-1], P[0]))
reg("arg.choose", lambda da, A, kw, extra: da.choose(A[-1], [A[0], A[1]]), lambda P, kw: np.choose(P[-1], [P[0], P[1]]))
reg("arg.select", lambda da, A, kw, extra: da.select([A[2], A[3]], [A[0], A[1]], default=kw.get("default", 0)),
    lambda P, kw: np.select([P[2], P[3]], [P[0], P[1]], default=kw.get("default", 0)))
reg("arg.where", lambda da, A, kw, extra: da.where(A[2], A[0], A[1]), lambda P, kw: np.where(P[2], P[0], P[1]))
reg("arg.piecewise", lambda da, A, kw, extra: da.piecewise(A[0], [A[1], A[2]], [-1.0, 2.0, 5.0]), lambda P, kw: np.piecewise(P[0], [P[1], P[2]], [-1.0, 2.0, 5.0]))
reg("arg.digitize", lambda da, A, kw, extra: da.digitize(A[0], A[1], right=kw.get("right", False)), lambda P, kw: np.digitize(P[0], P[1], right=kw.get("right", False)))
reg("arg.searchsorted", lambda da, A, kw, extra: da.searchsorted(A[1], A[0], side=kw.get("side", "left")), lambda P, kw: np.searchsorted(P[1], P[0], side=kw.get("side", "left")))
reg("arg.histogram", lambda da, A, kw, extra: da.histogram(A[0], bins=A[1], weights=(A[2] if kw.get("weights") else None), density=kw.get("density"))[0],
    lambda P, kw: np.histogram(P[0], bins=P[1], weights=(P[2] if kw.get("weights") else None), density=kw.get("density"))[0])
reg("arg.bincount", lambda da, A, kw, extra: da.bincount(A[0], weights=(A[1] if kw.get("weights") else None), minlength=kw.get("minlength", 0)),
    lambda P, kw: np.bincount(P[0], weights=(P[1] if kw.get("weights") else None), minlength=kw.get("minlength", 0)))
reg("arg.isin", lambda da, A, kw, extra: da.isin(A[0], A[1], invert=kw.get("invert", False)), lambda P, kw: np.isin(P[0], P[1], invert=kw.get("invert", False)))
reg("arg.ravel_multi_index", lambda da, A, kw, extra: da.ravel_multi_index(A[0], _t(kw["dims"])), lambda P, kw: np.ravel_multi_index(tuple(P[0]), _t(kw["dims"])))
reg("arg.unravel_index", lambda da, A, kw, extra: da.unravel_index(A[0], _t(kw["dims"])), lambda P, kw: list(np.unravel_index(P[0], _t(kw["dims"]))))


def _numpy_key(da, A, kw, extra, P=None):
    """NumPy index / value arrays as arguments (negative entries, every integer dtype): the user's arrays must survive"""
    x = A[0] if P is None else P[0]
    how = kw["how"]
    key = np.array(kw["key"], dtype=kw.get("kdtype", "i8"))
    key2 = np.array(kw["key2"], dtype=kw.get("kdtype", "i8")) if "key2" in kw else None
    if P is None:
        _watch(extra, [k for k in (key, key2) if k is not None])
    if how == "getitem":
        return x[_at(x.ndim, kw["axis"], key)]
    if how == "take":
        return (da if P is None else np).take(x, key, axis=kw["axis"])
    if how == "vindex":
        return x.vindex[key, key2] if P is None else x[key, key2]
    if how == "setitem":
        y = x.copy()
        y[_at(x.ndim, kw["axis"], key)] = kw.get("value", -3)
        return [y, x] if P is not None else [y, x + 0]
    raise KeyError(how)


reg("arg.numpy_key", _numpy_key, lambda P, kw: _numpy_key(None, None, kw, {}, P=[p.copy() for p in P]))
