"""C13 extension — the slice-algebra helpers driven with every INDEX ELEMENT TYPE on LARGE dimensions.

Index elements (integers, slice bounds and steps) are drawn from Python int, np.int8 … np.uint64, np.intp and (for slice
bounds 0/1) Python bool, with values near the limits of their type; dimensions are 257 … 70000 (API sized) and 10**6,
2**31+k, 2**32+k, 2**40+k (helper level only: pure arithmetic), chunk sizes below / at / above 256, 65536 and 2**32.

The typed elements enter where they enter in the library: through `normalize_index` (the sanitizing entry point whose
output `fuse_slice`, `_slice_1d`, `new_blockdim` are documented to take).  Two uses:

* correspondence — request lines carry the plain integers (the Lean model works over unbounded Int), the implementation
  side is run on the TYPED elements and rendered TYPE-STRICTLY (an integer that is not a Python int is rendered
  `<value>@<type>`), so both a wrapped value and a NumPy scalar left in a normalized index are disagreements;
* brute-force search against `range(n)` / NumPy (independent of the model): a wrap selects other positions.

Cases are JSON dicts {"fn": …, "dim": n, "a": item, "b": item, …} with items in the C12 spec language
(["i",v,tag], ["s",a,b,c,[ta,tb,tc]], ["n"]); `replay(…)` re-runs one from the dict alone.
"""
from __future__ import annotations

import warnings

import numpy as np

from harness.core import err_name, f_list
from harness.props_ext import c12_sizes as S

REFUSE = (NotImplementedError, IndexError, ValueError, TypeError, ZeroDivisionError, AssertionError, OverflowError, ArithmeticError)
# (<= 2**40: new_blockdim computes piece lengths in float arithmetic, exact below 2**53 elements)
HELPER_DIMS = [257, 300, 511, 700, 1000, 32768, 65535, 65536, 65537, 70000, 10**6, 2**31 + 7, 2**32 + 9, 2**40 + 11]


def _C12():
    from harness.props import C12

    return C12


# ------------------------------------------------------------------------------ strict rendering


def s_int(v):
    if v is None:
        return "N"
    if type(v) is int:
        return str(v)
    return f"{int(v)}@{type(v).__name__}"


def s_slice(s):
    return f"{s_int(s.start)}:{s_int(s.stop)}:{s_int(s.step)}"


def s_item(it):
    return s_slice(it) if isinstance(it, slice) else s_int(it)


def s_plan(d):
    return "ok " + ";".join(f"{s_int(k)}={s_item(v)}" for k, v in sorted(d.items()))


def call(fn, fmt):
    with warnings.catch_warnings():
        warnings.simplefilter("ignore")
        try:
            return fmt(fn())
        except Exception as e:   # (any exception class is an answer to compare with the model's, never a harness error)
            return err_name(e)


def build(item):
    return _C12().build_item(item, False)


def plain(item):
    """the same item with Python ints"""
    if item[0] == "i":
        return ["i", item[1]]
    if item[0] == "s":
        return item[:4]
    return item


# ------------------------------------------------------------------------------ generators


def helper_dim(rng):
    return rng.choice(HELPER_DIMS) if rng.random() < 0.8 else rng.randint(257, 70000)


def helper_chunks(rng, n):
    if n <= 70000:
        return S.large_chunks(rng, n)
    r = rng.random()
    if r < 0.25:
        return [n]
    cuts = sorted({q for q in (256, 65536, 2**31, 2**32, n - 256, n - 65536, n // 2, rng.randint(1, n - 1), rng.randint(1, n - 1))
                   if 0 < q < n and rng.random() < 0.5}) or [n // 3]
    edges = [0] + cuts + [n]
    return [b - a for a, b in zip(edges, edges[1:])]


def hot(n, chunks=None):
    h = set(S.hot_positions(min(n, 10**9), chunks if chunks and n <= 10**9 else [min(n, 10**9)])) if n <= 10**9 else set()
    for lim in (127, 128, 255, 256, 32767, 32768, 65535, 65536, 2**31 - 1, 2**31, 2**32 - 1, 2**32):
        h.update((lim - 1, lim, lim + 1, n - lim, n - lim - 1))
    h.update((0, 1, n - 1, n - 2, n // 2))
    if chunks:
        st = 0
        for c in chunks[:8]:
            h.update((st - 1, st, st + 1, st + 255, st + 256, st + 65536))
            st += c
    return sorted(q for q in h if 0 <= q < n)


def typed_slice(rng, n, h, p_plain=0.15):
    sp = S.typed_slice(rng, n, h, p_plain=p_plain, oob=0.1)
    if len(sp) == 4 and rng.random() < 0.5:
        sp = S.retag_item(rng, sp, 1.0)
    return sp


def typed_int(rng, n, h, p_plain=0.1):
    return S.typed_int(rng, S.rand_pos(rng, n, h), p_plain)


def overflow_pair(rng, n):
    """a = start::step (plain or typed), b = an integer / slice bound k of a narrow type t with k <= max(t) < start + k*step"""
    C = _C12()
    for _ in range(30):
        t = rng.choice(["int8", "uint8", "int16", "uint16", "int32", "uint32"])
        lim = int(np.iinfo(t).max)
        if lim >= n - 2:
            continue
        s = rng.choice([1, 1, 2, 3, 7, 255])
        a = rng.choice([0, 0, rng.randint(1, max(1, n - lim // 2)), rng.randint(0, n - 1)])
        m = len(range(a, n, s))
        if m < 2:
            continue
        top = min(m - 1, lim)
        k = top if rng.random() < 0.5 else rng.randint(top // 2, top)
        if a + k * s > lim:
            first = ["s", a or None, None, s if s != 1 else None]
            if rng.random() < 0.5:
                first = S.retag_item(rng, first, 1.0)
            return first, k, t, m
    return None


# ------------------------------------------------------------------------------ one case (used by search and replay)


def check_case(U, case):
    """None when the property holds on the case, else (signature, what, detail)"""
    with warnings.catch_warnings():
        warnings.simplefilter("ignore")
        return _check_case(U, case)


def _ni(U, item, n):
    return U.normalize_index((build(item),), (n,))[0]


def _check_case(U, case):
    fn = case["fn"]
    n = case["dim"]
    x = range(n)
    if fn == "normalize_index:slice":
        s = build(plain(case["a"]))
        try:
            ns = _ni(U, case["a"], n)
        except REFUSE as e:
            return ("normalize_index:typed-slice-refused", "normalize_index refuses a slice with NumPy-integer bounds", {"error": repr(e)[:120]})
        if x[ns] != x[s]:
            return ("normalize_index:typed-slice-positions", "normalize_index of a slice with typed bounds changes the selected positions",
                    {"got": s_slice(ns)})
        return None
    if fn == "normalize_index:int":
        v = case["a"][1]
        try:
            r = _ni(U, case["a"], n)
        except REFUSE as e:
            if -n <= v < n:
                return ("normalize_index:typed-int-refused", "normalize_index refuses an in-bounds NumPy integer", {"error": repr(e)[:120]})
            return None
        if not (-n <= v < n):
            return ("normalize_index:typed-int-oob-accepted", "normalize_index accepts an out-of-bounds integer", {"got": s_int(r)})
        if x[r] != x[v]:
            return ("normalize_index:typed-int-position", "normalize_index of a typed integer addresses another position", {"got": s_int(r)})
        return None
    if fn == "fuse_slice∘normalize_index":
        # x[a][b] == x[fuse_slice(normalize_index(a), normalize_index(b))]
        a, b = build(plain(case["a"])), build(plain(case["b"]))
        try:
            xa = x[a]
            want = xa[b]
        except (IndexError, ValueError):  # NumPy itself refuses the pair (out of bounds, zero step): outside the claim
            return None
        try:
            na = _ni(U, case["a"], n)
            nb = _ni(U, case["b"], len(xa))
            f = U.fuse_slice(na, nb)
        except NotImplementedError:
            return None   # documented refusal (negative steps)
        except REFUSE as e:
            return ("fuse_slice:typed-refused", "normalize_index/fuse_slice refuse a valid typed pair", {"error": repr(e)[:120]})
        try:
            got = x[f]
        except Exception as e:
            return ("fuse_slice:typed-compose", "the fused index is not applicable", {"fused": s_item(f), "error": repr(e)[:100]})
        if got != want:
            return ("fuse_slice:typed-compose", "fuse_slice(normalize_index(a), normalize_index(b)) selects other positions than a then b",
                    {"fused": s_item(f), "want": repr(want)[:60], "got": repr(got)[:60]})
        return None
    if fn == "_slice_1d∘normalize_index":
        cks = case["chunks"]
        s = build(plain(case["a"]))
        try:
            ns = _ni(U, case["a"], n)
            plan = U._slice_1d(n, list(cks), ns)
            nb = U.new_blockdim(n, list(cks), ns) if isinstance(ns, slice) else None
        except REFUSE as e:
            return ("_slice_1d:typed-refused", "the slice plan refuses a valid typed slice", {"error": repr(e)[:120]})
        starts = [0]
        for c in cks:
            starts.append(starts[-1] + c)
        neg = (s.step or 1) < 0 if isinstance(s, slice) else False
        want = x[s]
        if isinstance(s, slice):
            pieces = [x[starts[k]: starts[k + 1]][plan[k]] for k in sorted(plan, reverse=neg)]
            total = sum(len(p) for p in pieces)
            ok = total == len(want)
            if ok and total:
                # pieces are ranges: compare arithmetically (first, last, step) and contiguity
                pos = 0
                for p in pieces:
                    if len(p) and (p[0] != want[pos] or p[-1] != want[pos + len(p) - 1] or (len(p) > 1 and p.step != want.step)):
                        ok = False
                        break
                    pos += len(p)
            if not ok:
                return ("_slice_1d:typed-partition", "per-block slice plan does not partition the selected positions", {"plan": s_plan(plan)[:200]})
            lens = [len(p) for p in pieces]
            if len(want) and list(nb) != lens:
                return ("new_blockdim:typed-lengths", "new_blockdim differs from per-block piece lengths", {"got": list(nb)[:20], "want": lens[:20]})
        else:
            (k, off), = plan.items()
            if x[starts[k]: starts[k + 1]][off] != want:
                return ("_slice_1d:typed-int", "integer plan addresses another position", {"plan": s_plan(plan)})
        return None
    if fn == "fuse_slice∘normalize_index:tuple":
        shape = tuple(case["shape"])
        arr = np.arange(int(np.prod(shape))).reshape(shape)
        C = _C12()
        a_p = tuple(build(plain(i)) for i in case["a"])
        b_p = tuple(build(plain(i)) for i in case["b"])
        try:
            mid = arr[a_p]
            want = mid[b_p]
        except IndexError:
            return None
        try:
            na = U.normalize_index(C.build_index(case["a"], False), shape)
            nb = U.normalize_index(C.build_index(case["b"], False), mid.shape)
            f = U.fuse_slice(na, nb)
        except NotImplementedError:
            return None
        except REFUSE as e:
            return ("fuse_slice:typed-tuple-refused", "normalize_index/fuse_slice refuse a valid typed pair of tuples", {"error": repr(e)[:120]})
        try:
            ok = np.array_equal(arr[f], want) and arr[f].shape == want.shape
        except Exception:
            ok = False
        if not ok:
            return ("fuse_slice:typed-tuple", "tuple fusion of typed indices differs from sequential indexing", {"fused": repr(f)[:160]})
        return None
    raise ValueError(fn)


# ------------------------------------------------------------------------------ streams


def gen_cases(ctx):
    """the typed cases of one run (the same cases feed the correspondence and the brute-force search)"""
    rng = ctx.rng
    cases = []
    n_each = ctx.scale(500, 6000)
    for _ in range(n_each):
        n = helper_dim(rng)
        h = hot(n)
        cases.append({"fn": "normalize_index:slice", "dim": n, "a": typed_slice(rng, n, h)})
        v = S.rand_pos(rng, n, h, oob=0.08)
        cases.append({"fn": "normalize_index:int", "dim": n, "a": S.typed_int(rng, v, 0.1)})
    # fusion: overflow strata (every run: each narrow type, integer and slice second index) + free pairs
    for _ in range(n_each):
        n = helper_dim(rng)
        h = hot(n)
        r = rng.random()
        pr = overflow_pair(rng, n) if r < 0.6 else None
        if pr is not None:
            first, k, t, m = pr
            if rng.random() < 0.5:
                b = ["i", k, t]
            else:
                lo = rng.randint(0, k)
                st = rng.choice([None, 1, 2, 3, 7])
                b = ["s", lo, k, st, [t if lo <= np.iinfo(t).max and rng.random() < 0.5 else None, t, None]]
                if rng.random() < 0.3:
                    b = ["s", None, k, st, [None, t, None]]
            cases.append({"fn": "fuse_slice∘normalize_index", "dim": n, "a": first, "b": b})
            continue
        a = typed_slice(rng, n, h)
        m = S.sel_len(n, a)
        if m == 0:
            continue
        hm = hot(m)
        b = typed_int(rng, m, hm) if rng.random() < 0.4 else typed_slice(rng, m, hm)
        cases.append({"fn": "fuse_slice∘normalize_index", "dim": n, "a": a, "b": b})
    for _ in range(n_each):
        n = helper_dim(rng)
        cks = helper_chunks(rng, n)
        h = hot(n, cks)
        a = typed_int(rng, n, h) if rng.random() < 0.2 else typed_slice(rng, n, h)
        cases.append({"fn": "_slice_1d∘normalize_index", "dim": n, "chunks": cks, "a": a})
    # tuples with a large axis (NumPy as oracle)
    C = _C12()
    for _ in range(ctx.scale(300, 4000)):
        rank = rng.choice([1, 2, 2, 3])
        lax = rng.randrange(rank)
        shape = [rng.randint(1, 4) for _ in range(rank)]
        shape[lax] = rng.choice([257, 300, 700, 40000, 70000]) if rng.random() < 0.8 else rng.randint(257, 70000)

        def tup(shp, first):
            out = []
            for ax, m in enumerate(shp):
                if m > 12:
                    hm = hot(m)
                    if first:
                        pr = overflow_pair(rng, m) if rng.random() < 0.5 else None
                        out.append(pr[0] if pr else typed_slice(rng, m, hm))
                    else:
                        t = rng.choice(["int8", "uint8", "int16", "uint16"])
                        lim = int(np.iinfo(t).max)
                        if rng.random() < 0.5 and m > 2:
                            k = min(m - 1, lim) if rng.random() < 0.5 else rng.randint(0, min(m - 1, lim))
                            out.append(["i", k, t] if rng.random() < 0.6 else ["s", rng.randint(0, k), k, None, [None, t, None]])
                        else:
                            out.append(typed_int(rng, m, hm) if rng.random() < 0.4 else typed_slice(rng, m, hm))
                else:
                    out.append(S.small_item(rng, m, p_int=0.25 if not first else 0.15))
            if rng.random() < 0.25:
                out.insert(rng.randint(0, len(out)), ["n"])
            return out

        a = tup(shape, True)
        try:
            mid = np.empty(shape, dtype=np.int8)[tuple(build(plain(i)) for i in a)]
        except IndexError:
            continue
        if mid.ndim == 0 or 0 in mid.shape:
            continue
        b = tup(mid.shape, False)
        cases.append({"fn": "fuse_slice∘normalize_index:tuple", "dim": 0, "shape": shape, "a": a, "b": b})
    return cases


def pairs_for(U, case):
    """correspondence pairs (request over plain integers, implementation on the typed elements, strict rendering)"""
    from harness.core import f_slice

    fn, n = case["fn"], case["dim"]
    out = []
    if fn == "normalize_index:slice":
        s = build(plain(case["a"]))
        out.append((f"sl.normalize {f_slice(s)} {n}", call(lambda: _ni(U, case["a"], n), lambda r: "ok " + s_slice(r))))
    elif fn == "normalize_index:int":
        v = case["a"][1]
        if -n <= v < n:
            out.append((f"sl.posify {n} {v}", call(lambda: _ni(U, case["a"], n), lambda r: "ok " + s_int(r))))
        else:
            out.append((f"sl.check_index {v} {n}", call(lambda: _ni(U, case["a"], n), lambda r: "ok")))
    elif fn == "fuse_slice∘normalize_index":
        a, b = build(plain(case["a"])), build(plain(case["b"]))
        try:
            na = U.normalize_slice(a, n)
            m = len(range(n)[a])
            if isinstance(b, slice):
                nb = U.normalize_slice(b, m)
                req = f"sl.fuse_ss {f_slice(na)} {f_slice(nb)}"
            else:
                if not (-m <= b < m):
                    return []
                req = f"sl.fuse_si {f_slice(na)} {b + m if b < 0 else b}"
        except REFUSE:
            return []
        out.append((req, call(lambda: U.fuse_slice(_ni(U, case["a"], n), _ni(U, case["b"], m)), lambda r: "ok " + s_item(r))))
    elif fn == "_slice_1d∘normalize_index":
        cks = case["chunks"]
        a = build(plain(case["a"]))
        if isinstance(a, slice):
            try:
                na = U.normalize_slice(a, n)
            except REFUSE:
                return []
            out.append((f"sl.slice1d {n} {f_list(cks)} {f_slice(na)}", call(lambda: U._slice_1d(n, list(cks), _ni(U, case["a"], n)), s_plan)))
            out.append((f"sl.new_blockdim {n} {f_list(cks)} {f_slice(na)}",
                        call(lambda: U.new_blockdim(n, list(cks), _ni(U, case["a"], n)), lambda r: "ok " + ",".join(s_int(q) for q in r) if len(r) else "ok _")))
        elif -n <= a < n:
            out.append((f"sl.slice1d_int {f_list(cks)} {a % n}",
                        call(lambda: U._slice_1d(n, list(cks), _ni(U, case["a"], n)), lambda d: "ok " + " ".join(s_int(q) for q in next(iter(d.items()))))))
    return out


def case_types(case):
    items = []
    for key in ("a", "b"):
        v = case.get(key)
        if v:
            items += [v] if isinstance(v[0], str) else list(v)
    ts = set()
    for it in items:
        if it[0] == "i" and len(it) > 2:
            ts.add(it[2])
        elif it[0] == "s" and len(it) > 4 and it[4]:
            ts.update(t for t in it[4] if t)
    return tuple(sorted(ts))


def run_typed(ctx, U):
    """correspondence + brute-force search over the typed / large cases; returns the request -> case table used by the
    targeted search"""
    cases = gen_cases(ctx)
    table = {}
    pairs = []
    for case in cases:
        for req, impl in pairs_for(U, case):
            pairs.append((req, impl))
            table.setdefault(req, case)
    ctx.correspond("typed/large: normalize_index→normalize_slice/posify/fuse_slice/_slice_1d/new_blockdim", pairs,
                   branch_key=lambda req, m: (req.split()[0], m[:6], len(req) // 12))
    for case in sorted(cases, key=lambda c: (c["dim"] or max(c.get("shape", [0])))):   # (small dimensions first: the first report is the smallest)
        r = check_case(U, case)
        types = case_types(case)
        ctx.count(("typed", case["fn"], types[:2], case["dim"] > 70000))
        if r is not None:
            sig, what, detail = r
            ctx.fail(sig, {**case, "detail": detail}, what)
    ctx.notes["typed_cases"] = len(cases)
    return table


def targeted(ctx, U, table):
    """lift disagreements of the typed correspondence to API level: x[a][b] / x[a] on from_array(arange(n)) vs NumPy"""
    import dask
    import dask_array as da

    tried = 0
    for d in ctx.disagreements[:60]:
        case = table.get(d["request"])
        if case is None or case["dim"] > 70000 or case["fn"].endswith(":tuple"):
            continue
        n = case["dim"]
        x = np.arange(n)
        idxs = [build(case["a"])] + ([build(case["b"])] if "b" in case else [])
        pidx = [build(plain(case["a"]))] + ([build(plain(case["b"]))] if "b" in case else [])
        try:
            want = x
            for i in pidx:
                want = want[i]
        except IndexError:
            continue
        for cks in ([n], case.get("chunks") or S.uniform_chunks(n, 300 if n <= 30000 else 40000)):
            for opt in (True, False):
                tried += 1
                with dask.config.set({"array.optimize-graph": opt, "scheduler": "sync"}), warnings.catch_warnings():
                    warnings.simplefilter("ignore")
                    try:
                        y = da.from_array(x, chunks=(tuple(cks),))
                        for i in idxs:
                            y = y[i]
                        got = np.asarray(y.compute())
                        bad = got.shape != np.shape(want) or not np.array_equal(got, want)
                        how = f"got {got.ravel()[:4].tolist()} want {np.asarray(want).ravel()[:4].tolist()}"
                    except Exception as e:
                        bad, how = True, f"{type(e).__name__}: {str(e)[:80]}"
                if bad:
                    ctx.fail("api:typed-getitem", {"fn": "api:typed-getitem", "dim": n, "chunks": list(cks), "optimize": opt,
                                                   "a": case["a"], **({"b": case["b"]} if "b" in case else {}), "how": how},
                             "from_array(arange(n), chunks)[a][b] with typed index elements differs from NumPy")
                    break
    return tried


def replay_api(case):
    import dask
    import dask_array as da

    n = case["dim"]
    x = np.arange(n)
    want = x
    with dask.config.set({"array.optimize-graph": case.get("optimize", True), "scheduler": "sync"}), warnings.catch_warnings():
        warnings.simplefilter("ignore")
        y = da.from_array(x, chunks=(tuple(case["chunks"]),))
        for key in ("a", "b"):
            if key in case:
                want = want[build(plain(case[key]))]
                y = y[build(case[key])]
        try:
            got = np.asarray(y.compute())
            return got.shape != np.shape(want) or not np.array_equal(got, want), f"got {got.ravel()[:4].tolist()}"
        except Exception as e:
            return True, f"{type(e).__name__}: {str(e)[:80]}"
