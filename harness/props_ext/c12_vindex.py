"""C12 extension — the VINDEX stream and the INDEXER-LAYOUT stream (class level, run in every quick run).

What is explored (all on the real code, against NumPy / brute force, optimizer on and off):

* `vindex-axes`: `x.vindex[...]` on rank 1–5 sources with ragged chunks; 1–4 array indexers on EVERY subset of axes
  (adjacent, non-adjacent, with / without axis 0, last axis; all 56 (rank, subset) classes are enumerated in every run),
  the other axes take integers or full / partial / stepped / reversed slices; the indexers have rank 0–3 and broadcast among
  themselves (different ranks, length-1 axes), negative / repeated / unsorted / empty values, every integer dtype.
* `layout`: the MEMORY LAYOUT of the indexer is a stratum of its own: C, Fortran, transposed view, axis-permuted view,
  strided view, reversed (negative strides) view, read-only, broadcast (stride 0) view, byte-swapped dtype, nested lists —
  for single-axis vindex, multi-axis vindex, x[int array], da.take, NumPy boolean masks (full rank and one axis),
  dask boolean masks / dask integer indexers built from such arrays, dask indexers in vindex (the supported single-block
  1-D form), and sources that are themselves Fortran-ordered.
* `zero-d`: 0-d array indexers (alone, and together with other array indexers).

Oracle: NumPy on a C-contiguous native copy of the LOGICAL index values (so the layout cannot matter); for vindex the brute
force meaning "integers and slices first, then the array-indexed axes are moved to the front and indexed point-wise
(broadcast)", which is what NumPy itself returns when the arrays are separated by a slice.
Checked: refusal / acceptance, shape, values, dtype, advertised shape, advertised chunks (sum and — block by block —
the shape and the values of every block).

A case is a JSON-able dict {"vix": 1, "op", "shape", "chunks", "xorder", "index", ["axis"]}; index items:
  ["s", a, b, c] slice   ["i", v] integer   ["e"] Ellipsis   ["n"] None
  ["x", flat values, shape, dtype, layout]            integer array indexer
  ["m", flat bools, shape, layout]                    NumPy boolean mask
  ["dx", flat values, shape, dtype, layout, chunks]   dask integer indexer built from the laid-out NumPy array
  ["dm", flat bools, shape, layout, chunks]           dask boolean mask built from the laid-out NumPy array
`check_case(case)` is deterministic from the dict alone (replay: `./check C12 --replay <file>`).
"""
from __future__ import annotations

import copy
import itertools
import math
import time
import warnings

import numpy as np

SIG_VINDEX_MULTI = "vindex:multi-array-multi-block"      # listed in known_findings.json (C12)
SIG_ZERO_D_MIX = "vix:vindex:zero-d-indexer-with-array-indexer:TypeError"
SIG_FLOAT = "vix:vindex:float-indexer:accepted"

INT_DTYPES = ["int8", "int16", "int32", "int64", "uint8", "uint16", "uint32", "uint64", "intp"]
LAYOUTS_ND = ["C", "F", "T", "perm", "strided", "rev", "ro", "roF", "bcast", "swap", "list"]
LAYOUTS_1D = ["C", "strided", "rev", "ro", "bcast", "swap", "list"]
NON_C = ("F", "T", "perm", "roF")


# ------------------------------------------------------------------------------------------- building objects


def logical(flat, shape, dtype):
    return np.array(flat, dtype=np.dtype(dtype)).reshape(tuple(shape))


def _c(v):
    """a C-contiguous copy (np.ascontiguousarray would turn a 0-d array into a 1-d one)"""
    return np.array(v, order="C", copy=True)


def lay(v, layout):
    """the C-contiguous array v as an object with the same logical content and the memory layout `layout`"""
    v = _c(v)
    if layout == "C":
        return v.copy()
    if layout == "F":
        return np.asfortranarray(v).copy(order="F") if v.ndim >= 2 else v.copy()
    if layout == "T":                                   # a transposed VIEW (does not own its data)
        return _c(v.T).T
    if layout == "perm":                                # an axis-permuted view: neither C nor F contiguous for ndim >= 3
        return np.moveaxis(_c(np.moveaxis(v, 0, -1)), -1, 0) if v.ndim >= 2 else v.copy()
    if layout == "strided":                             # every second element of a larger buffer
        if v.ndim == 0:
            return np.array([v, v])[1]
        big = np.full(tuple(2 * s for s in v.shape), 1 if v.dtype == bool else 0, dtype=v.dtype)
        sl = tuple(slice(None, None, 2) for _ in v.shape)
        big[sl] = v
        return big[sl]
    if layout == "rev":                                 # negative strides on every axis
        return np.flip(_c(np.flip(v)))
    if layout == "ro":
        c = v.copy()
        c.flags.writeable = False
        return c
    if layout == "roF":
        c = np.asfortranarray(v).copy(order="F") if v.ndim >= 2 else v.copy()
        c.flags.writeable = False
        return c
    if layout == "bcast":                               # stride-0 view along every axis on which v is constant
        sub = v
        for ax in range(v.ndim):
            if sub.shape[ax] > 1 and (sub == sub.take([0], axis=ax)).all():
                sub = sub.take([0], axis=ax)
        return np.broadcast_to(sub, v.shape)
    if layout == "swap":                                # non-native byte order
        return v.astype(v.dtype.newbyteorder()) if v.dtype.itemsize > 1 else v.copy()
    if layout == "list":
        return v.tolist()
    raise ValueError(layout)


def build_item(sp, for_dask):
    import dask_array as da

    k = sp[0]
    if k == "s":
        return slice(sp[1], sp[2], sp[3])
    if k == "i":
        return int(sp[1])
    if k == "e":
        return Ellipsis
    if k == "n":
        return None
    if k == "x":
        obj = lay(logical(sp[1], sp[2], sp[3]), sp[4])
        return obj if for_dask else native(obj, sp[3])
    if k == "m":
        obj = lay(logical(sp[1], sp[2], "bool"), sp[3])
        return obj if for_dask else native(obj, "bool")
    if k == "dx":
        obj = lay(logical(sp[1], sp[2], sp[3]), sp[4])
        if not for_dask:
            return native(obj, sp[3])
        return da.from_array(obj, chunks=tuple(tuple(c) for c in sp[5]))
    if k == "dm":
        obj = lay(logical(sp[1], sp[2], "bool"), sp[3])
        if not for_dask:
            return native(obj, "bool")
        return da.from_array(obj, chunks=tuple(tuple(c) for c in sp[4]))
    raise ValueError(sp)


def native(obj, dtype):
    """C-contiguous, native byte order, freshly owned copy of the logical content (what the oracle indexes with)"""
    a = np.asarray(obj)
    if a.size == 0:
        a = a.astype(np.dtype(dtype))
    return np.array(a.astype(a.dtype.newbyteorder("=")), order="C", copy=True)


def data_of(case):
    shape = tuple(case["shape"])
    x = np.arange(math.prod(shape), dtype=np.int64).reshape(shape)
    if case.get("xorder", "C") == "F":
        x = np.asfortranarray(x)
    return x


def is_arr(sp):
    return sp[0] in ("x", "dx")


def expanded(case):
    """the index items with an Ellipsis replaced by the full slices it stands for and the implied trailing axes added
    (item j then indexes axis j; None entries are dropped — they only occur in cases that must raise)"""
    items = [sp for sp in case["index"] if sp[0] != "n"]
    rank = len(case["shape"])
    out = []
    for sp in items:
        if sp[0] == "e":
            out += [["s", None, None, None]] * max(0, rank - (len(items) - 1))
        else:
            out.append(sp)
    return out + [["s", None, None, None]] * (rank - len(out))


# ---------------------------------------------------------------------------------------------------- oracles


def np_vindex(x, idx):
    """brute-force meaning of `.vindex`: integers and slices first, then the array-indexed axes lead the result and are
    indexed point-wise (broadcast)"""
    idx = list(idx)
    if any(i is None for i in idx):
        raise IndexError("vindex does not support None")
    if sum(i is Ellipsis for i in idx) > 1:
        raise IndexError("an index can only have a single ellipsis")
    if any(i is Ellipsis for i in idx):
        loc = [k for k, i in enumerate(idx) if i is Ellipsis][0]
        idx[loc: loc + 1] = [slice(None)] * (x.ndim - (len(idx) - 1))
    if len(idx) > x.ndim:
        raise IndexError("too many indices")
    idx += [slice(None)] * (x.ndim - len(idx))
    nonfancy = tuple(i if isinstance(i, (int, slice)) else slice(None) for i in idx)
    x1 = x[nonfancy]
    reduced = [i for i in idx if not isinstance(i, int)]
    axes = [k for k, i in enumerate(reduced) if not isinstance(i, slice)]
    if not axes and any(i != slice(None) for i in reduced):
        raise IndexError("vindex requires at least one non-slice to vectorize over")
    arrs = []
    for k in axes:
        a = np.asarray(reduced[k])
        if a.dtype.kind not in "iu":
            raise IndexError("not an integer array")
        a = a.astype(np.int64) if a.dtype != np.uint64 else a.astype(object).astype(np.int64)
        if a.size and ((a >= x1.shape[k]) | (a < -x1.shape[k])).any():
            raise IndexError("out of bounds")
        arrs.append(a)
    try:
        arrs = np.broadcast_arrays(*arrs)
    except ValueError as e:
        raise IndexError("shape mismatch") from e
    out_shape = arrs[0].shape + tuple(n for k, n in enumerate(x1.shape) if k not in axes)
    out = np.empty(out_shape, dtype=x.dtype)
    for p in np.ndindex(*arrs[0].shape):                # element loop: no NumPy advanced-indexing placement rule involved
        sel = [slice(None)] * x1.ndim
        for k, a in zip(axes, arrs):
            sel[k] = int(a[p])
        out[p] = x1[tuple(sel)]
    return out


def oracle(case, x):
    op = case["op"]
    idx = tuple(build_item(sp, False) for sp in case["index"])
    try:
        if op == "vindex":
            return "ok", np.asarray(np_vindex(x, idx))
        if op == "getitem":
            return "ok", np.asarray(x[idx])
        if op == "take":
            return "ok", np.asarray(np.take(x, idx[0], axis=case["axis"]))
    except (IndexError, ValueError) as e:
        return "err", type(e).__name__ + ": " + str(e)[:80]
    raise ValueError(op)


def real_call(case, d, idx=None):
    import dask_array as da

    op = case["op"]
    idx = tuple(build_item(sp, True) for sp in case["index"]) if idx is None else idx
    if op == "vindex":
        return d.vindex[idx]
    if op == "getitem":
        return d[idx]
    if op == "take":
        return da.take(d, idx[0], axis=case["axis"])
    raise ValueError(op)


# ------------------------------------------------------------------------------------------------ classification


def bshape_of(case):
    try:
        return tuple(np.broadcast_shapes(*(tuple(sp[2]) for sp in case["index"] if is_arr(sp))))
    except ValueError:
        return None


def in_vindex_multi_class(case, y):
    """the listed class `vindex:multi-array-multi-block`: >= 2 index arrays, a sliced axis left over, the point dimension is
    1-D (the final reshape is then the identity and the flat key list of VIndexArray reaches the collection) and the result
    has more than one block"""
    if case["op"] != "vindex" or sum(is_arr(sp) for sp in case["index"]) < 2:
        return False
    bs = bshape_of(case)
    try:
        return bs is not None and len(bs) == 1 and y.ndim > 1 and math.prod(y.numblocks) > 1
    except Exception:  # noqa: BLE001
        return False


def static_vindex_multi(case):
    """a cheap over-approximation of that class, used to steer the generators away from it"""
    if case["op"] != "vindex":
        return False
    arr = [sp for sp in case["index"] if is_arr(sp)]
    bs = bshape_of(case)
    if len(arr) < 2 or bs is None or len(bs) != 1:
        return False
    arr_axes, sl_axes = [], []
    for ax, sp in enumerate(expanded(case)[: len(case["shape"])]):
        (arr_axes if is_arr(sp) else sl_axes if sp[0] == "s" else []).append(ax)
    if not sl_axes:
        return False
    m = math.prod(max(case["chunks"][a]) for a in arr_axes)
    return bs[0] > m or any(len(case["chunks"][a]) > 1 for a in sl_axes)


def zero_d_mix(case):
    """a 0-d array indexer together with another array indexer in one vindex tuple"""
    arr = [sp for sp in case["index"] if is_arr(sp)]
    return case["op"] == "vindex" and len(arr) >= 2 and any(len(sp[2]) == 0 for sp in arr)


def order_free(case, d):
    """a full-rank dask boolean mask on a multi-block array: the code documents block-major order"""
    if case.get("exact"):
        return False
    return any(sp[0] == "dm" and len(sp[2]) == len(case["shape"]) and len(sp[2]) > 1 for sp in case["index"])


# -------------------------------------------------------------------------------------------------- run one case


def op_class(case):
    """the class part of a signature: which indexing path / axis pattern the case belongs to"""
    if case["op"] != "vindex":
        kinds = {sp[0] for sp in case["index"]}
        return case["op"] + ("-mask" if kinds & {"m", "dm"} else "") + ("-dask" if kinds & {"dx", "dm"} else "")
    pos = [j for j, sp in enumerate(q for q in expanded(case) if q[0] != "i") if is_arr(sp)]
    if any(sp[0] == "dx" for sp in case["index"]):
        return "vindex-dask"
    if len(pos) <= 1:
        return "vindex-1"
    return "vindex-n-" + ("adjacent" if all(b - a == 1 for a, b in zip(pos, pos[1:])) else "separated")


def plain_layouts(case):
    """the same case with every indexer C-contiguous / native / writable (None when it already is)"""
    c = copy.deepcopy(case)
    changed = False
    for sp in c["index"]:
        j = 4 if sp[0] in ("x", "dx") else 3 if sp[0] in ("m", "dm") else None
        if j is not None and sp[j] != "C":
            sp[j] = "C"
            changed = True
    if c.get("xorder", "C") != "C":
        c["xorder"] = "C"
        changed = True
    return c if changed else None


def check_case(case, blocks=True):
    """[(signature, what)] — empty when the real code agrees with NumPy under both optimizer settings.  A failure that
    disappears when every indexer (and the source) is made C-contiguous is marked `:layout-dependent`."""
    probs = _check_case(case, blocks)
    if probs:
        pc = plain_layouts(case)
        if pc is not None:
            try:
                plain = {s for s, _ in _check_case(pc, blocks)}
            except Exception:  # noqa: BLE001
                plain = None
            if plain is not None:
                probs = [(s + ":layout-dependent", w) if s.startswith("vix:") and s not in plain and s not in (SIG_ZERO_D_MIX, SIG_FLOAT) else (s, w) for s, w in probs]
    return probs


def _check_case(case, blocks=True):
    import dask
    import dask_array as da
    from dask.core import flatten

    op = op_class(case)
    x = data_of(case)
    want = oracle(case, x)
    out = []
    for opt in (True, False):
        prob = None
        cfg = {"array.optimize-graph": opt, "scheduler": "sync"}
        cfg.update(case.get("cfg") or {})
        with dask.config.set(cfg), warnings.catch_warnings():
            warnings.simplefilter("ignore")
            d = da.from_array(x, chunks=tuple(tuple(c) for c in case["chunks"]))
            y = None
            idx = tuple(build_item(sp, True) for sp in case["index"])
            before = [copy.deepcopy(i) if isinstance(i, list) else i.copy() if isinstance(i, np.ndarray) else None for i in idx]
            try:
                y = real_call(case, d, idx)
                r = np.asarray(y.compute())
                got = ("ok", r)
            except Exception as e:  # noqa: BLE001
                got = ("err", type(e).__name__ + ": " + str(e)[:120], type(e))
            for j, (i, b) in enumerate(zip(idx, before)):        # the caller's indexer objects are not to be modified
                if b is not None and not (i == b if isinstance(i, list) else np.array_equal(i, b)):
                    prob = (f"vix:{op}:indexer-modified-in-place", f"index item {j} was {np.asarray(b).tolist()!r:.80}, is {np.asarray(i).tolist()!r:.80} after the call")
            if prob:
                pass
            elif want[0] == "err" and got[0] == "ok":
                prob = (f"vix:{op}:accepts-index-numpy-rejects", f"NumPy raises {want[1]}; got {got[1].tolist()!r:.120}")
            elif want[0] == "ok" and got[0] == "err":
                if case.get("must", True):
                    prob = (f"vix:{op}:refuses-valid-index", f"NumPy returns shape {list(want[1].shape)}; the call raised {got[1]}")
                elif not issubclass(got[2], (IndexError, ValueError, TypeError, NotImplementedError)):
                    prob = (f"vix:{op}:crash:{got[2].__name__}", f"the call raised {got[1]}")
            elif want[0] == "ok":
                w, r = want[1], got[1]
                free = order_free(case, d)
                if free:
                    if sorted(w.ravel().tolist()) != sorted(r.ravel().tolist()):
                        prob = (f"vix:{op}:wrong-values", f"not the selected multiset: {r.tolist()!r:.80} vs NumPy {w.tolist()!r:.80}")
                elif w.shape != r.shape:
                    prob = (f"vix:{op}:wrong-shape", f"shape {list(r.shape)}, NumPy {list(w.shape)}")
                elif not np.array_equal(w, r):
                    bad = np.argwhere(w != r)
                    prob = (f"vix:{op}:wrong-values", f"{len(bad)} of {w.size} elements differ, first at {bad[0].tolist()}: "
                                                      f"{r[tuple(bad[0])]} != {w[tuple(bad[0])]}")
                elif r.dtype != w.dtype or y.dtype != w.dtype:
                    prob = (f"vix:{op}:wrong-dtype", f"dtype {r.dtype} (advertised {y.dtype}), NumPy {w.dtype}")
                if prob is None and not any(isinstance(s, float) and math.isnan(s) for s in y.shape):
                    if tuple(int(s) for s in y.shape) != r.shape:
                        prob = (f"vix:{op}:advertised-shape", f"advertised shape {y.shape}, computed {r.shape}")
                    elif len(y.chunks) != r.ndim or any(sum(c) != s for c, s in zip(y.chunks, r.shape)):
                        prob = (f"vix:{op}:chunks-sum", f"chunks {y.chunks!r} do not add up to {r.shape}")
                    elif blocks and opt and not free:
                        try:
                            keys = list(flatten(y.__dask_keys__()))
                            vals = dask.get(dict(y.__dask_graph__()), keys)
                            ids = list(itertools.product(*[range(len(c)) for c in y.chunks]))
                            if len(ids) != len(keys):
                                prob = (f"vix:{op}:block-count", f"{len(keys)} keys for chunks {y.chunks!r}")
                            else:
                                starts = [np.concatenate([[0], np.cumsum(c)]).tolist() for c in y.chunks]
                                for bid, val in zip(ids, vals):
                                    val = np.asarray(val)
                                    exp = tuple(int(c[b]) for c, b in zip(y.chunks, bid))
                                    if tuple(val.shape) != exp:
                                        prob = (f"vix:{op}:block-shape", f"block {list(bid)} has shape {list(val.shape)}, chunks say {list(exp)}")
                                        break
                                    sl = tuple(slice(int(st[b]), int(st[b]) + int(c[b])) for st, c, b in zip(starts, y.chunks, bid))
                                    if not np.array_equal(val, w[sl]):
                                        prob = (f"vix:{op}:block-values", f"block {list(bid)} is not the NumPy slice of the result")
                                        break
                        except Exception as e:  # noqa: BLE001
                            prob = (f"vix:{op}:refuses-valid-index", f"computing the blocks one by one raised {type(e).__name__}: {str(e)[:120]}")
            if prob and y is not None and in_vindex_multi_class(case, y) and prob[0].split(":")[-1] in (
                    "refuses-valid-index", "wrong-shape", "wrong-values", "block-count", "block-shape", "block-values"):
                prob = (SIG_VINDEX_MULTI, prob[1])
            if prob and prob[0].endswith("accepts-index-numpy-rejects") and case["op"] == "vindex" and any(
                    is_arr(sp) and np.dtype(sp[3]).kind == "f" for sp in case["index"]):
                prob = (SIG_FLOAT, prob[1])
            if prob and zero_d_mix(case) and prob[0].endswith("refuses-valid-index") and "TypeError" in prob[1]:
                prob = (SIG_ZERO_D_MIX, prob[1])
        if prob:
            out.append((prob[0], f"[optimize-graph={opt}] " + prob[1]))
    seen = {}
    for s, wh in out:
        seen.setdefault(s, (s, wh))
    return list(seen.values())


# --------------------------------------------------------------------------------------------------- generators


def rand_chunks(rng, n, maxparts=3, zero=0.0):
    if n == 0:
        return [0]
    k = rng.randint(1, min(maxparts, n))
    cuts = sorted(rng.sample(range(1, n), k - 1)) if k > 1 else []
    cs = [b - a for a, b in zip([0] + cuts, cuts + [n])]
    if rng.random() < zero:
        cs.insert(rng.randint(0, len(cs)), 0)
    return cs


def fit_dtypes(vals, n):
    lo, hi = (min(vals), max(vals)) if vals else (0, 0)
    return [t for t in INT_DTYPES if np.iinfo(t).min <= lo and hi <= np.iinfo(t).max]


def rand_values(rng, count, n, neg=0.3, style=None):
    """`count` valid positions on an axis of length n: unsorted / repeated / sorted / constant, some negative"""
    if n == 0:
        return []
    style = style or rng.choice(["rand", "rand", "rand", "sorted", "const", "desc"])
    if style == "const":
        v = [rng.randrange(n)] * count
    else:
        v = [rng.randrange(n) for _ in range(count)]
        if style == "sorted":
            v.sort()
        elif style == "desc":
            v.sort(reverse=True)
    return [q - n if rng.random() < neg else q for q in v]


def x_item(rng, shp, n, layout, dtype=None, neg=0.3, const_axis=None):
    """an integer array indexer of logical shape shp for an axis of length n"""
    count = math.prod(shp)
    if n and const_axis is not None and len(shp) > const_axis and shp[const_axis] > 1:      # constant along one axis (for `bcast`)
        sub = list(shp)
        sub[const_axis] = 1
        a = np.array(rand_values(rng, math.prod(sub), n, neg), dtype=np.int64).reshape(sub)
        vals = np.broadcast_to(a, shp).ravel().tolist()
    else:
        vals = rand_values(rng, count, n, neg)
    if len(vals) != count:          # empty axis: no valid position
        shp = tuple(0 if k == 0 else s for k, s in enumerate(shp)) if shp else (0,)
        vals = []
    dts = fit_dtypes(vals, n)
    dt = dtype if dtype in dts else rng.choice(dts)
    return ["x", vals, list(shp), dt, layout]


BSHAPES = {
    1: [[(3,)], [(5,)], [(1,)], [(2, 3)], [(3, 2)], [(2, 2, 2)], [(2, 1, 3)], [(4, 1)], [(0,)], [(2, 0)], [()]],
    2: [[(3,), (3,)], [(4,), (1,)], [(1,), (5,)], [(3, 1), (1, 4)], [(2, 3), (2, 3)], [(2, 3), (3,)], [(3,), (2, 3)], [(2, 1), (2,)],
        [(2, 1, 2), (3, 1)], [(2, 2, 2), (2, 2, 2)], [(1, 3), (2, 1)], [(0,), (0,)], [(2, 0), (1,)], [(2,), (3,)]],
    3: [[(2,), (2,), (2,)], [(3, 1), (1, 2), (1,)], [(4,), (1,), (4,)], [(2, 1, 1), (1, 2, 1), (1, 1, 2)], [(2, 3), (3,), (2, 1)], [(2, 2), (2, 2), (2, 2)]],
    4: [[(3,), (3,), (3,), (3,)], [(2, 1), (1, 3), (1,), (2, 3)], [(2, 2), (2,), (1,), (2, 1)], [(2, 1, 1), (2, 1), (2,), (1,)]],
}


def pick_layout(rng, ndim, p_plain=0.25):
    if ndim >= 2:
        return "C" if rng.random() < p_plain else rng.choice(["F", "T", "perm", "strided", "rev", "ro", "roF", "swap", "list", "F", "T"])
    return "C" if rng.random() < 0.4 else rng.choice(["strided", "rev", "ro", "swap", "list"])


def rand_slice_item(rng, n):
    r = rng.random()
    if r < 0.45:
        return ["s", None, None, None]
    if r < 0.7:                                                   # partial
        lo = rng.randint(0, max(0, n - 1))
        return ["s", lo if rng.random() < 0.7 else None, rng.choice([None, n, max(lo, n - 1), -1]) if n else None, None]
    if r < 0.9:                                                   # stepped
        return ["s", rng.choice([None, 0, 1]), None, rng.choice([2, 3])]
    return ["s", None, None, -1] if rng.random() < 0.6 else ["s", rng.choice([None, -1, n - 1]), rng.choice([None, 0]), rng.choice([-1, -2])]


def gen_vindex_axes(rng, rank, arr_axes, layout_for=None, shapes=None, ints=True):
    """one vindex case for a given rank and set of array-indexed axes"""
    k = len(arr_axes)
    shapes = list(shapes if shapes is not None else rng.choice(BSHAPES[k]))
    if shapes is not None and rng.random() < 0.5:
        shapes = shapes[::-1] if k == 2 else rng.sample(shapes, len(shapes))
    maxdim = 5 if rank <= 3 else 4
    shape = [rng.randint(2, maxdim) for _ in range(rank)]
    if rng.random() < 0.04:
        shape[rng.randrange(rank)] = rng.choice([0, 1])
    chunks = [rand_chunks(rng, n, maxparts=3 if rank <= 3 else 2, zero=0.04) for n in shape]
    index = []
    for a in range(rank):
        n = shape[a]
        if a in arr_axes:
            shp = tuple(shapes[arr_axes.index(a)])
            lo = layout_for if layout_for is not None else pick_layout(rng, len(shp))
            index.append(x_item(rng, shp, n, lo, const_axis=0 if lo == "bcast" else None, neg=rng.choice([0.0, 0.3])))
        elif ints and n and rng.random() < 0.15:
            index.append(["i", rng.randrange(n) - (n if rng.random() < 0.3 else 0)])
        else:
            index.append(rand_slice_item(rng, n))
    full = ["s", None, None, None]
    if rng.random() < 0.15:                                        # an Ellipsis for a (possibly empty) run of full slices
        runs = [(a, b) for a in range(rank + 1) for b in range(a, rank + 1) if all(sp == full for sp in index[a:b])]
        a, b = rng.choice(runs)
        index[a:b] = [["e"]]
    else:
        while index and index[-1] == full and rng.random() < 0.3:
            index.pop()                                            # short index: trailing axes implied
    case = {"vix": 1, "op": "vindex", "shape": shape, "chunks": chunks, "xorder": "F" if rng.random() < 0.15 else "C", "index": index}
    if rng.random() < 0.12:                                        # tiny target chunk size: the take / merge stages split
        case["cfg"] = {"array.chunk-size": rng.choice(["16B", "64B", "256B"])}
    if bshape_of(case) is None:
        case["must"] = False                                       # not broadcastable: IndexError on both sides
    if static_vindex_multi(case):                                  # steer away from the listed class: one block on the sliced
        for ax, sp in enumerate(expanded(case)[:rank]):            # axes, all the points in one block
            if not is_arr(sp):
                chunks[ax] = [shape[ax]]
        bs = bshape_of(case)
        m = math.prod(max(chunks[a]) for a in arr_axes)
        if bs[0] > m:
            chunks[arr_axes[0]] = [shape[arr_axes[0]]]
            if bs[0] > math.prod(max(chunks[a]) for a in arr_axes):
                for a in arr_axes:
                    chunks[a] = [shape[a]]
    return case


def subset_class(rank, axes):
    axes = list(axes)
    adj = all(b - a == 1 for a, b in zip(axes, axes[1:]))
    return (f"rank{rank}", f"k{len(axes)}", "adjacent" if adj else "separated", "axis0" if 0 in axes else "no-axis0",
            "last" if rank - 1 in axes else "no-last")


def all_subsets():
    for rank in range(1, 6):
        for k in range(1, min(rank, 4) + 1):
            for axes in itertools.combinations(range(rank), k):
                yield rank, list(axes)


def gen_layout_cases(rng):
    """the layout stratum: (family, layout, indexer rank) enumerated, everything else random; yields (case, key)"""
    # -- single-axis vindex (the Shuffle path): every layout x indexer rank 1..3 x axis position
    for nd, shp in ((1, (4,)), (2, (2, 3)), (2, (3, 2)), (3, (2, 3, 2)), (3, (2, 1, 3))):
        for lo in (LAYOUTS_ND if nd >= 2 else LAYOUTS_1D):
            rank = rng.randint(1, 4)
            ax = rng.choice([0, rank - 1, rng.randrange(rank)])
            c = gen_vindex_axes(rng, rank, [ax], layout_for=lo, shapes=[shp], ints=False)
            yield c, ("layout", "vindex-1", lo, f"nd{nd}", "axis0" if ax == 0 else "inner")
    # -- multi-axis vindex (the VIndexArray path): every layout on every indexer
    for shapes in ([(2, 3), (2, 3)], [(3, 1), (1, 2)], [(2, 2, 2), (2, 2)], [(4,), (4,)]):
        for lo in (LAYOUTS_ND if len(shapes[0]) >= 2 else LAYOUTS_1D):
            rank = rng.randint(2, 4)
            axes = sorted(rng.sample(range(rank), 2))
            c = gen_vindex_axes(rng, rank, axes, layout_for=lo, shapes=shapes, ints=False)
            yield c, ("layout", "vindex-2", lo, f"nd{len(shapes[0])}", subset_class(rank, axes)[2:4])
    # -- x[..., int array, ...] and da.take: 1-D indexers (n-d ones are the listed nd-int-array-index class)
    for op in ("getitem", "take"):
        for lo in LAYOUTS_1D:
            rank = rng.randint(1, 3)
            ax = rng.randrange(rank)
            shape = [rng.randint(2, 6) for _ in range(rank)]
            chunks = [rand_chunks(rng, n, zero=0.05) for n in shape]
            it = x_item(rng, (rng.choice([1, 3, 5, 7]),), shape[ax], lo, const_axis=0 if lo == "bcast" else None)
            if op == "take":
                case = {"vix": 1, "op": "take", "shape": shape, "chunks": chunks, "xorder": rng.choice("CF"), "index": [it], "axis": ax}
            else:
                index = [rand_slice_item(rng, n) for n in shape]
                index[ax] = it
                case = {"vix": 1, "op": "getitem", "shape": shape, "chunks": chunks, "xorder": rng.choice("CF"), "index": index[: rng.randint(ax + 1, rank)]}
            yield case, ("layout", op, lo)
    # -- NumPy boolean masks: full rank (layouts of an n-d mask) and one axis
    for rank in (2, 3):
        for lo in ("C", "F", "T", "perm", "strided", "rev", "ro", "roF"):
            shape = [rng.randint(2, 4) for _ in range(rank)]
            chunks = [rand_chunks(rng, n) for n in shape]
            mk = [rng.random() < 0.55 for _ in range(math.prod(shape))]
            case = {"vix": 1, "op": "getitem", "shape": shape, "chunks": chunks, "xorder": rng.choice("CF"), "index": [["m", mk, shape, lo]]}
            yield case, ("layout", "npmask-full", lo, f"rank{rank}")
        for lo in ("F", "T", "strided"):                      # a 2-d mask on the leading two axes of a 3-d array / trailing via slices
            if rank == 3:
                shape = [rng.randint(2, 4) for _ in range(rank)]
                chunks = [rand_chunks(rng, n) for n in shape]
                lead = rng.random() < 0.5
                ms = shape[:2] if lead else shape[1:]
                mk = [rng.random() < 0.55 for _ in range(math.prod(ms))]
                index = [["m", mk, ms, lo]] if lead else [["s", None, None, None], ["m", mk, ms, lo]]
                case = {"vix": 1, "op": "getitem", "shape": shape, "chunks": chunks, "xorder": "C", "index": index, "must": False}
                yield case, ("layout", "npmask-partial", lo, "lead" if lead else "trail")
    for lo in ("C", "strided", "rev", "ro", "bcast", "list"):
        rank = rng.randint(1, 3)
        ax = rng.randrange(rank)
        shape = [rng.randint(2, 6) for _ in range(rank)]
        chunks = [rand_chunks(rng, n, zero=0.05) for n in shape]
        mk = [rng.random() < 0.55 for _ in range(shape[ax])] if lo != "bcast" else [rng.random() < 0.7] * shape[ax]
        index = [["s", None, None, None]] * ax + [["m", mk, [shape[ax]], lo]]
        yield {"vix": 1, "op": "getitem", "shape": shape, "chunks": chunks, "xorder": rng.choice("CF"), "index": index}, ("layout", "npmask-axis", lo)
    # -- dask masks / dask integer indexers built from laid-out NumPy arrays
    for lo in ("F", "T", "perm", "strided", "rev"):
        rank = rng.choice([2, 3])
        shape = [rng.randint(2, 4) for _ in range(rank)]
        chunks = [rand_chunks(rng, n) for n in shape]
        mk = [rng.random() < 0.55 for _ in range(math.prod(shape))]
        mch = chunks if rng.random() < 0.6 else [rand_chunks(rng, n) for n in shape]
        yield {"vix": 1, "op": "getitem", "shape": shape, "chunks": chunks, "xorder": "C", "index": [["dm", mk, shape, lo, mch]]}, ("layout", "damask-full", lo)
        # the same on a single-block array: the order is NumPy's and is compared exactly
        one = [[n] for n in shape]
        yield {"vix": 1, "op": "getitem", "shape": shape, "chunks": one, "xorder": "C", "index": [["dm", mk, shape, lo, one]], "exact": True}, ("layout", "damask-full-1block", lo)
    for lo in ("strided", "rev", "ro"):
        rank = rng.randint(1, 3)
        ax = rng.randrange(rank)
        shape = [rng.randint(2, 6) for _ in range(rank)]
        chunks = [rand_chunks(rng, n) for n in shape]
        mk = [rng.random() < 0.55 for _ in range(shape[ax])]
        index = [["s", None, None, None]] * ax + [["dm", mk, [shape[ax]], lo, [chunks[ax] if rng.random() < 0.6 else rand_chunks(rng, shape[ax])]]]
        yield {"vix": 1, "op": "getitem", "shape": shape, "chunks": chunks, "xorder": "C", "index": index}, ("layout", "damask-axis", lo)
        it = x_item(rng, (rng.choice([1, 3, 5]),), shape[ax], lo)
        index = [["s", None, None, None]] * ax + [["dx", it[1], it[2], it[3], lo, [rand_chunks(rng, it[2][0], maxparts=2)]]]
        yield {"vix": 1, "op": "getitem", "shape": shape, "chunks": chunks, "xorder": "C", "index": index}, ("layout", "daint", lo)
    # -- dask indexers in vindex: the supported form (1-D single-block source, one n-d dask indexer)
    for lo, shp in (("C", (3,)), ("F", (2, 3)), ("T", (3, 2)), ("perm", (2, 2, 2)), ("strided", (2, 2))):
        n = rng.randint(2, 7)
        it = x_item(rng, shp, n, lo, neg=0.3)
        ich = [rand_chunks(rng, s, maxparts=2) for s in shp]
        yield {"vix": 1, "op": "vindex", "shape": [n], "chunks": [[n]], "xorder": "C", "index": [["dx", it[1], it[2], it[3], lo, ich]]}, ("layout", "vindex-dask", lo)


def gen_zero_d(rng):
    """0-d array indexers in vindex: alone (any rank / axis) and together with another array indexer"""
    for rank in (1, 2, 3):
        ax = rng.randrange(rank)
        shape = [rng.randint(2, 5) for _ in range(rank)]
        chunks = [rand_chunks(rng, n) for n in shape]
        index = [rand_slice_item(rng, n) for n in shape]
        index[ax] = x_item(rng, (), shape[ax], "C")
        yield {"vix": 1, "op": "vindex", "shape": shape, "chunks": chunks, "xorder": "C", "index": index}, ("zero-d", "alone", f"rank{rank}")
    for rank in (2, 3):
        a, b = sorted(rng.sample(range(rank), 2))
        shape = [rng.randint(2, 5) for _ in range(rank)]
        chunks = [[n] for n in shape]
        index = [["s", None, None, None] for _ in shape]
        index[a] = x_item(rng, (), shape[a], "C")
        index[b] = x_item(rng, (3,), shape[b], "C")
        if rng.random() < 0.5:
            index[a], index[b] = x_item(rng, (3,), shape[a], "C"), x_item(rng, (), shape[b], "C")
        yield {"vix": 1, "op": "vindex", "shape": shape, "chunks": chunks, "xorder": "C", "index": index}, ("zero-d", "mixed", f"rank{rank}")


def gen_oob(rng):
    """out-of-bounds / not broadcastable / too many indices: must raise (every layout path keeps the bounds check)"""
    for k in (1, 2):
        for lo in ("C", "F", "list"):
            rank = rng.randint(k, 4)
            axes = sorted(rng.sample(range(rank), k))
            c = gen_vindex_axes(rng, rank, axes, layout_for=lo, shapes=[(2, 2)] * k, ints=False)
            ax = rng.choice(axes)
            n = c["shape"][ax]
            j = [i for i, sp in enumerate(c["index"]) if is_arr(sp)][axes.index(ax)]
            if c["index"][j][1]:
                c["index"][j][1][rng.randrange(len(c["index"][j][1]))] = rng.choice([n, -n - 1, n + 3])
                c["index"][j][3] = "int64"
            yield c, ("oob", f"k{k}", lo)


def gen_unsupported(rng):
    """what vindex does not support must RAISE (never return data): None, boolean arrays, float arrays (integer-valued and
    fractional), two Ellipses, too many indices, partial slices only"""
    def base(rank):
        shape = [rng.randint(2, 5) for _ in range(rank)]
        return shape, [rand_chunks(rng, n) for n in shape]

    for k in (1, 2):
        for frac in (False, True):
            rank = rng.randint(k, 3)
            shape, chunks = base(rank)
            axes = sorted(rng.sample(range(rank), k))
            index = [["s", None, None, None] for _ in shape]
            for j, a in enumerate(axes):
                vals = [float(rng.randrange(shape[a])) for _ in range(3)]
                if j == 0:
                    if frac:
                        vals[0] = min(vals[0], shape[a] - 1.0) + 0.5 if vals[0] + 0.5 < shape[a] else 0.5
                    index[a] = ["x", vals, [3], "float64", "C"]
                else:
                    index[a] = ["x", [int(v) for v in vals], [3], "int64", "C"]
            yield ({"vix": 1, "op": "vindex", "shape": shape, "chunks": chunks, "xorder": "C", "index": index, "must": False},
                   ("unsupported", "float", f"k{k}", "fractional" if frac else "integer-valued"))
    for kind in ("none", "bool", "two-ellipses", "too-many", "partial-slices"):
        rank = rng.randint(1, 3)
        shape, chunks = base(rank)
        a = rng.randrange(rank)
        index = [["s", None, None, None] for _ in shape]
        index[a] = x_item(rng, (3,), shape[a], "C")
        if kind == "none":
            index.insert(rng.randint(0, rank), ["n"])
        elif kind == "bool":
            index[a] = ["m", [rng.random() < 0.5 for _ in range(shape[a])], [shape[a]], rng.choice(["C", "strided"])]
        elif kind == "two-ellipses":
            index = [["e"], index[a], ["e"]]
        elif kind == "too-many":
            index.append(x_item(rng, (3,), 2, "C"))
        else:
            index = [["s", 1, None, None] for _ in shape]
        yield ({"vix": 1, "op": "vindex", "shape": shape, "chunks": chunks, "xorder": "C", "index": index, "must": False}, ("unsupported", kind))


# ----------------------------------------------------------------------------------------- shrink / report / replay


def shrink(case, sig, budget=40):
    """cheap reductions that keep the signature: plain layouts, single chunks, C-ordered source, fewer points"""

    def still(c):
        try:
            return any(s == sig for s, _ in check_case(c, blocks=":block-" in sig))
        except Exception:  # noqa: BLE001
            return False

    cur = copy.deepcopy(case)
    cands = []
    if cur.get("cfg"):
        cands.append(lambda c: c.pop("cfg"))
    if cur.get("xorder") == "F":
        cands.append(lambda c: c.__setitem__("xorder", "C"))
    for j, sp in enumerate(cur["index"]):
        if sp[0] in ("x", "dx") and sp[4] != "C":
            cands.append(lambda c, j=j: c["index"][j].__setitem__(4, "C"))
        if sp[0] in ("m", "dm") and sp[3] != "C":
            cands.append(lambda c, j=j: c["index"][j].__setitem__(3, "C"))
        if sp[0] in ("x", "dx") and sp[3] != "int64":
            cands.append(lambda c, j=j: c["index"][j].__setitem__(3, "int64"))
        if sp[0] == "s" and sp[1:] != [None, None, None]:
            cands.append(lambda c, j=j: c["index"].__setitem__(j, ["s", None, None, None]))
        if sp[0] in ("x", "dx") and any(q < 0 for q in sp[1]):
            def pos(c, j=j):
                ax = [k for k, q in enumerate(expanded(c)) if q is c["index"][j]][0]
                n = c["shape"][ax]
                c["index"][j][1] = [q % n for q in c["index"][j][1]]
            cands.append(pos)
    if any(sp[0] == "e" for sp in cur["index"]) and cur["op"] == "vindex":
        cands.append(lambda c: c.__setitem__("index", expanded(c)))
    if not any(sp[0] in ("dm", "dx") for sp in cur["index"]):
        for a in range(len(cur["shape"])):
            cands.append(lambda c, a=a: c["chunks"].__setitem__(a, [c["shape"][a]]))
    for fn in cands[:budget]:
        trial = copy.deepcopy(cur)
        try:
            fn(trial)
        except Exception:  # noqa: BLE001
            continue
        if trial != cur and still(trial):
            cur = trial
    return cur


def describe(case):
    parts = []
    for sp in case["index"]:
        if sp[0] == "s":
            parts.append(":".join("" if v is None else str(v) for v in sp[1:4]))
        elif sp[0] == "i":
            parts.append(str(sp[1]))
        elif sp[0] in ("e", "n"):
            parts.append("..." if sp[0] == "e" else "None")
        elif sp[0] in ("x", "dx"):
            parts.append(f"{'dask ' if sp[0] == 'dx' else ''}{sp[3]}{list(sp[2])}/{sp[4]}")
        else:
            parts.append(f"{'dask ' if sp[0] == 'dm' else ''}bool{list(sp[2])}/{sp[3]}")
    return f"{case['op']}[{', '.join(parts)}] on shape {case['shape']} chunks {case['chunks']} ({case.get('xorder', 'C')}-ordered source)"


def report(ctx, case, probs, do_shrink=True):
    for sig, what in probs:
        c = case
        if do_shrink and sum(1 for f in ctx.failures if f["sig"] == sig) < 2:
            c = shrink(case, sig)
            again = [w for s, w in check_case(c) if s == sig]
            what = again[0] if again else what
        ctx.fail(sig, c, describe(c) + ": " + what)


def replay(ctx, case):
    probs = check_case(case)
    ctx.count(("vix", "replay"))
    ctx.sample({"replay": case, "problems": [p[0] for p in probs]})
    report(ctx, case, probs, do_shrink=False)


# ------------------------------------------------------------------------------------------------------- entry


def run(ctx, replay_case=None):
    warnings.simplefilter("ignore")
    if replay_case is not None:
        return replay(ctx, replay_case)
    rng = ctx.rng
    t0 = time.time()
    if isinstance(ctx.rule, str):
        ctx.rule += (
            " | vix (props_ext/c12_vindex): x.vindex on rank 1-5 ragged sources with 1-4 array indexers on EVERY subset of axes (56 (rank, "
            "subset) classes enumerated per run: adjacent / separated, with / without axis 0, last axis), other axes integers or full / partial / "
            "stepped / reversed slices, indexers of rank 0-3 that broadcast among themselves, negative / repeated / empty values, every integer "
            "dtype; LAYOUT stratum: C / Fortran / transposed view / axis-permuted view / strided / negative strides / read-only / broadcast "
            "(stride 0) / byte-swapped / nested lists for single- and multi-axis vindex, x[int array], da.take, NumPy masks (full rank, leading / "
            "trailing 2-d, one axis), dask masks and dask integer indexers built from such arrays, dask indexers in vindex, Fortran-ordered "
            "sources; 0-d indexers; out-of-bounds per layout; vs NumPy on a C-contiguous copy of the logical values / brute-force vindex: "
            "refusal, shape, values, dtype, advertised shape and chunks, every block; distinct by (stratum, rank, #arrays, adjacency, axis 0, "
            "last axis, layout, indexer rank)"
        )
    cases = []
    reps = ctx.scale(4, 24)
    for _ in range(reps):
        for rank, axes in all_subsets():
            cases.append((gen_vindex_axes(rng, rank, axes), ("vindex-axes",) + subset_class(rank, axes)))
    # the separated / no-axis-0 classes (rank >= 4) once more with all the sliced axes in ONE block and equal axis lengths (a misplaced
    # point axis is then a silent transposition, not a shape error)
    for rank, axes in all_subsets():
        if rank >= 3 and len(axes) >= 2 and subset_class(rank, axes)[2] == "separated":
            c = gen_vindex_axes(rng, rank, axes, shapes=[(3,)] * len(axes) if rng.random() < 0.5 else None, ints=False)
            if rng.random() < 0.5:
                c["shape"] = [3] * rank
                items = expanded(c)[:rank]
                c["chunks"] = [[3] if not is_arr(sp) else rand_chunks(rng, 3, maxparts=2) for sp in items]
                c["index"] = [x_item(rng, tuple(sp[2]), 3, sp[4]) if is_arr(sp) else ["s", None, None, None] for sp in items]
                if static_vindex_multi(c):
                    c["chunks"] = [[3]] * rank
            cases.append((c, ("vindex-axes", "cube") + subset_class(rank, axes)))
    for _ in range(ctx.scale(2, 10)):
        cases += list(gen_layout_cases(rng))
        cases += list(gen_zero_d(rng))
        cases += list(gen_oob(rng))
        cases += list(gen_unsupported(rng))
    # a wall-clock cap (loaded machines): the strata are interleaved so that a cut run still touches every stratum
    order = list(range(len(cases)))
    rng.shuffle(order)
    cap = ctx.scale(8.0, 150.0)
    done = skipped = 0
    shown = 0
    for j in order:
        if time.time() - t0 > cap:
            break
        case, key = cases[j]
        if static_vindex_multi(case):
            skipped += 1
            continue
        ctx.count(("vix",) + tuple(key))
        try:
            probs = check_case(case)
        except Exception as e:  # noqa: BLE001 - a harness-side surprise is noted, never an alarm
            ctx.notes["vix.harness_error"] = ctx.notes.get("vix.harness_error", 0) + 1
            ctx.notes.setdefault("vix.harness_error_example", f"{case!r}: {e!r}"[:400])
            continue
        done += 1
        if probs:
            report(ctx, case, probs)
        if shown < 2 and j % 53 == 0:
            shown += 1
            ctx.sample(case)
    ctx.notes["vix.cases"] = {"planned": len(cases), "run": done, "skipped_listed_class": skipped}
    ctx.notes["vix.seconds"] = round(time.time() - t0, 1)
