"""C09 extension — HISTORY x CONSUMER stream.

Several gates of the optimizer answer a question about a node that depends on the node's CONTEXT ("does anything
above this node look at its block grid?", "does anything else consume it?").  Such an answer must never be
remembered across trees (by name, in a process-wide memo, on the singleton object): the same sub-expression S is
met alone, under a plain consumer and under a grid-sensitive consumer in one process.  C09: the value of every
one of those programs is the same whatever was built / optimized / computed earlier, in whatever order, and with
optimize-graph on or off.

A case is plain JSON:

    {"kind": "consumers",
     "S": {c02_grid producer spec: shape, chunks, producer (+ its parameters), selectors, "wrap": [elementwise wrappers]},
     "events": [[what, optimize-graph, fresh, param], ...],          2-4 events
     "prelude": [earlier cases of the same process]                  (only when a failure needs them)}

    S       = wrap(selectors(producer(source)))  — the producers / selectors of harness/props_ext/c02_grid.py (reused read-only):
              elemwise of two differently chunked operands, rechunk, concatenate, map_overlap (all boundary kinds), cumsum,
              transposes, plain source; basic / stepped slices, integer-list take, rechunk; 0-2 elementwise wrappers on top
              (so that the selector is a TRANSITIVE input of the consumer, not a direct one)
    what    = alone | optimize | simplify | graph | persist                                 (S itself)
            | plain:sum | plain:add1 | plain:slice | plain:T                                 (a consumer that does not look at blocks)
            | grid:blocks_rev | grid:blocks_last | grid:blocks0 | grid:blocks_list           (`.blocks[...]`)
            | grid:rel | grid:info | grid:id | grid:rel2 (two inputs) | grid:noalign         (map_blocks / blockwise(align_arrays=False))
            | grid:delayed                                                                   (to_delayed block grid)
            | joint:<plain>+<grid>                                                           (both in ONE dask.compute)
    fresh   = 0 the SAME collection object as the earlier events | 1 S rebuilt from scratch (same names) while the old
              object is alive | 2 the old objects dropped + gc, then rebuilt

Oracle (independent of the model and of the raw graph): the NumPy value of S, cut along the chunks S ADVERTISES
when it is built (before anything is optimized), the block function applied piece by piece.

A failing event is judged in fresh interpreters (a process-wide memo cannot be cleared from outside): the event
ALONE (its twin without history) must be right there, and the reported history (shrunk to the events it needs) must
fail there — so the `case` replays from its dict alone.  An event that is wrong without any history is not a history
matter: it is classified with the criterion of the listed finding `grid-consumer:stale-dependents`
(c02_grid.stale_dependents_class: a chunk-changing pushdown applied to a node created during the same pass).
"""
from __future__ import annotations

import gc
import json
import os
import subprocess
import sys
import time
import warnings

import numpy as np

from harness import core
from harness.props_ext import c02_grid as G

SELF = ("alone", "optimize", "simplify", "graph", "persist")  # dask.optimize(S) is the listed C05 finding optimize:raw-unlowered-graph
PLAIN = ("plain:sum", "plain:add1", "plain:slice", "plain:T")
GRID = ("grid:blocks_rev", "grid:blocks_last", "grid:blocks0", "grid:blocks_list", "grid:rel", "grid:info", "grid:id",
        "grid:rel2", "grid:noalign", "grid:delayed")
FIRSTS = SELF + PLAIN
WRAPS = ("mul2", "add1", "neg", "sq")
STALE = G.STALE


class Skip(Exception):
    """the event cannot be expressed on this S (generator artefact)"""


# ------------------------------------------------------------------------------------ S

def gen_S(rng):
    """A shared sub-expression whose grid a pushdown is likely to change."""
    nd = rng.choice([1, 1, 1, 2])
    n0 = rng.randint(6, 24)
    shape = [n0] + ([rng.randint(1, 4)] if nd == 2 else [])
    prod = rng.choice(["unify"] * 14 + ["rechunk"] * 2 + ["concatenate"] * 2 + ["map_overlap"] * 3 + ["cumsum"]
                      + ["elemwise", "transpose2", "source"])
    style = rng.random()
    if style < 0.35:
        c0 = list(G.regular(rng, n0))
    elif style < 0.5:
        c0 = [1] * n0
    else:
        c0 = list(G.irregular(rng, n0))
    chunks = [c0] + ([list(G.irregular(rng, shape[1]))] if nd == 2 else [])
    spec = {"shape": shape, "chunks": chunks, "producer": prod}
    if prod == "unify" and rng.random() < 0.65:
        # NESTED chunkings: the two operands are unified onto the coarse one; a selector pushed into the operands re-unifies
        # the pieces on their own (another grid than the advertised selection of the coarse grid)
        coarse = []
        left = n0
        while left > 0:
            c = min(left, rng.choice([3, 4, 5, 6, 8, 10, 12]), max(3, n0 - 2) if not coarse else left)
            coarse.append(c)
            left -= c
        fine, cuts = [], []  # cuts: (coarse block, fine boundary strictly inside it)
        for i, c in enumerate(coarse):
            f = list(G.irregular(rng, c) if rng.random() < 0.5 else G.regular(rng, c))
            if len(f) == 1 and c >= 2 and rng.random() < 0.8:
                k = rng.randint(1, c - 1)
                f = [k, c - k]
            lo = sum(coarse[:i])
            cuts += [(i, lo + sum(f[:j])) for j in range(1, len(f))]
            fine += f
        a, b = (fine, coarse) if rng.random() < 0.5 else (coarse, fine)
        chunks[0] = a
        spec["to"] = b
        if cuts and rng.random() < 0.75:
            # a window inside ONE coarse block that spans several fine blocks (the selection of the coarse grid is one block,
            # the pushed operands re-unify onto the fine pieces)
            i, f = rng.choice(cuts)
            lo = sum(coarse[:i])
            spec["_window"] = [rng.randint(lo, f - 1), rng.randint(f + 1, lo + coarse[i])]
    n = n0
    if prod == "map_overlap":
        spec["depth"] = rng.randint(1, min(4, n))
        spec["boundary"] = rng.choice(["none", "none", "reflect", "periodic", "nearest", 0])
        spec["halo"] = rng.random() < 0.5
    elif prod in ("rechunk", "unify") and "to" not in spec:
        r = rng.random()
        spec["to"] = list(G.regular(rng, n)) if r < 0.45 else ([n] if r < 0.55 else list(G.irregular(rng, n)))
    elif prod == "concatenate":
        spec["n2"] = rng.randint(1, 8)
        spec["chunks2"] = list(G.irregular(rng, spec["n2"]))
        n += spec["n2"]
    sels = []
    window = spec.pop("_window", None)
    for _ in range(rng.choice([1, 1, 1, 2])):
        k = rng.choice(["slice"] * 6 + ["take", "take", "rechunk", "rechunk", "step"])
        if n <= 1:
            break
        if window and not sels:
            k = "slice" if rng.random() < 0.8 else "take"
        if k == "slice":
            a = rng.randint(0, n - 2)
            b = rng.randint(a + 1, n)
            if window and not sels:
                a, b = window
            sels.append(["slice", a, b, 1])
            n = b - a
        elif k == "step":
            a = rng.randint(0, n - 1)
            st = rng.choice([2, 3, -1, -2])
            sels.append(["slice", a, None, st])
            n = len(range(n)[a::st])
        elif k == "take":
            m = rng.randint(1, n)
            idx = sorted(rng.sample(range(n), m)) if rng.random() < 0.7 else [rng.randrange(n) for _ in range(m)]
            if window and not sels:
                idx = [i for i in range(window[0], window[1]) if rng.random() < 0.8] or [window[0]]
                m = len(idx)
            sels.append(["take", idx])
            n = m
        else:
            sels.append(["rechunk", list(G.irregular(rng, n))])
    spec["selectors"] = sels
    spec["wrap"] = [rng.choice(WRAPS) for _ in range(rng.choice([0, 1, 1, 1, 2]))]
    return spec


def build_S(spec):
    y, v = G.build(spec)
    for w in spec.get("wrap") or []:
        if w == "mul2":
            y, v = y * 2, v * 2
        elif w == "add1":
            y, v = y + 1, v + 1
        elif w == "neg":
            y, v = -y, -v
        elif w == "sq":
            y, v = y * y, v * v
        else:
            raise ValueError(w)
    return y, v


# ------------------------------------------------------------------------------------ events

def _rel2(a, b):
    return G.block_relative(a) + G.block_relative(b)


def _axis0_pieces(v, adv):
    offs = np.concatenate([[0], np.cumsum(adv[0])]).astype(int)
    return [v[int(offs[i]): int(offs[i + 1])] for i in range(len(adv[0]))]


def _plain(kind, s, v):
    if kind == "plain:sum":
        return s.sum(), v.sum()
    if kind == "plain:add1":
        return s + 1, v + 1
    if kind == "plain:slice":
        if v.shape[0] < 2:
            raise Skip
        return s[1:], v[1:]
    if kind == "plain:T":
        return s.T, v.T
    raise ValueError(kind)


def _grid(kind, s, v, adv, param):
    """(collection, expected value, expected axis-0 chunks or None)"""
    import dask_array as da

    if kind == "grid:rel":
        return s.map_blocks(G.block_relative, dtype=s.dtype), G.oracle("rel", v, adv), None
    if kind == "grid:info":
        return s.map_blocks(G.info_loc, dtype=s.dtype), G.oracle("info", v, adv), None
    if kind == "grid:id":
        return s.map_blocks(G.id_fn, dtype=s.dtype), G.oracle("id", v, adv), None
    if kind == "grid:rel2":
        return da.map_blocks(_rel2, s, s * 3, dtype=s.dtype), G.oracle("rel", v, adv) * 4, None
    if kind == "grid:noalign":
        ind = tuple(range(s.ndim))
        return (da.blockwise(G.block_relative, ind, s, ind, align_arrays=False, dtype=s.dtype),
                G.oracle("rel", v, adv), None)
    ps = _axis0_pieces(v, adv)
    if kind == "grid:blocks_rev":
        return s.blocks[::-1], np.concatenate(ps[::-1], axis=0), tuple(adv[0][::-1])
    if kind == "grid:blocks_last":
        k = len(ps) - 1
        return s.blocks[k], ps[k], (adv[0][k],)
    if kind == "grid:blocks0":
        return s.blocks[0], ps[0], (adv[0][0],)
    if kind == "grid:blocks_list":
        ks = [int(param) % len(ps), (int(param) // 7) % len(ps)]
        return s.blocks[ks], np.concatenate([ps[k] for k in ks], axis=0), tuple(adv[0][k] for k in ks)
    raise ValueError(kind)


def observe(kind, s, v, adv, opt, param=0):
    """Perform one event on the collection `s`; returns a list of (label, got, want)."""
    import dask
    from harness.props_ext import c04_drift

    if kind == "alone":
        return [("S.compute()", s.compute(scheduler="sync"), v)]
    if kind == "optimize":
        return [("S.optimize().compute()", s.optimize().compute(scheduler="sync"), v)]
    if kind == "doptimize":
        return [("dask.optimize(S)[0].compute()", dask.optimize(s)[0].compute(scheduler="sync"), v)]
    if kind == "simplify":
        return [("S.simplify().compute()", s.simplify().compute(scheduler="sync"), v)]
    if kind == "graph":
        return [("S taken key by key from __dask_graph__()", c04_drift.keys_value(s)[0], v)]
    if kind == "persist":
        p = s.persist(scheduler="sync")
        return [("S.persist().compute()", p.compute(scheduler="sync"), v), ("(S.persist()+1).compute()", (p + 1).compute(scheduler="sync"), v + 1)]
    if kind.startswith("plain:"):
        z, w = _plain(kind, s, v)
        return [(kind, z.compute(scheduler="sync"), w)]
    if kind == "grid:delayed":
        D = s.to_delayed(optimize_graph=bool(opt))
        nb = tuple(len(c) for c in adv)
        if tuple(D.shape) != nb:
            return [("to_delayed().shape", np.asarray(D.shape), np.asarray(nb))]
        blocks = dask.compute(*D.ravel().tolist(), scheduler="sync")
        out = []
        for (bid, sl), b in zip(G.pieces(adv), blocks):
            out.append((f"to_delayed()[{bid}]", np.asarray(b), v[sl]))
        return out
    if kind.startswith("grid:"):
        z, w, ch0 = _grid(kind, s, v, adv, param)
        out = []
        if ch0 is not None:
            out.append((f"{kind} advertised axis-0 chunks", np.asarray(z.chunks[0]), np.asarray(ch0)))
        out.append((kind, z.compute(scheduler="sync"), w))
        return out
    if kind.startswith("joint:"):
        a, b = kind[len("joint:"):].split("+")
        z1, w1 = _plain(a, s, v)
        z2, w2, _ = _grid(b, s, v, adv, param)
        g1, g2 = dask.compute(z1, z2, scheduler="sync")
        return [(f"{a} (joint)", g1, w1), (f"{b} (joint)", g2, w2)]
    raise ValueError(kind)


def same(got, want):
    try:
        got, want = np.asarray(got), np.asarray(want)
    except Exception:  # noqa: BLE001
        return False
    return got.dtype != object and got.shape == want.shape and bool(np.array_equal(got, want))


def show(v):
    try:
        return repr(np.asarray(v).tolist())[:140]
    except Exception:  # noqa: BLE001
        return repr(v)[:140]


def _events(case, outs, record):
    import dask

    spec = case["S"]
    shared = None
    for ev in case["events"]:
        kind, opt, fresh = ev[0], bool(ev[1]), int(ev[2])
        param = ev[3] if len(ev) > 3 else 0
        try:
            with dask.config.set({"array.optimize-graph": opt}):
                if shared is None or fresh:
                    if fresh == 2:
                        shared = None
                        gc.collect()
                    try:
                        s, v = build_S(spec)
                        adv = tuple(tuple(int(c) for c in ax) for ax in s.chunks)
                    except Exception as e:  # noqa: BLE001
                        if shared is None and not outs:
                            raise Skip from e
                        raise
                    if tuple(sum(ax) for ax in adv) != v.shape:
                        raise Skip
                    if shared is None or fresh == 2:
                        shared = (s, v, adv)
                else:
                    s, v, adv = shared
                obs = observe(kind, s, v, adv, opt, param)
            bad = [(lab, g, w) for lab, g, w in obs if not same(g, w)]
            if bad:
                lab, g, w = bad[0]
                outs.append({"ok": False, "how": "wrong-values", "detail": f"{lab}: got {show(g)} expected {show(w)} (advertised chunks of S {list(map(list, adv))})"})
            else:
                outs.append({"ok": True})
        except Skip:
            outs.append({"ok": True, "skipped": True})
        except NotImplementedError:
            outs.append({"ok": True, "skipped": True})
        except Exception as e:  # noqa: BLE001
            outs.append({"ok": False, "how": "raises", "detail": f"{type(e).__name__}: {str(e)[:200]}"})
        if not record:
            outs.clear()


_REGISTRIES = []
_NCLEAR = [0]


def clear_state():
    """Clean registries (the shared lowering cache, every singleton registry) — C09.clear_state with the garbage
    collection done every 8th call only (it dominates the cost of a short history)."""
    import dask._expr as DE
    from dask_array import _materialize as M

    M._LOWER_CACHE.clear()
    stack, seen = [DE.SingletonExpr], set()
    while stack:
        c = stack.pop()
        if c in seen:
            continue
        seen.add(c)
        stack.extend(c.__subclasses__())
        inst = c.__dict__.get("_instances")
        if inst is not None:
            inst.clear()
    _NCLEAR[0] += 1
    if _NCLEAR[0] % 8 == 1:
        gc.collect()


def run_case(case):
    """Execute the history from clean registries; one outcome dict per event."""
    outs = []
    with warnings.catch_warnings():
        warnings.simplefilter("ignore")
        clear_state()
        for pre in case.get("prelude") or []:
            _events(pre, [], False)
            clear_state()
        _events(case, outs, True)
    return outs


def first_failure(outs):
    for k, o in enumerate(outs):
        if not o["ok"]:
            return k
    return None


# ------------------------------------------------------------------------------------ fresh interpreters

_CHILD = (
    "import sys, json, warnings\n"
    "warnings.simplefilter('ignore')\n"
    "from harness.props_ext import c09_consumers as M\n"
    "out = [M.run_case(c) for c in json.load(sys.stdin)]\n"
    "sys.stdout.write('\\n@@FRESH@@' + json.dumps(out))\n"
)


def run_fresh(cases, timeout=600.0):
    """Each case in ITS OWN new interpreter (in parallel); honours VERIF_REPO like the parent."""
    env = dict(os.environ)
    env["PYTHONPATH"] = os.pathsep.join([str(core.VERIF)] + ([str(core.REPO)] if str(core.REPO) != "/repo" else []) + [env.get("PYTHONPATH", "")])
    procs = []
    for c in cases:
        p = subprocess.Popen([sys.executable, "-c", _CHILD], stdin=subprocess.PIPE, stdout=subprocess.PIPE, stderr=subprocess.PIPE,
                             text=True, env=env, cwd=str(core.VERIF))
        p.stdin.write(json.dumps([c]))
        p.stdin.close()
        procs.append(p)
    res = []
    for p in procs:
        try:
            out = p.stdout.read()
            err = p.stderr.read()
            p.wait(timeout=timeout)
        except Exception:  # noqa: BLE001
            p.kill()
            res.append(None)
            continue
        res.append(json.loads(out.rsplit("@@FRESH@@", 1)[1])[0] if p.returncode == 0 and "@@FRESH@@" in out else None)
        if res[-1] is None:
            res[-1] = {"error": err[-300:]}
    return res


def _fails_at_last(outs):
    return isinstance(outs, list) and len(outs) > 0 and not outs[-1]["ok"] and all(o["ok"] for o in outs[:-1])


# ------------------------------------------------------------------------------------ classification

def stale_class(spec, kind, param=0):
    """The criterion of c02_grid.stale_dependents_class on THIS consumer expression: while the consumer is simplified
    a chunk-changing pushdown is applied to a node that was created during the same pass."""
    from harness import trace as T

    if not spec.get("wrap"):
        m = {"grid:rel": "rel", "grid:info": "info", "grid:id": "id", "grid:blocks0": "blocks", "grid:blocks_last": "blocks",
             "grid:blocks_rev": "blocks", "grid:blocks_list": "blocks", "grid:noalign": "rel", "grid:rel2": "rel"}.get(kind.split("+")[-1])
        if m and G.stale_dependents_class(dict(spec, consumer=m)):
            return True
    try:
        with warnings.catch_warnings():
            warnings.simplefilter("ignore")
            s, v = build_S(spec)
            adv = tuple(tuple(int(c) for c in ax) for ax in s.chunks)
            k = kind.split("+")[-1]
            if not k.startswith("grid:") or k == "grid:delayed":
                return False
            z = _grid(k, s, v, adv, param)[0]
            expr = z.expr
            if kind.startswith("joint:"):
                # both consumers are simplified as ONE expression by dask.compute(z1, z2): trace that one
                from dask.base import collections_to_expr

                z1 = _plain(kind[len("joint:"):].split("+")[0], s, v)[0]
                expr = collections_to_expr([z1, z])
            original = {n._name for n in expr.walk()}
            T.clear_caches()
            with T.trace_objects() as recs:
                expr.simplify()
        return any(r["before"]._name not in original and r["after"].chunks != r["before"].chunks for r in recs)
    except Exception:  # noqa: BLE001
        return False


def event_class(kind):
    return kind if kind.startswith(("grid:", "joint:")) else ("plain" if kind.startswith("plain:") else "self")


def family(kind):
    """the consumer family a signature names"""
    if kind.startswith("joint:"):
        return "joint"
    if kind.startswith("grid:blocks"):
        return "blocks"
    if kind == "grid:delayed":
        return "to_delayed"
    if kind.startswith("grid:"):
        return "map_blocks"
    return "plain" if kind.startswith("plain:") else "self"


def history_sig(ev, how):
    return f"consumer-history:{family(ev[0])}:{how}"


def judge(ctx, case, outs, earlier=(), fresh=True):
    """A failing history → (signature, minimal case, detail) or None.  Everything is decided in fresh interpreters."""
    k = first_failure(outs)
    if k is None:
        return None
    evs = case["events"]
    ev = evs[k]
    how = outs[k]["how"]
    base = {"kind": "consumers", "S": case["S"]}
    twin = dict(base, events=[[ev[0], ev[1], 1] + list(ev[3:])])
    # the listed finding (wrong under optimization without any history, a pushdown into a node created during the pass):
    # decided in this process, no interpreter needed
    # (compute() under optimize-graph=False still simplifies through dask.base.compute, so the class does not depend on the flag)
    if ev[0].startswith(("grid:", "joint:")) and _fails_at_last(run_case(twin)) and stale_class(case["S"], ev[0], ev[3] if len(ev) > 3 else 0):
        o = run_case(twin)[-1]
        return STALE, twin, f"{ev[0]} over S (optimize-graph={bool(ev[1])}), no history: {o.get('detail')}"
    cands = [twin, dict(base, events=evs[: k + 1], prelude=case.get("prelude") or [])]
    cands += [dict(base, events=[evs[j], ev]) for j in range(k)] if k > 1 else []
    res = run_fresh(cands) if fresh else [run_case(c) for c in cands]
    ctx.notes["consumers_fresh_interpreters"] = ctx.notes.get("consumers_fresh_interpreters", 0) + len(cands)
    if any(isinstance(r, dict) for r in res):
        ctx.notes["consumers_fresh_errors"] = [r for r in res if isinstance(r, dict)][:2]
    if _fails_at_last(res[0]):  # wrong without any history
        o = res[0][-1]
        # also without optimization?  then it is not about options either
        alt = dict(base, events=[[ev[0], not ev[1], 1] + list(ev[3:])])
        ralt = run_fresh([alt])[0] if fresh else run_case(alt)
        both = _fails_at_last(ralt)
        if stale_class(case["S"], ev[0], ev[3] if len(ev) > 3 else 0):
            sig = STALE
        else:
            sig = f"consumers:no-history:{'any-option' if both else ('optimized' if ev[1] else 'unoptimized')}:{ev[0]}:{o['how']}"
        return sig, twin, f"{ev[0]} over S (optimize-graph={bool(ev[1])}) in a fresh interpreter, no history: {o['detail']}"
    sig = history_sig(ev, how)
    # smallest confirmed history: a pair, else the prefix
    for c, r in list(zip(cands[2:], res[2:])) + [(cands[1], res[1])]:
        if _fails_at_last(r):
            firsts = ", ".join(f"{e[0]}[opt={bool(e[1])}]" for e in c["events"][:-1])
            return sig, c, (f"after {firsts} in the same process, {ev[0]} over the {'same object' if not ev[2] else 'rebuilt'} S "
                            f"(optimize-graph={bool(ev[1])}): {r[-1]['detail']}; the same event alone in a fresh interpreter is right")
    # needs what ran earlier in this process
    if earlier:
        c = dict(cands[1], prelude=[{"S": e["S"], "events": e["events"]} for e in earlier])
        r = run_fresh([c])[0]
        if _fails_at_last(r):
            return sig, c, f"(with the earlier histories of the process as prelude) {ev[0]}: {r[-1]['detail']}"
    ctx.notes["consumers_unconfirmed"] = ctx.notes.get("consumers_unconfirmed", 0) + 1
    lst = ctx.extra.setdefault("consumers_unconfirmed_samples", [])
    if len(lst) < 3:
        lst.append({"case": case, "outcome": outs[k]})
    return None


# ------------------------------------------------------------------------------------ stream

def gen_events(rng, n):
    evs = []
    for i in range(n):
        r = rng.random()
        if r < 0.3:
            k = rng.choice(SELF)
        elif r < 0.5:
            k = rng.choice(PLAIN)
        elif r < 0.92:
            k = rng.choice(GRID)
        else:
            k = f"joint:{rng.choice(PLAIN)}+{rng.choice([g for g in GRID if g != 'grid:delayed'])}"
        evs.append([k, rng.random() < 0.8, rng.choice([0, 1, 1, 2]) if i else 1, rng.randrange(1000)])
    return evs


def valid_S(rng, tries=40):
    for _ in range(tries):
        spec = gen_S(rng)
        try:
            with warnings.catch_warnings():
                warnings.simplefilter("ignore")
                s, v = build_S(spec)
                if tuple(sum(ax) for ax in s.chunks) == v.shape and all(d > 0 for d in v.shape):
                    return spec
        except Exception:  # noqa: BLE001
            continue
    return spec


def _listed_here(ctx):
    try:
        return any(e.get("signature") == STALE for e in core.load_known(ctx.pid))
    except Exception:  # noqa: BLE001
        return True


def run_stream(ctx, n_random, budget):
    rng = ctx.rng
    t0, p0 = time.time(), time.process_time()
    done = []
    reported = set()
    nfail = 0

    def one(case):
        nonlocal nfail
        outs = run_case(case)
        ks = [e[0] for e in case["events"]]
        for a, b in zip(ks, ks[1:]):
            ctx.count(("cons", event_class(a) if not a.startswith("grid:") else a, event_class(b) if not b.startswith("grid:") else b))
        for e, o in zip(case["events"], outs):
            if not o.get("skipped"):
                ctx.count(("cons-ev", e[0], bool(e[1]), int(e[2])))
        kf = first_failure(outs)
        if kf is not None:
            ctx.notes["consumers_failing_histories"] = ctx.notes.get("consumers_failing_histories", 0) + 1
        if kf is not None and nfail < 3 and history_sig(case["events"][kf], outs[kf]["how"]) not in reported:
            j = judge(ctx, case, outs, earlier=done)
            if j is None or j[0] != STALE:
                nfail += 1  # (the listed finding is decided without new interpreters)
            if j is not None and j[0] == STALE and not _listed_here(ctx):
                # the listed finding of C02 / C03 / C20 (probed by C02 on every run); it is reported here (as KNOWN-FINDING) as
                # soon as known_findings.json lists it for this property too
                ctx.notes["consumers_listed_stale_dependents_seen"] = ctx.notes.get("consumers_listed_stale_dependents_seen", 0) + 1
                ctx.extra.setdefault("consumers_listed_stale_dependents_sample", {"case": j[1], "what": j[2]})
                j = None
            if j is not None and j[0] not in reported:
                reported.add(j[0])
                ctx.fail(j[0], j[1], j[2])
        done.append(case)

    # grid: every (first, grid consumer) pair, in both orders over the run
    pairs = [(a, b) for a in FIRSTS for b in GRID]
    rng.shuffle(pairs)
    for i, (a, b) in enumerate(pairs):
        spec = valid_S(rng)
        e1 = [a, rng.random() < 0.85, 1, rng.randrange(1000)]
        e2 = [b, rng.random() < 0.85, rng.choice([0, 1, 1, 2]), rng.randrange(1000)]
        evs = [e1, e2] if i % 4 else [[b, e2[1], 1, e2[3]], [a, e1[1], e2[2], e1[3]]]
        case = {"kind": "consumers", "S": spec, "events": evs}
        if i < 2:
            ctx.sample(case)
        one(case)
    ctx.notes["consumers_grid_cases"] = len(pairs)
    # random histories of 2-4 events
    nr = 0
    for _ in range(n_random):
        if time.process_time() - p0 > budget:
            break
        one({"kind": "consumers", "S": valid_S(rng), "events": gen_events(rng, rng.randint(2, 4))})
        nr += 1
    ctx.notes["consumers_random_histories"] = nr
    # how many of the S were sensitive: the optimizer, asked about S ALONE, changes its grid (measured after the histories,
    # so that the measurement is not part of anybody's history)
    changing = 0
    for case in done:
        try:
            with warnings.catch_warnings():
                warnings.simplefilter("ignore")
                s, _ = build_S(case["S"])
                if s.expr.simplify().chunks != s.chunks:
                    changing += 1
                    ctx.count(("cons-S", "grid-changes-under-pushdown", case["S"]["producer"], bool(case["S"].get("wrap"))))
        except Exception:  # noqa: BLE001
            pass
    ctx.notes["consumers_S_whose_grid_changes_when_optimized_alone"] = f"{changing}/{len(done)}"
    ctx.notes["consumers_seconds"] = round(time.time() - t0, 1)
    ctx.notes["consumers_cpu_seconds"] = round(time.process_time() - p0, 1)


def replay(ctx, case):
    outs = run_case(case)
    j = judge(ctx, case, outs)
    if j is not None:
        ctx.fail(j[0], j[1], j[2])
