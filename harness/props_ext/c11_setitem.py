"""C11 extension — `x[key] = value` across KEY kind × VALUE kind × VALUE DTYPE relative to x.dtype.

NumPy's item assignment never changes the array's dtype: the value is cast to x.dtype ('unsafe' casting: floats are
truncated into integer arrays, non-zero becomes True in boolean arrays, float64 is rounded into float32, wide integers
wrap into narrow ones, the imaginary part is discarded).  The histories of C11.py use int64 data only; this stream walks,
COMPLETELY in every run (all seeds), the grid

    KEYS   (how the key is given)      slice / int / list / NumPy mask along an axis / dask mask of x's full shape with its
                                       own chunks / dask mask computed from x itself / 1-d dask mask along an axis of a
                                       higher-rank x (bare or in a tuple) / dask integer array
  × VALUES (how the value is given)    Python scalar / NumPy scalar or 0-d array / NumPy array or list (full, broadcast) /
                                       0-d dask array / LAZY dask reduction (mean, sum, max, min) / dask array (full,
                                       broadcast, own chunks) / dask value derived from x itself
  × RELS   (value dtype vs x.dtype)    same / safe (narrower: int8 -> int64, int -> float, bool -> int, float -> complex) /
                                       same-kind (wider: int64 -> int8, float64 -> float32) / other-kind (float -> int,
                                       int -> bool, float -> bool, complex -> float, complex -> int)

with the remaining dimensions (x's dtype, rank, shape, chunks, how x was built, concrete data, optimisation on/off, a
second assignment of another kind, order of the computes) drawn from ctx.rng per cell.

A SCENARIO is completely described by its case dict (explicit data; replay needs no PRNG).  Oracle = NumPy's own
assignment on a copy.  Checked after every assignment: x.dtype (declared) is unchanged; x computes to NumPy's result (shape,
dtype, values); collections derived from x BEFORE the assignment keep their value, the one derived after follows the
new value; a dask value / dask key (also when computed from x itself) still computes to what it was; every retained NumPy
buffer (x's source, the value's, the key's) is bit-identical.  A refusal (dask raises where NumPy accepts) must leave
everything unchanged.  No float arithmetic is compared inexactly: data are multiples of 1/4 (exact sums / means over
power-of-two counts) except for values that are only CAST (0.1, 1/3: casting is deterministic).
"""
from __future__ import annotations

import copy
import hashlib
import itertools
import time

import numpy as np

from harness import gen
from harness import programs as P

REFUSALS = (NotImplementedError, IndexError, ValueError, TypeError, AttributeError, OverflowError)

KEYS = ("slice", "int", "list", "np-mask-axis", "dask-mask-full", "dask-mask-of-x", "dask-mask-axis", "dask-int")
VALUES = ("py-scalar", "np-scalar", "np-array", "dask-0d", "dask-reduction", "dask-array", "dask-of-x")
RELS = ("same", "safe", "same-kind", "other-kind")
XDTYPES = ("int64", "int64", "int32", "int8", "uint8", "float64", "float64", "float32", "bool", "complex128")
VDTYPES = ("bool", "int8", "uint8", "int16", "int32", "int64", "float32", "float64", "complex128")
XKINDS = ("from_array", "from_array", "astype", "persist", "rechunked", "concat")

SYNC = {"scheduler": "sync"}


def relation(vdt, xdt):
    vdt, xdt = np.dtype(vdt), np.dtype(xdt)
    if vdt == xdt:
        return "same"
    if np.can_cast(vdt, xdt, "safe"):
        return "safe"
    if np.can_cast(vdt, xdt, "same_kind"):
        return "same-kind"
    return "other-kind"


def pairs_for(rel):
    return [(x, v) for x in sorted(set(XDTYPES)) for v in VDTYPES if relation(v, x) == rel]


PAIRS = {rel: pairs_for(rel) for rel in RELS}


def castable(xdt, vdt):
    return not (np.dtype(xdt).kind in "fc" and np.dtype(vdt).kind == "u")


def fingerprint(a):
    return hashlib.sha1(np.ascontiguousarray(a).tobytes() + str(a.shape).encode() + str(a.dtype).encode()).hexdigest()


def same_arr(got, want):
    got = np.asarray(got)
    want = np.asarray(want)
    return got.shape == want.shape and got.dtype == want.dtype and bool(np.array_equal(got, want))


def enc_data(a):
    a = np.asarray(a)
    if a.dtype.kind == "c":
        return [[float(v.real), float(v.imag)] for v in a.ravel()]
    return a.ravel().tolist()


def dec_data(data, dtype, shape):
    dt = np.dtype(dtype)
    if dt.kind == "c":
        a = np.array([complex(re, im) for re, im in data], dtype=dt)
    elif dt.kind in "iu":
        a = np.array(data, dtype=np.int64).astype(dt)  # explicit wrap-around, never an OverflowError of the constructor
    else:
        a = np.array(data, dtype=dt)
    return a.reshape(tuple(shape))


def listed(a):
    a = np.asarray(a)
    if a.size > 64:
        return list(a.shape)
    return [str(v) for v in a.ravel()] if a.dtype.kind == "c" else a.tolist()


# --------------------------------------------------------------------------- data pools

QUARTERS = (0.0, 0.5, 2.75, -3.5, 7.25, 41.75, -0.75, 1.25, 12.5, -20.25)
INEXACT = (0.1, 1.0 / 3.0, 2.7, -5.9, 99.99, 1e-3, -0.6)


def draw_values(rng, vdt, xdt, n, exact=False, small=False):
    """n numbers of dtype vdt meant to be assigned into an array of dtype xdt (as a NumPy array of dtype vdt).
    No input whose cast is undefined in C: floats stay within the range of every integer dtype used and are
    non-negative when the target is unsigned; no NaN / inf."""
    vdt, xdt = np.dtype(vdt), np.dtype(xdt)
    nonneg = xdt.kind == "u" or vdt.kind == "u" or (xdt.kind == "b" and False)

    def real():
        pool = QUARTERS if exact else QUARTERS + INEXACT
        v = rng.choice(pool)
        return abs(v) if nonneg else v

    out = []
    for _ in range(n):
        if vdt.kind == "b":
            out.append(rng.random() < 0.5)
        elif vdt.kind in "iu":
            r = rng.random()
            v = rng.randint(0 if nonneg else -9, 9)
            if not exact and not small and r < 0.25:
                # wraps into narrower integers / is rounded by float32 / is exact everywhere else
                big = [100, 127]
                if vdt.itemsize >= 2:
                    big += [300, 255, 256, -129 if not nonneg else 129, 1000]
                if vdt.itemsize >= 4:
                    big += [70000, 2**24 + 1, -(2**24 + 1) if not nonneg else 2**24 + 3]
                if vdt.kind == "u":
                    big = [b for b in big if 0 <= b <= 255]
                v = rng.choice(big)
            if r > 0.9:
                v = 0
            out.append(v)
        elif vdt.kind == "f":
            out.append(real())
        else:
            out.append(complex(real(), rng.choice([1.0, -2.0, 0.5, 0.0])))
    a = np.array(out, dtype=np.complex128 if vdt.kind == "c" else (np.float64 if vdt.kind == "f" else (bool if vdt.kind == "b" else np.int64)))
    return a.astype(vdt)


def draw_x(rng, xdt, n, nonneg):
    xdt = np.dtype(xdt)
    if xdt.kind == "b":
        return np.array([rng.random() < 0.5 for _ in range(n)], dtype=bool)
    lo = 0 if (nonneg or xdt.kind == "u") else -50
    if xdt.kind in "iu":
        return np.array([rng.randint(lo, 50) for _ in range(n)], dtype=np.int64).astype(xdt)
    base = np.array([rng.randint(lo * 4, 200) / 4.0 for _ in range(n)])
    if xdt.kind == "f":
        return base.astype(xdt)
    return (base + 1j * np.array([rng.randint(-2, 2) for _ in range(n)])).astype(xdt)


# --------------------------------------------------------------------------- keys

def enc_parts(parts):
    out = []
    for k in parts:
        if k is Ellipsis:
            out.append("...")
        elif isinstance(k, slice):
            out.append(["s", k.start, k.stop, k.step])
        elif isinstance(k, dict):
            out.append(k)
        else:
            out.append(int(k))
    return out


def dec_parts(enc, da_mode, sc=None, tag=""):
    """The key tuple on the NumPy side (da_mode False) or on the dask side (dask collections over retained buffers)."""
    out = []
    for j, k in enumerate(enc):
        if k == "...":
            out.append(Ellipsis)
        elif isinstance(k, list):
            out.append(slice(k[1], k[2], k[3]))
        elif isinstance(k, dict):
            kind = k["k"]
            if kind == "l":
                out.append(list(k["v"]))
            elif kind == "b":
                out.append(np.array(k["v"], dtype=bool))
            elif kind in ("dint", "dbool"):
                arr = np.array(k["v"], dtype=np.int64 if kind == "dint" else bool)
                out.append(sc.dask_operand(f"{tag}key{j}", arr, (k["chunk"],)) if da_mode else arr)
            else:
                raise KeyError(kind)
        else:
            out.append(int(k))
    return tuple(out)


def pos_slice(rng, d, allow_neg=True):
    steps = (None, 1, 1, 2, 3, -1, -2) if allow_neg else (None, 1, 1, 2, 3)
    for _ in range(8):
        s = gen.rand_slice(rng, d, steps=steps)
        if len(range(d)[s]) or rng.random() < 0.1:
            return s
    return slice(None)


def gen_key(rng, kind, shape):
    nd = len(shape)
    if kind == "dask-mask-full":
        n = int(np.prod(shape))
        mask = [rng.random() < 0.5 for _ in range(n)]
        mask[rng.randrange(n)] = True
        mask[rng.randrange(n)] = False
        ch = rng.choice(["same", "other", "single"])
        return {"kind": kind, "mask": mask, "chunks": [list(c) for c in P.rand_chunks_nd(rng, shape)] if ch == "other" else ch}
    if kind == "dask-mask-of-x":
        return {"kind": kind, "cmp": rng.choice([">", "%", "!="]), "c": rng.randint(1, 5), "of": rng.choice(["x", "x", "affine"])}
    if kind in ("slice", "int"):
        parts = [pos_slice(rng, d) if rng.random() < 0.75 else slice(None) for d in shape]
        if kind == "int":
            for ax in range(nd):
                if ax == 0 and nd == 1 or rng.random() < 0.5:
                    parts[ax] = rng.randint(-shape[ax], shape[ax] - 1)
            if not any(isinstance(p, int) for p in parts):
                ax = rng.randrange(nd)
                parts[ax] = rng.randint(-shape[ax], shape[ax] - 1)
        r = rng.random()
        if r < 0.15:
            while parts and isinstance(parts[-1], slice) and parts[-1] == slice(None):
                parts.pop()
            if not parts:
                parts = [Ellipsis]
        elif r < 0.3 and kind == "slice":
            i = rng.randrange(nd)
            parts[i] = slice(None)
            parts = parts[:i] + [Ellipsis] + parts[i + 1:]
        return {"kind": kind, "parts": enc_parts(parts)}
    # one fancy axis, slices elsewhere (an integer next to a fancy index moves NumPy's dimensions: not generated)
    ax = 0 if (kind == "dask-mask-axis" and rng.random() < 0.6) else rng.randrange(nd)
    d = shape[ax]
    parts = [pos_slice(rng, dd) if rng.random() < 0.5 else slice(None) for dd in shape]
    key = {"kind": kind}
    if kind in ("list", "dask-int"):
        m = rng.randint(1, d)
        vals = rng.sample(range(d), m)  # no repeats: the order of repeated writes is not a contract
        vals = [v - d if rng.random() < 0.3 else v for v in vals]
        parts[ax] = {"k": "l", "v": vals} if kind == "list" else {"k": "dint", "v": vals, "chunk": rng.randint(1, m)}
    else:
        mask = [rng.random() < 0.5 for _ in range(d)]
        mask[rng.randrange(d)] = True
        parts[ax] = {"k": "b", "v": mask} if kind == "np-mask-axis" else {"k": "dbool", "v": mask, "chunk": rng.randint(1, d)}
        if kind == "dask-mask-axis" and ax == 0 and rng.random() < 0.5:
            # the bare 1-d mask on a higher-rank x (`x[rows] = v`): __setitem__ wraps it into a tuple itself
            parts = parts[:1]
            key["bare"] = True
    if rng.random() < 0.3:
        while len(parts) > 1 and isinstance(parts[-1], slice) and parts[-1] == slice(None):
            parts.pop()
    key["parts"] = enc_parts(parts)
    return key


# --------------------------------------------------------------------------- values

def bshape(rng, tshape):
    """A shape that broadcasts to the target's: a suffix of it with some dimensions of size 1."""
    tshape = list(tshape)
    r = rng.random()
    if r < 0.5 or not tshape:
        return tshape
    shp = tshape[rng.randint(0, len(tshape) - 1):] if r < 0.8 else tshape
    return [1 if rng.random() < 0.35 else d for d in shp]


def py_of(v):
    v = np.asarray(v)[()]
    return {"b": bool, "i": int, "u": int, "f": float, "c": complex}[np.asarray(v).dtype.kind](v)


def gen_value(rng, kind, vdt, xdt, tshape, zero_d_only, key_kind):
    """tshape: shape of x[key] on the NumPy side; zero_d_only: dask full-shape masks take 0-d values only (array values
    are still generated sometimes: they must be refused and leave x alone)."""
    val = {"kind": kind, "dtype": str(np.dtype(vdt))}
    if kind == "py-scalar":
        v = draw_values(rng, vdt, xdt, 1, small=True)
        val["data"] = enc_data(v)
    elif kind == "np-scalar":
        val["data"] = enc_data(draw_values(rng, vdt, xdt, 1))
        val["as"] = rng.choice(["scalar", "0d"])
    elif kind == "dask-0d":
        val["data"] = enc_data(draw_values(rng, vdt, xdt, 1))
        val["via"] = rng.choice(["from_array", "from_array", "index", "asarray"])
    elif kind == "dask-reduction":
        k = np.dtype(vdt).kind
        fns = ["max", "min"] if k != "c" else []
        if str(np.dtype(vdt)) in ("int64", "float64", "float32", "complex128"):
            fns.append("sum")
        if str(np.dtype(vdt)) in ("float64", "float32", "complex128"):
            fns += ["mean", "mean"]
        fn = rng.choice(fns)
        n = rng.choice([2, 4, 4, 8])
        val["fn"] = fn
        val["data"] = enc_data(draw_values(rng, vdt, xdt, n, exact=fn in ("sum", "mean"), small=True))
        val["chunk"] = rng.choice([1, 2, 3, n])
    elif kind in ("np-array", "dask-array"):
        if zero_d_only and rng.random() < 0.7:
            shp = []
        else:
            shp = bshape(rng, tshape)
        n = int(np.prod(shp)) if shp else 1
        val["shape"] = shp
        val["data"] = enc_data(draw_values(rng, vdt, xdt, n))
        if kind == "np-array":
            val["as"] = rng.choice(["array", "array", "list"])
        else:
            val["chunks"] = [list(c) for c in P.rand_chunks_nd(rng, shp)]
            val["via"] = rng.choice(["from_array", "from_array", "derived"])
    elif kind == "dask-of-x":
        # derived from x itself BEFORE the assignment (it must keep reading the old x)
        if key_kind in ("slice", "int", "list") and not zero_d_only and rng.random() < 0.7:
            val["form"] = "selection"  # x.astype(vdt)[key], flipped along its first axis
        else:
            val["form"] = "first" if np.dtype(vdt).kind == "c" else rng.choice(["max", "min", "first"])
    else:
        raise KeyError(kind)
    return val


# --------------------------------------------------------------------------- scenario

class Scenario:
    def __init__(self, case):
        import dask_array as da

        self.da = da
        self.case = case
        self.xdt = np.dtype(case["xdtype"])
        self.shape = tuple(case["shape"])
        self.buffers = {}
        self.prints = {}
        self.env = {}    # dask collections that must keep their value: name -> collection
        self.want = {}   # name -> expected NumPy value
        self.who = {}

    def retain(self, name, a):
        a = np.array(a, copy=True)
        self.buffers[name] = a
        self.prints[name] = fingerprint(a)
        return a

    def dask_operand(self, name, arr, chunks, role="key-operand"):
        buf = self.retain(name + "_src", arr)
        c = self.da.from_array(buf, chunks=chunks)
        self.env[name] = c
        self.want[name] = np.array(arr, copy=True)
        self.who[name] = role
        return c

    def build_x(self):
        da = self.da
        case = self.case
        chunks = tuple(tuple(c) for c in case["chunks"])
        src = dec_data(case["x"], self.xdt, self.shape)
        xk = case.get("xkind", "from_array")
        if xk == "astype":
            wide = np.complex128 if self.xdt.kind == "c" else (np.float64 if self.xdt.kind == "f" else np.int64)
            buf = self.retain("x_src", src.astype(wide))
            x = da.from_array(buf, chunks=chunks).astype(self.xdt)
        else:
            buf = self.retain("x_src", src)
            if xk == "from_array":
                x = da.from_array(buf, chunks=chunks)
            elif xk == "persist":
                x = da.from_array(buf, chunks=chunks).persist(**SYNC)
            elif xk == "rechunked":
                x = da.from_array(buf, chunks=tuple(tuple(c) for c in case["chunks0"])).rechunk(chunks)
            elif xk == "concat":
                k = case["split"]
                rest = chunks[1:]
                x = da.concatenate([da.from_array(buf[:k], chunks=((k,),) + rest),
                                    da.from_array(buf[k:], chunks=((self.shape[0] - k,),) + rest)], axis=0)
            else:
                raise KeyError(xk)
        self.x = x
        self.m = src.copy()

    # -- keys and values on both sides
    def key_of(self, i, key, da_mode):
        kind = key["kind"]
        if kind == "dask-mask-full":
            mask = np.array(key["mask"], dtype=bool).reshape(self.shape)
            if not da_mode:
                return mask
            ch = key["chunks"]
            if ch == "same":
                ch = self.case["chunks"]
            elif ch == "single":
                ch = [[d] for d in self.shape]
            return self.dask_operand(f"a{i}mask", mask, tuple(tuple(c) for c in ch))
        if kind == "dask-mask-of-x":
            ref = self.x if da_mode else self.m
            if key["of"] == "affine":
                ref = ref * 2 + 1
            if key["cmp"] == "!=" or self.xdt.kind in "cb":
                k = ref != key["c"]
            elif key["cmp"] == ">":
                k = ref > key["c"]
            else:
                k = ref % (key["c"] + 1) == 0
            if da_mode:
                self.env[f"a{i}mask"] = k
                self.who[f"a{i}mask"] = "key-operand"
            else:
                self.want[f"a{i}mask"] = np.array(k, copy=True)
            return k
        parts = dec_parts(key["parts"], da_mode, self, tag=f"a{i}")
        if key.get("bare") or len(parts) == 1:
            return parts[0]
        return parts

    def value_of(self, i, val, key, da_mode):
        da = self.da
        kind = val["kind"]
        name = f"a{i}value"
        if kind == "dask-of-x":
            vdt = np.dtype(self.case["assigns"][i]["vdtype"])
            ref = self.x if da_mode else self.m
            with np.errstate(all="ignore"):
                cast = ref.astype(vdt)
                if val["form"] == "selection":
                    k = self.key_of(i, key, da_mode)
                    v = cast[k]
                    if v.ndim:
                        v = v[::-1]
                elif val["form"] == "first":
                    v = cast[(0,) * cast.ndim]
                else:
                    v = getattr(cast, val["form"])()
            if da_mode:
                self.env[name] = v
                self.who[name] = "value-operand"
            else:
                v = np.array(v, copy=True)
                self.want[name] = v.copy()
            return v
        vdt = np.dtype(val["dtype"])
        if kind == "py-scalar":
            return py_of(dec_data(val["data"], vdt, ()))
        if kind == "np-scalar":
            a = dec_data(val["data"], vdt, ())
            return a if val.get("as") == "0d" else a[()]
        if kind == "np-array":
            a = dec_data(val["data"], vdt, val["shape"])
            if val.get("as") == "list":
                return a.tolist()
            return self.retain(name + "_src", a) if da_mode else a
        if kind == "dask-0d":
            a = dec_data(val["data"], vdt, ())
            if not da_mode:
                return a
            via = val.get("via", "from_array")
            if via == "index":
                v = da.from_array(self.retain(name + "_src", np.array([a, a])), chunks=1)[1]
            elif via == "asarray":
                v = da.asarray(a)
            else:
                v = da.from_array(self.retain(name + "_src", a), chunks=())
            self.env[name] = v
            self.want[name] = a.copy()
            self.who[name] = "value-operand"
            return v
        if kind == "dask-reduction":
            a = dec_data(val["data"], vdt, (len(val["data"]),))
            if not da_mode:
                with np.errstate(all="ignore"):
                    r = np.asarray(getattr(a, val["fn"])())
                self.want[name] = r.copy()
                return r
            y = da.from_array(self.retain(name + "_src", a), chunks=val["chunk"])
            v = getattr(y, val["fn"])()
            self.env[name] = v
            self.who[name] = "value-operand"
            return v
        if kind == "dask-array":
            a = dec_data(val["data"], vdt, val["shape"])
            if not da_mode:
                return a
            v = da.from_array(self.retain(name + "_src", a), chunks=tuple(tuple(c) for c in val["chunks"]))
            if val.get("via") == "derived":
                v = v[(Ellipsis,)].copy() if v.ndim == 0 else v[::-1][::-1]
            self.env[name] = v
            self.want[name] = a.copy()
            self.who[name] = "value-operand"
            return v
        raise KeyError(kind)

    # -- checks
    def check(self, name, coll, want, who):
        try:
            got = np.asarray(coll.compute(**SYNC))
        except Exception as e:
            return {"what": "compute-raises", "who": who, "name": name, "error": repr(e)[:300]}
        want = np.asarray(want)
        if got.dtype != want.dtype and who == "target":
            return {"what": "dtype", "who": who, "name": name, "declared_dtype": str(coll.dtype), "computed_dtype": str(got.dtype),
                    "want_dtype": str(want.dtype), "got": listed(got), "want": listed(want)}
        if not same_arr(got, want):
            return {"what": "value", "who": who, "name": name, "got": listed(got), "got_dtype": str(got.dtype),
                    "want": listed(want), "want_dtype": str(want.dtype)}
        return None

    def check_together(self, items):
        """Everything but x in ONE dask.compute (one graph, one scheduler run); located one by one if that raises."""
        import dask

        if not items:
            return None
        try:
            got = dask.compute(*[c for _, c, _, _ in items], **SYNC)
        except Exception:
            got = None
        for j, (n, c, w, who) in enumerate(items):
            if got is None:
                bad = self.check(n, c, w, who)
            else:
                g = np.asarray(got[j])
                bad = None if same_arr(g, w) else {"what": "value", "who": who, "name": n, "got": listed(g), "got_dtype": str(g.dtype),
                                                    "want": listed(w), "want_dtype": str(np.asarray(w).dtype)}
            if bad:
                return bad
        return None

    def check_buffers(self):
        for n, a in self.buffers.items():
            if fingerprint(a) != self.prints[n]:
                return {"what": "source-mutated", "who": "source", "name": n, "now": listed(a)}
        return None

    def run(self):
        import dask

        with dask.config.set({"array.optimize-graph": self.case.get("optimize", True)}):
            with np.errstate(all="ignore"):
                return self._run()

    def _run(self):
        """Returns (failure or None, refusal or None)."""
        case = self.case
        self.build_x()
        x = self.x
        derived = {}  # name -> (collection, expected)

        def derive(tag):
            sl = (slice(1, None),) + (slice(None),) * (x.ndim - 1)
            out = {tag + "slice": (x[sl], self.m[sl].copy()), tag + "affine": (x * 2 + 1, self.m * 2 + 1)}
            if case.get("flip"):
                out[tag + "flip"] = (x[::-1], self.m[::-1].copy())
                out[tag + "copy"] = (x.copy(), self.m.copy())
            return out

        try:
            derived.update(derive("before:"))
        except Exception as e:
            return {"what": "derive-raises", "who": "derived-before", "name": "before", "error": repr(e)[:300], "assign": 0}, None
        if case.get("precompute"):
            bad = self.check("x", x, self.m, "target")
            if bad:
                bad["what"] = "before-the-assignment:" + bad["what"]
                bad["assign"] = 0
                return bad, None
        refusal = None
        for i, asg in enumerate(case["assigns"]):
            key, val = asg["key"], asg["value"]
            # NumPy first: the oracle decides whether the assignment is valid at all
            saved = self.m.copy()
            try:
                nk = self.key_of(i, key, False)
                nv = self.value_of(i, val, key, False)
                self.m[nk] = nv
            except Exception as e:
                self.m = saved
                return None, ("numpy-refuses", type(e).__name__)
            if self.m.dtype != self.xdt:
                raise AssertionError("oracle changed dtype")
            before = x.expr._name
            refused = False
            try:
                dk = self.key_of(i, key, True)
                dv = self.value_of(i, val, key, True)
            except REFUSALS as e:
                # building the key / value collection itself failed (not an in-place operation): nothing to check
                self.m = saved
                return None, ("operand-build-refused", type(e).__name__)
            try:
                x[dk] = dv
            except REFUSALS as e:
                refused = True
                refusal = (type(e).__name__, str(e)[:80])
                self.m = saved
                if x.expr._name != before:
                    return {"what": "refused-but-changed", "who": "target", "name": "x", "assign": i, "error": repr(e)[:200]}, refusal
            pre = "refused-but-" if refused else ""
            if x.dtype != self.xdt:
                return {"what": pre + "dtype", "who": "target", "name": "x", "assign": i, "declared_dtype": str(x.dtype), "want_dtype": str(self.xdt)}, refusal
            after = {}
            if not refused and i == len(case["assigns"]) - 1:
                try:
                    after = derive("after:")
                except Exception as e:
                    return {"what": "derive-raises", "who": "derived-after", "name": "after", "error": repr(e)[:300], "assign": i}, refusal
            others = [(n, c, w, "derived-before") for n, (c, w) in derived.items()]
            others += [(n, c, w, "derived-after") for n, (c, w) in after.items()]
            others += [(n, c, self.want[n], self.who[n]) for n, c in self.env.items()]
            target = ("x", x, self.m, "target")
            bad = None
            if case.get("order") != "x-last":
                bad = self.check(*target)
            bad = bad or self.check_together(others)
            if case.get("order") == "x-last":
                bad = bad or self.check(*target)
            if bad:
                bad["what"] = pre + bad["what"]
                bad["assign"] = i
                return bad, refusal
            bad = self.check_buffers()
            if bad:
                bad["assign"] = i
                return bad, refusal
            if refused:
                return None, refusal
            # what was derived after assignment i is "derived before" assignment i+1
            derived.update(after)
        return None, refusal


def run_case(case):
    return Scenario(case).run()


# --------------------------------------------------------------------------- generation of a cell

def numpy_target_shape(case, i):
    """Shape of x[key] on the NumPy side (after the earlier assignments: only the shape matters)."""
    sc = Scenario(case)
    sc.m = dec_data(case["x"], sc.xdt, sc.shape)
    k = sc.key_of(i, case["assigns"][i]["key"], False)
    return list(sc.m[k].shape)


def avoid_known(key, val, tshape):
    """Classes that fail on the unchanged tree (reported by `probes` with narrow signatures) are not generated:
    (A) a dask boolean mask along one axis with a value whose dimension number <position of the mask> has extent 1
        (written into x's first block along that dimension only);
    (B) a dask integer key in several chunks with a value of extent > 1 along the indexed axis (x cannot be computed);
    (C) a full-shape dask mask with a length-1 1-d value (accepted, then x.shape / x.compute() raise)."""
    shp = val.get("shape")
    if shp is None:
        return
    kind = key["kind"]
    if kind in ("dask-mask-full", "dask-mask-of-x"):
        if len(shp) and int(np.prod(shp)) == 1:
            val["shape"] = []
            if "chunks" in val:
                val["chunks"] = []
        return
    if kind not in ("dask-mask-axis", "dask-int"):
        return
    # position of the fancy axis in the target == its position in the key (slices elsewhere, no integers)
    pos = next(j for j, k in enumerate(key["parts"]) if isinstance(k, dict))
    t, r = len(tshape), len(shp)
    if kind == "dask-int":
        j = r - (t - pos)  # the value's dimension aligned with the indexed axis
        part = key["parts"][pos]
        if j >= 0 and shp[j] > 1 and part["chunk"] < len(part["v"]):
            part["chunk"] = len(part["v"])
        return
    # dask-mask-axis: `parse_and_validate_assignment` pairs the value's dimension number `pos` (counted from the value's
    # FIRST dimension) with the mask; a size-1 dimension there is then sliced per block instead of broadcast
    if pos < r and shp[pos] == 1 and tshape[pos + t - r] > 1:
        n_old = int(np.prod(shp))
        shp[pos] = tshape[pos + t - r]
        n_new = int(np.prod(shp))
        val["data"] = (val["data"] * (n_new // max(n_old, 1) + 1))[:n_new]
        if "chunks" in val:
            val["chunks"] = [[d] for d in shp]


def gen_assign(rng, case, i, kkind, vkind, vdt):
    shape = case["shape"]
    for _ in range(6):
        key = gen_key(rng, kkind, shape)
        asg = {"key": key, "vdtype": str(np.dtype(vdt))}
        case["assigns"][i:] = [asg]
        try:
            tshape = numpy_target_shape(case, i)
        except Exception:
            continue
        zero_d_only = kkind in ("dask-mask-full", "dask-mask-of-x")
        val = gen_value(rng, vkind, vdt, case["xdtype"], tshape, zero_d_only, kkind)
        avoid_known(key, val, tshape)
        asg["value"] = val
        return asg
    raise RuntimeError("no valid key")


def gen_case(rng, kkind, vkind, rel):
    xdt, vdt = rng.choice(PAIRS[rel])
    if vkind == "dask-of-x":
        # x.astype(vdt) must be a defined cast for every element x may hold (float -> unsigned is not, for negatives)
        xdt, vdt = rng.choice([(a, b) for a, b in PAIRS[rel] if castable(a, b)])
    if vkind == "py-scalar":
        # Python scalars have four kinds only: pick a pair whose value dtype is the Python type's
        cands = [(a, b) for a, b in PAIRS[rel] if b in ("bool", "int64", "float64", "complex128")]
        if cands:
            xdt, vdt = rng.choice(cands)
    nd = 2 if kkind == "dask-mask-axis" else rng.choice([1, 1, 2])
    shape = [rng.randint(4, 10)] if nd == 1 else [rng.randint(2, 4), rng.randint(2, 5)]
    n = int(np.prod(shape))
    nonneg = np.dtype(vdt).kind == "u"
    xkind = rng.choice(XKINDS)
    chunks = [list(c) for c in P.rand_chunks_nd(rng, shape)]
    case = {"setitem_scenario": 1, "cell": [kkind, vkind, rel], "xdtype": xdt, "shape": shape, "chunks": chunks, "xkind": xkind,
            "x": enc_data(draw_x(rng, xdt, n, nonneg)), "optimize": rng.random() < 0.6, "precompute": rng.random() < 0.2,
            "flip": rng.random() < 0.3, "order": rng.choice(["x-first", "x-first", "x-last"]), "assigns": []}
    if xkind == "rechunked":
        case["chunks0"] = [list(c) for c in P.rand_chunks_nd(rng, shape)]
    if xkind == "concat":
        case["split"] = rng.randint(1, shape[0] - 1)
    gen_assign(rng, case, 0, kkind, vkind, vdt)
    if rng.random() < 0.3:
        # a second assignment of another kind on the updated x (x is now a SetItem / where expression)
        k2 = rng.choice([k for k in KEYS if not (k == "dask-mask-axis" and nd == 1)])
        v2 = rng.choice(VALUES)
        vdt2 = rng.choice([b for a, b in itertools.chain(*PAIRS.values()) if a == xdt])
        if v2 == "dask-of-x" and not (np.dtype(xdt).kind in "iub" or np.dtype(vdt2).kind in "fc"):
            v2 = "dask-array"  # after the first assignment x may hold values whose cast to vdt2 is undefined
        if v2 == "py-scalar" and vdt2 not in ("bool", "int64", "float64", "complex128"):
            v2 = "np-scalar"
        try:
            gen_assign(rng, case, 1, k2, v2, vdt2)
        except RuntimeError:
            del case["assigns"][1:]
    return case


# --------------------------------------------------------------------------- reporting

def key_class(key):
    return {"slice": "basic", "int": "basic", "list": "list", "np-mask-axis": "np-mask", "dask-mask-full": "dask-mask",
            "dask-mask-of-x": "dask-mask", "dask-mask-axis": "dask-mask-axis", "dask-int": "dask-int"}[key["kind"]]


def value_class(val):
    return "dask" if val["kind"].startswith("dask") else "concrete"


def signature(case, bad):
    asg = case["assigns"][min(bad.get("assign", 0), len(case["assigns"]) - 1)]
    kc, vc = key_class(asg["key"]), value_class(asg["value"])
    return f"setitem:{kc}-key:{vc}-value:{bad['what']}:{bad['who']}"


def shrink(case, sig):
    def fails(c):
        try:
            bad, _ = run_case(c)
        except Exception:
            return False
        return bad is not None and signature(c, bad) == sig

    cur = copy.deepcopy(case)
    if len(cur["assigns"]) > 1:
        for keep in ([cur["assigns"][1]], [cur["assigns"][0]]):
            c = dict(cur, assigns=copy.deepcopy(keep))
            c.pop("cell", None)
            if fails(c):
                cur = c
                break
    for k, v in (("xkind", "from_array"), ("precompute", False), ("flip", False), ("order", "x-first"), ("optimize", False)):
        if cur.get(k) != v:
            c = dict(cur, **{k: v})
            if fails(c):
                cur = c
    single = [[d] for d in cur["shape"]]
    if cur["chunks"] != single:
        c = dict(cur, chunks=single)
        if c.get("xkind") in ("rechunked", "concat"):
            c["xkind"] = "from_array"
        if fails(c):
            cur = c
    return cur


def check_case(ctx, case, do_shrink=True, seen=None):
    try:
        bad, refusal = run_case(case)
    except Exception as e:  # a harness error must not pass silently
        ctx.notes["setitem_scenario_harness_errors"] = ctx.notes.get("setitem_scenario_harness_errors", 0) + 1
        ctx.notes["setitem_scenario_harness_error"] = repr(e)[:200]
        ctx.extra.setdefault("setitem_scenario_harness_error_case", case)
        return True
    if refusal is not None:
        key = "setitem_scenario.refusal." + str(refusal[0])
        ctx.notes[key] = ctx.notes.get(key, 0) + 1
        samples = ctx.extra.setdefault("setitem_scenario_refusal_samples", {})
        if refusal[0] not in samples and refusal[0] not in ("numpy-refuses", "operand-build-refused"):
            samples[refusal[0]] = {"message": refusal[1], "cell": case.get("cell")}
    if bad is None:
        return True
    sig = signature(case, bad)
    if seen is not None:
        if sig in seen:
            ctx.notes["further_failing_setitem_scenarios." + sig] = ctx.notes.get("further_failing_setitem_scenarios." + sig, 0) + 1
            return False
        seen.add(sig)
    small = case
    if do_shrink:
        try:
            small = shrink(case, sig)
            bad2, _ = run_case(small)
            if bad2 is not None and signature(small, bad2) == sig:
                bad = bad2
            else:
                small = case
        except Exception:
            small = case
    ctx.fail(sig, dict(small, failure=bad),
             "after x[key] = value, x differs from NumPy's result of the same assignment (NumPy casts the value to x.dtype; x keeps its dtype), "
             "or a collection derived earlier, the value / key operand, or a retained NumPy buffer changed")
    return False


def search(ctx):
    """Walk the grid KEYS × VALUES × RELS once per pass (1 pass quick, several thorough)."""
    rng = ctx.rng
    t0 = time.time()
    budget = ctx.scale(35, 120)  # a safety cap only (one pass takes 4-8 s; the grid is meant to be walked completely)
    passes = ctx.scale(1, 6)
    done = 0
    failed = set()
    cells = list(itertools.product(KEYS, VALUES, RELS))
    for _ in range(passes):
        rng.shuffle(cells)
        for kkind, vkind, rel in cells:
            if time.time() - t0 > budget:
                ctx.notes["setitem_scenarios_stopped_on_budget_after"] = done
                break
            try:
                case = gen_case(rng, kkind, vkind, rel)
            except Exception as e:
                ctx.notes["setitem_scenario_generation_error"] = repr(e)[:200]
                continue
            ctx.count(("setitem-scenario", kkind, vkind, rel, case["xdtype"], case["assigns"][0]["vdtype"]))
            if done < 2:
                ctx.sample(case)
            done += 1
            check_case(ctx, case, do_shrink=True, seen=failed)
    ctx.notes["setitem_scenarios"] = done
    ctx.notes["setitem_scenario_grid"] = f"{len(KEYS)} key kinds x {len(VALUES)} value kinds x {len(RELS)} dtype relations = {len(cells)} cells per pass"


def probes(ctx):
    """Narrow deterministic probes for the classes `avoid_known` keeps out of the grid (they fail on the unchanged tree).
    A refusal at assignment time is fine (nothing changes); accepted-then-wrong / accepted-then-unusable is reported."""
    import dask_array as da

    def attempt(sig, program, build, want, what, raises_sig=None):
        ctx.count(("setitem-probe", sig))
        try:
            x = build()
        except REFUSALS:
            return  # refused at assignment time
        try:
            got = np.asarray(x.compute(**SYNC))
        except Exception as e:
            ctx.fail(raises_sig or sig, {"program": program, "error": repr(e)[:200]}, what + " (accepted by __setitem__, then x cannot be computed)")
            return
        if not same_arr(got, want):
            ctx.fail(sig, {"program": program, "got": listed(got), "got_dtype": str(got.dtype), "want": listed(want)}, what)

    # (A) dask boolean mask along an axis, value with extent 1 along that axis: `parse_and_validate_assignment` treats the
    #     dimension as "not broadcast" and slices the value per block -> blocks after the first get an empty value
    a = np.arange(12).reshape(3, 4)
    rows = np.array([True, False, True])
    m = a.copy()
    m[rows] = np.arange(4).reshape(1, 4) + 100

    def build_a():
        x = da.from_array(a.copy(), chunks=(2, 3))
        x[da.from_array(rows, chunks=2)] = np.arange(4).reshape(1, 4) + 100
        return x

    attempt("setitem:dask-mask-along-axis:size-1-value-dimension:first-block-only",
            "x = da.from_array(np.arange(12).reshape(3,4), chunks=(2,3)); x[da.from_array(np.array([True,False,True]), chunks=2)] = np.arange(4).reshape(1,4)+100; x.compute()",
            build_a, m, "x[dask row mask] = v of shape (1, ncols): only the selected rows in x's FIRST row block are written (NumPy broadcasts v to every selected row)")
    # (A') the same loop pairs value dimension i with index position i although the value is right-aligned: a lower-rank
    #      value's size-1 dimension is paired with the mask and sliced per COLUMN block
    b = np.arange(10).reshape(2, 5)
    m = b.copy()
    m[np.array([False, True])] = np.array([100])

    def build_a2():
        x = da.from_array(b.copy(), chunks=((2,), (1, 1, 1, 2)))
        x[da.from_array(np.array([False, True]), chunks=2)] = np.array([100])
        return x

    attempt("setitem:dask-mask-along-axis:lower-rank-value:dimension-mispaired",
            "x = da.from_array(np.arange(10).reshape(2,5), chunks=((2,),(1,1,1,2))); x[da.from_array(np.array([False,True]), chunks=2)] = np.array([100]); x.compute()",
            build_a2, m, "x[dask row mask] = v of shape (1,): only the first COLUMN block of the selected rows is written (NumPy fills the rows)")
    # (B) dask integer key held in several chunks, value with extent > 1 along the indexed axis
    c = np.arange(6)
    m = c.copy()
    m[np.array([2, 0])] = np.array([10, 11])

    def build_b():
        x = da.from_array(c.copy(), chunks=2)
        x[da.from_array(np.array([2, 0]), chunks=1)] = np.array([10, 11])
        return x

    attempt("setitem:dask-int-key-in-several-chunks:array-value:value",
            "x = da.from_array(np.arange(6), chunks=2); x[da.from_array(np.array([2,0]), chunks=1)] = np.array([10,11]); x.compute()",
            build_b, m, "x[dask integer array in 2 chunks] = array value",
            raises_sig="setitem:dask-int-key-in-several-chunks:array-value:compute-raises")
    # (C) full-shape dask mask, 1-d value of length 1 (NumPy broadcasts it): where(key, broadcast_to(value, (nan,)), x) is
    #     built without complaint, then x.shape / x.compute() raise
    d = np.arange(12.0)
    m = d.copy()
    m[d % 3 == 0] = np.array([2.5])

    def build_c():
        x = da.from_array(d.copy(), chunks=4)
        x[x % 3 == 0] = np.array([2.5])
        return x

    attempt("setitem:dask-mask-key:length-1-value:value",
            "x = da.from_array(np.arange(12.), chunks=4); x[x % 3 == 0] = np.array([2.5]); x.compute()",
            build_c, m, "x[dask mask] = 1-d value of length 1",
            raises_sig="setitem:dask-mask-key:length-1-value:compute-raises")
