"""Grid-sensitive consumers (C02 / C20 / C03): a block function that OBSERVES the block layout of its input
(map_blocks / Blockwise(align_arrays=False): block extents, block_info locations) sits directly over a node
that the optimizer likes to push slices / rechunks / shuffles into.  The optimizer may do so only when the
rewritten input has exactly the chunks that were advertised (`ArrayExpr._preserve_grid_contract`; model:
`keepGrid` in Model/Rules.lean, theorems `C02_chunks_*`).

Oracle (independent of the model and of the raw graph): NumPy value of the producer, cut into the pieces given
by the `.chunks` the un-optimized collection advertises, the block function applied piece by piece.

    producer  :  map_overlap (all boundary kinds, elementwise inner function), rechunk, unify of two chunkings,
                 concatenate, cumsum, sliding-window reduction, transposes, plain source
    selector  :  basic slices (incl. steps, block-culling windows), integer-list take, rechunk, two of them
    consumer  :  map_blocks(b - b[:1]), map_blocks(block_info → array-location / chunk-location / chunk shape),
                 map_blocks(block_id), `.blocks[k]`
"""
from __future__ import annotations

import itertools
import warnings

import numpy as np

from harness import classify

KNOWN = ("swv-layout-drift", "swv-nested-wrong-values")


def irregular(rng, n):
    if n == 0:
        return (0,)
    out = []
    left = n
    while left > 0:
        c = rng.choice([1, 1, 2, 2, 3, 4, 5, 6])
        c = min(c, left)
        out.append(c)
        left -= c
    return tuple(out)


def regular(rng, n):
    c = rng.randint(1, max(1, n))
    return tuple([c] * (n // c) + ([n % c] if n % c else [])) or (0,)


def block_relative(b):
    return b - b[:1] if b.ndim else b


def info_loc(b, block_info=None):
    loc = block_info[0]["array-location"]
    cl = block_info[0]["chunk-location"]
    v = sum((k + 1) * (lo * 100 + c) for k, ((lo, hi), c) in enumerate(zip(loc, cl)))
    return b * 0 + v + 7 * int(np.prod([hi - lo for lo, hi in loc])) + 1000 * sum(block_info[0]["num-chunks"])


def id_fn(b, block_id=None):
    return b * 0 + sum((k + 1) * i for k, i in enumerate(block_id))


def halo_sum(d):
    """reads its halo: sum of the 2d+1 neighbours along axis 0, missing neighbours replaced by the edge row (so that at
    a true array edge the result does not depend on block extents)"""

    def f(b):
        n = b.shape[0]
        if n == 0:
            return b
        p = np.pad(b, [(d, d)] + [(0, 0)] * (b.ndim - 1), mode="edge")
        return sum(p[d + k: d + k + n] for k in range(-d, d + 1))

    return f


def pieces(chunks):
    offs = [np.concatenate([[0], np.cumsum(c)]).astype(int) for c in chunks]
    for bid in itertools.product(*[range(len(c)) for c in chunks]):
        yield bid, tuple(slice(int(o[i]), int(o[i + 1])) for o, i in zip(offs, bid))


def oracle(kind, val, chunks):
    out = np.empty_like(val)
    for bid, sl in pieces(chunks):
        b = val[sl]
        if kind == "rel":
            out[sl] = block_relative(b)
        elif kind == "info":
            v = sum((k + 1) * (s.start * 100 + i) for k, (s, i) in enumerate(zip(sl, bid)))
            out[sl] = v + 7 * int(np.prod(b.shape)) + 1000 * sum(len(c) for c in chunks)
        elif kind == "id":
            out[sl] = sum((k + 1) * i for k, i in enumerate(bid))
    return out


def gen_case(rng):
    nd = rng.choice([1, 1, 2])
    shape = [rng.randint(4, 20)] + ([rng.randint(1, 5)] if nd == 2 else [])
    chunks = [list(irregular(rng, shape[0]) if rng.random() < 0.75 else regular(rng, shape[0]))] + ([list(irregular(rng, shape[1]))] if nd == 2 else [])
    n = shape[0]
    prod = rng.choice(["map_overlap", "map_overlap", "map_overlap", "rechunk", "unify", "concatenate", "cumsum", "swv", "transpose2", "source", "elemwise"])
    case = {"shape": shape, "chunks": chunks, "producer": prod}
    n = shape[0]
    if prod == "map_overlap":
        case["depth"] = rng.randint(1, min(5, n))
        case["boundary"] = rng.choice(["none", "none", "reflect", "periodic", "periodic", "nearest", 0])
        case["halo"] = rng.random() < 0.6
    elif prod == "rechunk":
        case["to"] = list(irregular(rng, n))
    elif prod == "unify":
        case["to"] = list(irregular(rng, n))
    elif prod == "concatenate":
        case["n2"] = rng.randint(1, 8)
        case["chunks2"] = list(irregular(rng, case["n2"]))
        n = n + case["n2"]
    elif prod == "swv":
        case["window"] = rng.randint(1, min(4, n))
        n = n - case["window"] + 1
    sels = []
    for _ in range(rng.choice([1, 1, 2])):
        k = rng.choice(["slice", "slice", "slice", "take", "rechunk", "step"])
        if n <= 0:
            break
        if k == "slice":
            a = rng.randint(0, n - 1)
            b = rng.randint(a + 1, n)
            sels.append(["slice", a, b, 1])
            n = b - a
        elif k == "step":
            a = rng.randint(0, n - 1)
            st = rng.choice([2, 3, -1, -2])
            idx = range(n)[a::st] if st > 0 else range(n)[a::st]
            sels.append(["slice", a, None, st])
            n = len(idx)
        elif k == "take":
            m = rng.randint(1, n)
            idx = sorted(rng.sample(range(n), m)) if rng.random() < 0.7 else [rng.randrange(n) for _ in range(m)]
            sels.append(["take", idx])
            n = m
        else:
            sels.append(["rechunk", list(irregular(rng, n))])
    case["selectors"] = sels
    case["consumer"] = rng.choice(["rel", "rel", "info", "id", "blocks", "plain", "plain"])
    return case


def build(case):
    import dask_array as da

    shape = tuple(case["shape"])
    a = (np.arange(int(np.prod(shape)), dtype=np.int64).reshape(shape) ** 2) % 97 + 1
    x = da.from_array(a, chunks=tuple(tuple(c) for c in case["chunks"]))
    p = case["producer"]
    if p == "map_overlap":
        if case.get("halo"):
            y = x.map_overlap(halo_sum(case["depth"]), depth={0: case["depth"]}, boundary=case["boundary"], dtype=a.dtype)
            # NumPy oracle where the boundary kind is edge replication; otherwise the un-optimized graph is the oracle
            v = halo_sum(case["depth"])(a) if case["boundary"] in ("none", "nearest") else None
        else:
            y = x.map_overlap(lambda b: b * 2, depth={0: case["depth"]}, boundary=case["boundary"], dtype=a.dtype)
            v = a * 2
    elif p == "rechunk":
        y = x.rechunk({0: tuple(case["to"])})
        v = a
    elif p == "unify":
        x2 = da.from_array(a + 3, chunks=(tuple(case["to"]),) + tuple(tuple(c) for c in case["chunks"][1:]))
        y = x + x2
        v = a + a + 3
    elif p == "concatenate":
        sh2 = (case["n2"],) + shape[1:]
        a2 = np.arange(int(np.prod(sh2)), dtype=np.int64).reshape(sh2) * 3 + 5
        x2 = da.from_array(a2, chunks=(tuple(case["chunks2"]),) + tuple(tuple(c) for c in case["chunks"][1:]))
        y = da.concatenate([x, x2], axis=0)
        v = np.concatenate([a, a2], axis=0)
    elif p == "cumsum":
        y = da.cumsum(x, axis=0)
        v = np.cumsum(a, axis=0)
    elif p == "swv":
        y = da.sliding_window_view(x, case["window"], axis=0).sum(axis=-1)
        v = np.lib.stride_tricks.sliding_window_view(a, case["window"], axis=0).sum(axis=-1)
    elif p == "transpose2":
        y = (x.T.T * 3) if x.ndim == 2 else x * 3
        v = a * 3
    elif p == "elemwise":
        y = (x + 1) * 2
        v = (a + 1) * 2
    else:
        y, v = x, a
    if v is None:
        import dask

        with dask.config.set({"array.optimize-graph": False}):
            v = np.asarray(y.compute(scheduler="sync"))
    for s in case["selectors"]:
        if s[0] == "slice":
            sl = slice(s[1], s[2], s[3])
            y, v = y[sl], v[sl]
        elif s[0] == "take":
            y, v = y[s[1]], v[s[1]]
        else:
            y = y.rechunk({0: tuple(s[1])})
    return y, v


def apply_consumer(case, s):
    c = case["consumer"]
    if c == "rel":
        return s.map_blocks(block_relative, dtype=s.dtype)
    if c == "info":
        return s.map_blocks(info_loc, dtype=s.dtype)
    if c == "id":
        return s.map_blocks(id_fn, dtype=s.dtype)
    if c == "plain":
        return s
    return None


def stale_dependents_class(case):
    """The failing case belongs to the listed class `grid-consumer:stale-dependents` iff, while the consumer is
    simplified, a chunk-changing pushdown is applied to a node that was CREATED during the same pass (two selectors
    fused into a new node, a slice moved below a shuffle, ...).  Such a node is unknown to the `dependents` map
    collected at the start of the pass, so `_preserve_grid_contract` cannot see the grid-sensitive consumer above
    it.  A chunk-changing pushdown applied to a node of the ORIGINAL tree is not in this class."""
    from harness import trace as T

    try:
        with warnings.catch_warnings():
            warnings.simplefilter("ignore")
            s, _ = build(case)
            z = s.blocks[tuple(0 for _ in s.chunks)] if case["consumer"] == "blocks" else apply_consumer(case, s)
            original = {n._name for n in z.expr.walk()}
            T.clear_caches()
            with T.trace_objects() as recs:
                z.expr.simplify()
        return any(r["before"]._name not in original and r["after"].chunks != r["before"].chunks for r in recs)
    except Exception:  # noqa: BLE001
        return False


STALE = "grid-consumer:stale-dependents"


def check_case(ctx, case):
    import dask

    with warnings.catch_warnings():
        warnings.simplefilter("ignore")
        try:
            s, v = build(case)
            advertised = s.chunks
        except Exception as e:  # noqa: BLE001
            if classify.is_refusal(e):
                ctx.count(("grid", "refused", case["producer"]))
                return
            ctx.fail("grid-consumer:construction-raises", {"grid": case, "outcome": repr(e)[:200]}, "construction raises")
            return
        if any(c != c for ax in advertised for c in ax):
            return
        if tuple(sum(ax) for ax in advertised) != v.shape:
            ctx.fail("grid-consumer:advertised-shape", {"grid": case, "advertised": [list(c) for c in advertised], "numpy_shape": list(v.shape)},
                     "advertised chunks do not sum to NumPy's shape")
            return
        ctx.count(("grid", case["producer"], tuple(x[0] for x in case["selectors"]), case["consumer"]))
        if case["consumer"] == "blocks":
            for bid, sl in pieces(advertised):
                want = v[sl]
                for opt in (True, False):
                    try:
                        with dask.config.set({"array.optimize-graph": opt}):
                            got = np.asarray(s.blocks[bid].compute(scheduler="sync"))
                    except Exception as e:  # noqa: BLE001
                        sig = "swv-layout-drift" if case["producer"] == "swv" and opt else "grid-consumer:blocks-raises"
                        if sig != "swv-layout-drift" and opt and stale_dependents_class(case):
                            sig = STALE
                        ctx.fail(sig, {"grid": case, "block": list(bid), "optimize": opt, "outcome": repr(e)[:200]},
                                 ".blocks[...] raises")
                        return
                    if got.shape != want.shape or not np.array_equal(got, want):
                        ctx.fail("grid-consumer:blocks-differs", {"grid": case, "block": list(bid), "optimize": opt, "advertised": [list(c) for c in advertised]},
                                 ".blocks[k] is not block k of the advertised layout")
                        return
            return
        want = v if case["consumer"] == "plain" else oracle(case["consumer"], v, advertised)
        for opt in (False, True):
            try:
                with dask.config.set({"array.optimize-graph": opt}):
                    s2, _ = build(case)
                    z = apply_consumer(case, s2)
                    got = np.asarray(z.compute(scheduler="sync"))
            except Exception as e:  # noqa: BLE001
                sig = "swv-layout-drift" if case["producer"] == "swv" and opt else f"grid-consumer:raises:{case['producer']}"
                ctx.fail(sig, {"grid": case, "optimize": opt, "outcome": repr(e)[:300]},
                         "a block-layout-sensitive consumer raises")
                return
            if got.shape != want.shape or not np.array_equal(got, want):
                sig = "swv-layout-drift" if case["producer"] == "swv" and opt else f"grid-consumer:differs:{case['producer']}"
                if sig != "swv-layout-drift" and opt and stale_dependents_class(case):
                    sig = STALE
                ctx.fail(sig, {"grid": case, "optimize": opt, "advertised": [list(c) for c in advertised]},
                         "a block function observing its input's block layout saw blocks other than the advertised chunks "
                         f"(optimize-graph={opt})")
                return


def run_grid(ctx, replay=None):
    if replay is not None:
        check_case(ctx, replay["case"]["grid"])
        return
    rng = ctx.rng
    # minimized corpus first (past failures of seeded changes)
    corpus = [
        {"shape": [17], "chunks": [[1, 4, 1, 2, 1, 5, 2, 1]], "producer": "map_overlap", "depth": 3, "boundary": "none",
         "selectors": [["slice", 7, 12, 1]], "consumer": "rel"},
        {"shape": [19], "chunks": [[1, 6, 2, 3, 1, 4, 2]], "producer": "map_overlap", "depth": 4, "boundary": "none",
         "selectors": [["slice", 11, 17, 1]], "consumer": "info"},
        {"shape": [17, 3], "chunks": [[4, 1, 3, 1, 1, 2, 2, 3], [3]], "producer": "map_overlap", "depth": 4, "boundary": "none",
         "selectors": [["slice", 7, 12, 1]], "consumer": "rel"},
    ]
    # probes of the listed finding `grid-consumer:stale-dependents` (printed as KNOWN-FINDING on every run) and the
    # inputs of the two repaired defects (Blocks did not pin its grid; contract only one level deep)
    corpus += [
        {"shape": [11, 3], "chunks": [[1, 3, 1, 1, 5], [2, 1]], "producer": "unify", "to": [2, 1, 2, 1, 2, 3],
         "selectors": [["take", [0, 1, 2, 3, 4, 5, 6, 7, 8, 10]], ["slice", 6, 9, 1]], "consumer": "rel"},
        {"shape": [8], "chunks": [[1, 1, 1, 1, 1, 1, 1, 1]], "producer": "unify", "to": [3, 2, 2, 1],
         "selectors": [["slice", 1, 6, 1], ["slice", 2, 4, 1]], "consumer": "blocks"},
        {"shape": [6], "chunks": [[3, 1, 2]], "producer": "unify", "to": [2, 4], "selectors": [["slice", 3, 6, 1]], "consumer": "blocks"},
        {"shape": [19], "chunks": [[3, 2, 1, 3, 5, 3, 2]], "producer": "unify", "to": [1, 6, 5, 4, 3],
         "selectors": [["slice", 3, None, -1], ["slice", 1, 4, 1]], "consumer": "rel"},
    ]
    for c in corpus:
        check_case(ctx, c)
    for _ in range(ctx.scale(350, 6000)):
        check_case(ctx, gen_case(rng))
