"""C03 extension — dtype REPRESENTATION variants flowing through operations that promote or declare a dtype.

Sources are stored in non-native byte order ('>i4', '>f8', '>c16', '>u2', '>M8[s]', …), in the same kind with another
width, bool, signed/unsigned mixes, float16, longdouble, datetime64/timedelta64 units, structured and string dtypes
(from_array / astype node / from_delayed / map_blocks sources).  They are combined by every operation that promotes
operands or declares a result dtype (table OPS: concatenate/stack/hstack/vstack/dstack/block/append/insert, where with array /
Python-scalar / NumPy-scalar condition, choose, select, binary ufuncs with arrays, Python scalars, NumPy scalars and 0-d arrays
of any byte order (function and operator spelling, both operand orders, dtype=), unary ufuncs, astype with every casting form /
copy=False / same dtype / byte-order-only, view, reductions and cumulative operations with dtype= (also a non-native one),
tensordot/dot/matmul/einsum/outer, pad, diff with prepend/append, round/clip, isin, searchsorted, digitize, setitem, *_like and
creation routines with dtype=, structure-only operations that must KEEP the representation, map_blocks/map_overlap).

Oracle: the same call on NumPy.  For every case, optimized and not:
  * every block of the real graph has exactly the advertised dtype (`!=` on dtypes distinguishes byte order; `.str` too) and shape;
  * compute() has the advertised dtype; `.blocks[i]` advertises and computes the same dtype; `.to_delayed()` results too;
  * the advertised dtype is NumPy's (kind always; byte order/width exactly unless the (op, reason) is in CONTROL — the places
    where dask_array on the unchanged tree deliberately differs — which is noted, never failed);
  * shape; values for exact kinds (noted for inexact kinds).
Every case is a JSON dict that rebuilds everything from scratch (`replay`).
"""
from __future__ import annotations

import itertools
import sys
import warnings

import numpy as np

SW = ">" if sys.byteorder == "little" else "<"
NONNATIVE = [SW + c for c in ("i4", "f8", "c16", "u2", "i2", "f4", "i8", "u4", "f2", "c8", "u8")]
NATIVE = ["i1", "u1", "i2", "u2", "i4", "u4", "i8", "u8", "f2", "f4", "f8", "g", "c8", "c16", "?"]
TIME = ["M8[s]", SW + "M8[s]", "M8[D]", "M8[ms]", "m8[s]", SW + "m8[s]", "m8[ms]", SW + "M8[ns]"]
STRUCT = ["S3", "U2", SW + "U2", [["a", "<i4"], ["b", "<f8"]], [["a", ">i4"], ["b", ">f8"]]]
_UID = itertools.count()


def _dt(spec):
    if isinstance(spec, list):
        return np.dtype([(str(n), str(t)) for n, t in spec])
    return np.dtype(spec)


def _native(d):
    return d.newbyteorder("=")


def same_dtype(a, b):
    """exact equality including byte order"""
    a, b = np.dtype(a), np.dtype(b)
    if a != b:
        return False
    if a.names is None and a.str != b.str:
        return False
    return True


def _data(spec, shape, salt=0):
    d = _dt(spec)
    n = int(np.prod(shape)) if len(shape) else 1
    a = ((np.arange(n, dtype=np.int64) * 7 + 3 + salt) % 11).reshape(shape)
    if d.names is not None:
        out = np.zeros(shape, dtype=d)
        for i, nm in enumerate(d.names):
            out[nm] = (a + i).astype(d[nm])
        return out
    if d.kind in "SU":
        return np.array([str(v) for v in a.reshape(-1)]).reshape(shape).astype(d)
    if d.kind == "b":
        return (a % 2).astype(bool)
    if d.kind == "f":
        return (a + 0.5).astype(d)
    if d.kind == "c":
        return (a + 1j * (a % 3)).astype(d)
    if d.kind in "Mm":
        return a.astype(_native(d)).astype(d)
    return a.astype(d)


def _scalar(spec):
    k, v = spec
    if k == "int":
        return int(v)
    if k == "float":
        return float(v) + 0.5
    if k == "complex":
        return complex(v, 1)
    if k == "bool":
        return bool(v % 2)
    if k.startswith("arr0:"):
        return np.array(v, dtype=k[5:])
    return np.dtype(k).type(v)


# ---------------------------------------------------------------------------------------------- sources


class _Give:
    def __init__(self, arr):
        self.arr = arr
        self.__name__ = f"give{next(_UID)}"

    def __call__(self):
        return self.arr


class _Cast:
    def __init__(self, dt):
        self.dt = dt
        self.__name__ = f"castblock{next(_UID)}"

    def __call__(self, b):
        return b.astype(self.dt)


def _source(src, data):
    import dask
    import dask_array as da

    chunks = tuple(tuple(int(c) for c in ax) for ax in src["chunks"])
    via = src.get("via", "from_array")
    d = data.dtype
    if via == "from_array":
        return da.from_array(data, chunks=chunks)
    if via == "astype":  # an astype NODE producing the representation from a native source
        nat = data.astype(_native(d)) if d.names is None else data
        return da.from_array(nat, chunks=chunks).astype(d)
    if via == "map_blocks":
        nat = data.astype(_native(d)) if d.names is None else data
        return da.from_array(nat, chunks=chunks).map_blocks(_Cast(d), dtype=d)
    if via == "from_delayed":  # one delayed value with a declared dtype, cut into the chunks
        return da.from_delayed(dask.delayed(_Give(data), pure=False)(), shape=data.shape, dtype=d).rechunk(chunks)
    raise ValueError(via)


# ---------------------------------------------------------------------------------------------- operation table
# fn(xp, A, p): xp is numpy or dask_array, A the list of operands (ndarrays or dask arrays), p the JSON parameters.


def _kw(p):
    kw = {}
    if p.get("od") is not None:
        kw["dtype"] = _dt(p["od"])
    return kw


def _cond(xp, a, p):
    c = p.get("cond", "arr")
    if c == "T":
        return True
    if c == "F":
        return False
    if c == "npT":
        return np.True_
    if c == "npF":
        return np.False_
    n = int(np.prod(a.shape))
    m = (np.arange(n).reshape(a.shape) % 3 == 0)
    if xp is np:
        return m
    return xp.from_array(m, chunks=a.chunks)


def _binop(xp, A, p):
    name = p["fn"]
    form = p.get("form", "aa")
    if form == "aa":
        l, r = A[0], A[1]
    elif form == "as":
        l, r = A[0], _scalar(p["s"])
    else:
        l, r = _scalar(p["s"]), A[0]
    if p.get("spell") == "operator":
        import operator

        return getattr(operator, {"add": "add", "subtract": "sub", "multiply": "mul", "true_divide": "truediv", "floor_divide": "floordiv", "less": "lt",
                                  "equal": "eq", "bitwise_or": "or_", "power": "pow", "remainder": "mod"}[name])(l, r)
    return getattr(xp, name)(l, r, **_kw(p))


def _astype(xp, A, p):
    kw = {k: p[k] for k in ("casting", "copy") if k in p}
    return A[0].astype(_dt(p["to"]), **kw)


def _reduce(xp, A, p):
    kw = _kw(p)
    if p.get("keepdims"):
        kw["keepdims"] = True
    return getattr(xp, p["fn"])(A[0], axis=p.get("axis"), **kw)


def _cum(xp, A, p):
    kw = _kw(p)
    if xp is not np and p.get("method"):
        kw["method"] = p["method"]
    return getattr(xp, p["fn"])(A[0], axis=p.get("axis", 0), **kw)


def _pad(xp, A, p):
    kw = {}
    if p["mode"] == "constant":
        kw["constant_values"] = _scalar(p["s"])
    return xp.pad(A[0], p.get("width", 1), mode=p["mode"], **kw)


def _setitem(xp, A, p):
    y = A[0].copy()
    v = _scalar(p["s"]) if p.get("form") == "s" else A[1]
    if p.get("sel") == "mask":
        m = _cond(xp, A[0], {"cond": "arr"})
        if p.get("form") == "s":
            y[m] = v
        else:
            y = xp.where(m, y, v) if False else y
            y[m] = _scalar(p["s"])
    else:
        y[1:] = v if p.get("form") == "s" else v[1:]
    return y


def _structural(xp, A, p):
    a = A[0]
    k = p["fn"]
    if k == "transpose":
        return a.T
    if k == "ravel":
        return a.ravel()
    if k == "reshape":
        return a.reshape(-1, 1) if a.ndim == 1 else a.reshape(a.shape[::-1])
    if k == "flip":
        return xp.flip(a, 0)
    if k == "roll":
        return xp.roll(a, 2, axis=0)
    if k == "repeat":
        return xp.repeat(a, 2, axis=0)
    if k == "tile":
        return xp.tile(a, 2)
    if k == "expand":
        return xp.expand_dims(a, 0)
    if k == "broadcast_to":
        return xp.broadcast_to(a, (2,) + tuple(a.shape))
    if k == "take":
        return a[[i % a.shape[0] for i in p["idx"]]]
    if k == "take_fn":
        return xp.take(a, [i % a.shape[0] for i in p["idx"]], axis=0)
    if k == "slice":
        return a[1::2]
    if k == "rev":
        return a[::-1]
    if k == "rechunk":
        return a if xp is np else a.rechunk(tuple(p["chunk"][: a.ndim]))
    if k == "copy":
        return a.copy()
    if k == "mask":
        return a[_cond(xp, a, {"cond": "arr"})] if a.ndim == 1 else a[_cond(xp, a[:, 0], {"cond": "arr"})]
    if k == "triu":
        return xp.triu(a)
    if k == "diagonal":
        return xp.diagonal(a)
    if k == "swapaxes":
        return xp.swapaxes(a, 0, -1)
    if k == "squeeze":
        return xp.squeeze(xp.expand_dims(a, 1), 1)
    if k == "atleast_2d":
        return xp.atleast_2d(a)
    if k == "compress":
        return xp.compress([i % 2 == 0 for i in range(a.shape[0])], a, axis=0)
    if k == "newaxis":
        return a[None, ..., None]
    if k == "int":
        return a[1, ...]  # (NumPy: a 0-d array keeping the dtype, not a scalar)
    if k == "moveaxis":
        return xp.moveaxis(a, 0, -1)
    if k == "map_blocks":
        return a if xp is np else a.map_blocks(_ident)
    if k == "map_blocks_meta":
        return a if xp is np else a.map_blocks(_ident, meta=np.empty((0,) * a.ndim, dtype=a.dtype))
    if k == "map_overlap":
        if xp is np:
            return a
        b = p.get("boundary", "reflect")
        return a.map_overlap(_ident, depth={0: 1}, boundary={0: b})
    if k == "overlap_const":
        if xp is np:
            return a
        return a.map_overlap(_ident, depth={0: 1}, boundary={0: _scalar(p["s"])})
    if k == "persistlike":
        return a if xp is np else xp.from_array(np.asarray(a.compute(scheduler="sync")), chunks=a.chunks)
    if k == "store":
        if xp is np:
            return a.astype(_dt(p["to"]))
        tgt = np.zeros(a.shape, dtype=_dt(p["to"]))
        a.store(tgt, lock=False, compute=True, scheduler="sync")
        return xp.from_array(tgt, chunks=a.chunks)
    raise ValueError(k)


def _ident(b):
    return b


def _like(xp, A, p):
    kw = _kw(p)
    if xp is not np and p.get("chunked"):
        pass
    if p["fn"] == "full_like":
        return xp.full_like(A[0], _scalar(p["s"]), **kw)
    return getattr(xp, p["fn"])(A[0], **kw)


def _creation(xp, A, p):
    od = _dt(p["od"])
    n = p["n"]
    ck = {} if xp is np else {"chunks": p.get("chunk", 2)}
    k = p["fn"]
    if k == "arange":
        return xp.arange(n, dtype=od, **ck)
    if k == "arange_step":
        return xp.arange(1, n + 1, 2, dtype=od, **ck)
    if k == "linspace":
        return xp.linspace(0, n, n, dtype=od, **ck)
    if k == "ones":
        return xp.ones((n, 2), dtype=od, **ck)
    if k == "zeros":
        return xp.zeros((n,), dtype=od, **ck)
    if k == "full":
        return xp.full((n, 2), _scalar(p["s"]), dtype=od, **ck)
    if k == "eye":
        return xp.eye(n, dtype=od, **ck)
    if k == "tri":
        return xp.tri(n, dtype=od, **ck)
    if k == "asarray":
        src = _data(p["src"], (n,))
        return np.asarray(src, dtype=od) if xp is np else xp.asarray(src, dtype=od, **ck)
    if k == "array":
        src = _data(p["src"], (n,))
        return np.array(src, dtype=od) if xp is np else xp.array(xp.from_array(src, **ck), dtype=od)
    if k == "asarray_da":
        src = _data(p["src"], (n,))
        return np.asarray(src, dtype=od) if xp is np else xp.asarray(xp.from_array(src, **ck), dtype=od)
    if k == "asanyarray_da":
        src = _data(p["src"], (n,))
        return np.asanyarray(src, dtype=od) if xp is np else xp.asanyarray(xp.from_array(src, **ck), dtype=od)
    raise ValueError(k)


def _idx_arr(xp, a, k):
    n = int(np.prod(a.shape))
    m = (np.arange(n).reshape(a.shape) % k)
    return m if xp is np else xp.from_array(m, chunks=a.chunks)


OPS = {
    # ---- stacking / promotion of several operands
    "concatenate": lambda xp, A, p: xp.concatenate(A, axis=p.get("axis", 0)),
    "concatenate_dtype": lambda xp, A, p: xp.concatenate(A, axis=0, **_kw(p)),
    "stack": lambda xp, A, p: xp.stack(A, axis=p.get("axis", 0)),
    "hstack": lambda xp, A, p: xp.hstack(A),
    "vstack": lambda xp, A, p: xp.vstack(A),
    "dstack": lambda xp, A, p: xp.dstack(A),
    "block": lambda xp, A, p: xp.block([[a] for a in A] if p.get("nest") and A[0].ndim == 2 else list(A)),
    "append": lambda xp, A, p: xp.append(A[0], A[1], axis=0),
    "append_scalar": lambda xp, A, p: xp.append(A[0], _scalar(p["s"])),
    "insert_scalar": lambda xp, A, p: xp.insert(A[0], p.get("at", 1), _scalar(p["s"]), axis=0),
    "insert_arr": lambda xp, A, p: xp.insert(A[0], [1, 2], A[1][:2], axis=0),
    "where": lambda xp, A, p: xp.where(_cond(xp, A[0], p), A[0], A[1]),
    "where_scalar_y": lambda xp, A, p: xp.where(_cond(xp, A[0], p), A[0], _scalar(p["s"])),
    "where_scalar_x": lambda xp, A, p: xp.where(_cond(xp, A[0], p), _scalar(p["s"]), A[0]),
    "choose": lambda xp, A, p: xp.choose(_idx_arr(xp, A[0], len(A)), list(A)),
    "select": lambda xp, A, p: xp.select([_cond(xp, A[0], {"cond": "arr"})], [A[0]], default=_scalar(p["s"])) if len(A) == 1 else xp.select(
        [_cond(xp, A[0], {"cond": "arr"}), _idx_arr(xp, A[0], 2) == 1], [A[0], A[1]]),
    "binop": _binop,
    "unary": lambda xp, A, p: getattr(xp, p["fn"])(A[0], **_kw(p)),
    "attr": lambda xp, A, p: getattr(A[0], p["fn"]) if p["fn"] in ("real", "imag") else getattr(A[0], p["fn"])(),
    "round": lambda xp, A, p: xp.round(A[0], p.get("decimals", 0)),
    "clip": lambda xp, A, p: xp.clip(A[0], _scalar(p["s"]), _scalar(p["s2"])) if len(A) == 1 else xp.clip(A[0], A[1], A[1] + 2),
    "astype": _astype,
    "view": lambda xp, A, p: A[0].view(_dt(p["to"])),
    "reduce": _reduce,
    "cum": _cum,
    "tensordot": lambda xp, A, p: xp.tensordot(A[0], A[1].T if A[0].ndim == 2 else A[1], axes=1),
    "dot": lambda xp, A, p: xp.dot(A[0], A[1].T if A[0].ndim == 2 else A[1]),
    "matmul": lambda xp, A, p: xp.matmul(A[0], A[1].T if A[0].ndim == 2 else A[1]),
    "einsum": lambda xp, A, p: xp.einsum(p["sub"], *A[: p["sub"].count(",") + 1], **_kw(p)),
    "outer": lambda xp, A, p: xp.outer(A[0], A[1]),
    "pad": _pad,
    "diff": lambda xp, A, p: xp.diff(A[0], axis=0, **({"prepend": A[1][:1]} if p.get("ext") == "prepend" else {"append": A[1][:1]} if p.get("ext") == "append" else {})),
    "isin": lambda xp, A, p: xp.isin(A[0], A[1]),
    "searchsorted": lambda xp, A, p: xp.searchsorted(xp.arange(A[0].shape[0]).astype(A[0].dtype) if xp is np else xp.arange(
        A[0].shape[0], chunks=A[0].chunks[0]).astype(A[0].dtype), A[1], side=p.get("side", "left")),
    "digitize": lambda xp, A, p: xp.digitize(A[0], np.array([1, 3, 7], dtype=_dt(p["to"]))),
    "setitem": _setitem,
    "structural": _structural,
    "like": _like,
    "creation": _creation,
    "average": lambda xp, A, p: xp.average(A[0], axis=0, weights=A[1]),
    "multi": lambda xp, A, p: getattr(xp, p["fn"])(*A[: 2 if p["fn"] == "divmod" else 1])[p.get("out", 0)],
    "map_blocks2": lambda xp, A, p: np.add(A[0], A[1]) if xp is np else xp.map_blocks(np.add, A[0], A[1]),
    "blockwise2": lambda xp, A, p: np.add(A[0], A[1]) if xp is np else xp.blockwise(
        np.add, "ij"[: A[0].ndim], A[0], "ij"[: A[0].ndim], A[1], "ij"[: A[0].ndim], dtype=np.result_type(A[0].dtype, A[1].dtype)),
    "nan_to_num": lambda xp, A, p: xp.nan_to_num(A[0]),
    "isclose": lambda xp, A, p: xp.isclose(A[0], A[1]),
    "result_of_mixed_chain": lambda xp, A, p: xp.concatenate([A[0] + _scalar(p["s"]), A[1]])[1:],
}

# operations whose result dtype is REQUESTED by the caller: the advertised dtype must equal it exactly
REQUESTED = {"astype": "to", "view": "to"}
# (op, fn) whose advertised dtype differs from NumPy's exactly (same kind) on the unchanged tree, by design: noted as control
# (blocks agree with the advertised dtype there; NumPy keeps the operand's byte order, dask_array normalises to native — or, for the
# order reductions, the other way round, which the block check reports)
CONTROL = {"round", "select", "pad", "attr:conj", "setitem", "structural:tile", "structural:repeat", "structural:roll", "reduce:min", "reduce:max", "reduce:nanmax", "reduce:ptp"}
# np.insert casts the inserted values to the array's dtype; dask_array (as dask.array) promotes array and values: control
KIND_CONTROL = {"insert_scalar", "insert_arr"}
# operations on which dask_array's advertised dtype agrees with NumPy's exactly (byte order included) on the unchanged tree
STRICT = {"concatenate", "stack", "hstack", "vstack", "dstack", "block", "append", "append_scalar", "where", "where_scalar_y", "where_scalar_x", "choose", "binop",
          "unary", "astype", "view", "like", "creation", "reduce", "cum", "clip", "round", "isin", "searchsorted", "digitize", "tensordot", "dot", "matmul", "outer",
          "diff", "map_blocks2", "blockwise2", "average", "multi", "isclose", "nan_to_num", "result_of_mixed_chain", "structural", "attr", "pad", "setitem", "select",
          "einsum"}

SAME_SHAPE_2 = {"where", "choose", "select", "binop", "clip", "map_blocks2", "blockwise2", "isclose", "stack", "dstack", "setitem", "insert_arr", "diff", "average",
                "isin", "result_of_mixed_chain", "tensordot", "dot", "matmul", "einsum", "multi"}


# ---------------------------------------------------------------------------------------------- checking


def _apply(xp, case, A):
    return OPS[case["op"]](xp, A, case.get("p") or {})


def _post(y, want, post):
    k = post[0]
    if k == "none":
        return y, want
    if not y.ndim:
        return y, want
    if k == "tail":
        c0 = y.chunks[0][0]
        s = 1 if (isinstance(c0, float) and np.isnan(c0)) else int(c0)
        return y[s:], want[s:]
    if k == "take":
        idx = [i % y.shape[0] for i in post[1]]
        return y[idx], want[idx]
    if k == "rechunk":
        return y.rechunk(tuple(post[1][: y.ndim])), want
    if k == "rev":
        return y[::-1], want[::-1]
    if k == "T":
        return y.T, want.T
    if k == "copy":
        return y.copy(), want.copy()
    if k == "concat_self":
        import dask_array as da

        return da.concatenate([y, y]), np.concatenate([want, want])
    raise ValueError(k)


KEEP_RED = ("min", "max", "nanmax", "nanmin", "ptp", "topk")
TAKES = ("take", "take_fn", "compress")


def _swapped(spec):
    try:
        return spec is not None and _dt(spec).byteorder == SW
    except TypeError:
        return False


def signature(case, kind, stage=None, got=None, adv=None):
    """root-cause classes first (each is a VIOLATION; the names are only stable handles), then the generic form"""
    p = case.get("p") or {}
    fn = p.get("fn")
    op = case["op"]
    bo = False
    if got is not None and adv is not None:
        g, a = np.dtype(got), np.dtype(adv)
        bo = g != a and _native(g) == _native(a)
    where = f"post-{stage[0]}" if stage and stage[0] != "none" else f"{op}{':' + str(fn) if fn else ''}"
    if bo:
        if (stage and stage[0] == "take") or (op == "structural" and fn in TAKES):
            return "dtypes:byteorder:integer-take"  # x[[…]] / take / compress of a non-native array: blocks come out native
        if op == "reduce" and fn in KEEP_RED and "od" not in p:
            return "dtypes:byteorder:order-reduction"  # min/max/… of a non-native array advertise the input dtype, compute native
        if op in ("cum", "reduce", "binop", "unary", "einsum", "like") and _swapped(p.get("od")):
            return "dtypes:byteorder:dtype-kwarg"  # dtype='>f4': advertised as given, blocks native
        if op == "structural" and fn in ("map_overlap", "overlap_const") and (stage is None or stage[0] == "none"):
            return "dtypes:byteorder:map_overlap-boundary"  # boundary blocks are concatenated (native result) under a non-native advertised dtype
        if op == "einsum" and "," not in p.get("sub", ",") and (stage is None or stage[0] == "none"):
            return "dtypes:byteorder:einsum-relabel"  # np.einsum returns a view of the non-native operand; advertised native
        return f"dtypes:byteorder:{where}:{kind}"
    if kind == "compute-raises" and op in ("cum", "reduce", "binop", "unary", "einsum") and _swapped(p.get("od")):
        return "dtypes:byteorder:dtype-kwarg"
    if op == "reduce" and kind == "compute-raises" and any(_dt(s_["dt"]).kind == "m" for s_ in case["srcs"]):
        return "dtypes:timedelta-reduction:compute-raises"  # sum/mean/… of timedelta64 pass dtype=<instance with unit> to the ufunc: TypeError at compute
    if op == "creation" and fn == "arange_step" and _dt(p["od"]).kind in "Mm":
        return "dtypes:arange-datetime-step"  # arange(start, stop, step, dtype=datetime64): block lengths / shape disagree with chunks
    if op == "select" and "s" in p:
        return "dtypes:select-default-dtype"  # select(…, default=scalar) ignores the default in the advertised dtype
    return f"dtypes:{where}:{kind}"


def _fail(ctx, sig, case, what):
    seen = ctx.extra.setdefault("dtypes.failures_per_signature", {})
    seen[sig] = seen.get(sig, 0) + 1
    if seen[sig] <= 3:
        ctx.fail(sig, case, what)


def _c(case, **detail):
    return {**case, "detail": detail}


def _note(ctx, bucket, key, rec, cap=40):
    d = ctx.extra.setdefault(bucket, {})
    if key not in d and len(d) < cap:
        d[key] = rec
    ctx.notes[bucket.split("(")[0]] = ctx.notes.get(bucket.split("(")[0], 0) + 1


def _known_shape(y):
    return not any(isinstance(s, float) and np.isnan(s) for s in y.shape)


def dt_check(ctx, case):
    """returns the number of blocks checked"""
    import dask
    from harness import graphs as G

    p = case.get("p") or {}
    opkey = case["op"] + (":" + str(p.get("fn")) if p.get("fn") else "")
    with warnings.catch_warnings(), np.errstate(all="ignore"):
        warnings.simplefilter("ignore")
        datas = [_data(s["dt"], tuple(s["shape"]), salt=i * 2) for i, s in enumerate(case["srcs"])]
        try:
            want = np.asarray(_apply(np, case, [d.copy() for d in datas]))
        except Exception:  # noqa: BLE001
            ctx.notes["dtypes.numpy_refuses"] = ctx.notes.get("dtypes.numpy_refuses", 0) + 1
            return 0
        try:
            A = [_source(s, d) for s, d in zip(case["srcs"], datas)]
            for a, d, s_ in zip(A, datas, case["srcs"]):
                if not same_dtype(a.dtype, d.dtype):
                    _fail(ctx, f"dtypes:source:{s_.get('via', 'from_array')}:advertised-dtype", _c(case, advertised=a.dtype.str, data=d.dtype.str),
                          "a source collection advertises another dtype than the array it wraps")
                    return 0
            z = _apply(sys.modules["dask_array"], case, A)
            if hasattr(z, "__dask_graph__"):
                z.dtype, z.chunks  # noqa: B018  (lazy properties: a refusal may surface only here)
        except Exception as e:  # noqa: BLE001
            _note(ctx, "dtypes.dask_refuses(examples)", f"{opkey}:{type(e).__name__}", {"case": case, "error": repr(e)[:160]})
            return 0
        if not hasattr(z, "__dask_graph__"):
            _note(ctx, "dtypes.not_a_collection(examples)", opkey, {"case": case, "type": type(z).__name__})
            return 0
        n = 0
        # ---- advertised dtype vs the oracle
        req = REQUESTED.get(case["op"])
        if req is not None and not same_dtype(z.dtype, _dt(p[req])):
            _fail(ctx, signature(case, "advertised-dtype-vs-requested", got=z.dtype, adv=_dt(p[req])), _c(case, advertised=z.dtype.str, requested=_dt(p[req]).str),
                  "the advertised dtype is not the requested dtype (byte order / width)")
            return 0
        if case["op"] == "einsum" and "," not in p["sub"]:
            # np.einsum returns a VIEW of its operand for a pure relabeling (ignoring dtype=): no oracle for the advertised dtype
            want = want.astype(z.dtype)
        if case["op"] in KIND_CONTROL and z.dtype.kind != want.dtype.kind:
            _note(ctx, "dtypes.advertised_differs_from_numpy(control: noted, not C03)", f"{opkey}:kind", {"advertised": z.dtype.str, "numpy": want.dtype.str, "case": case})
            want = want.astype(z.dtype)
        if z.dtype.kind != want.dtype.kind:
            _fail(ctx, signature(case, "advertised-dtype-kind"), _c(case, advertised=z.dtype.str, numpy=want.dtype.str),
                  "advertised dtype kind differs from the dtype NumPy returns for the same call")
            return 0
        exact = same_dtype(z.dtype, want.dtype)
        if not exact:
            why = "byteorder" if z.dtype.names is None and _native(z.dtype) == _native(want.dtype) else "width"
            if why == "byteorder" and opkey.split(":")[0] in STRICT and opkey not in CONTROL and not _swapped(p.get("od")):
                _fail(ctx, f"dtypes:byteorder:{opkey}:advertised-vs-numpy", _c(case, advertised=z.dtype.str, numpy=want.dtype.str),
                      "the advertised dtype has another byte order than NumPy's result for the same call")
                return 0
            _note(ctx, "dtypes.advertised_differs_from_numpy(control: noted, not C03)", f"{opkey}:{why}",
                  {"advertised": z.dtype.str, "numpy": want.dtype.str, "case": case})
        if _known_shape(z) and tuple(int(s) for s in z.shape) != want.shape:
            _fail(ctx, signature(case, "advertised-shape"), _c(case, advertised=str(z.shape), numpy=str(want.shape)), "advertised shape differs from NumPy")
            return 0
        posts = [["none"]] + ([case["post"]] if case.get("post", ["none"])[0] != "none" else [])
        for post in posts:
            try:
                y, w = _post(z, want, post)
            except (IndexError, ValueError, NotImplementedError, ZeroDivisionError):
                continue
            if exact and not same_dtype(y.dtype, w.dtype):
                _note(ctx, "dtypes.advertised_differs_from_numpy(control: noted, not C03)", f"post-{post[0]}:after:{opkey.split(':')[0]}",
                      {"advertised": y.dtype.str, "numpy": w.dtype.str, "case": case})
            for opt in (True, False):
                try:
                    with dask.config.set({"array.optimize-graph": opt}):
                        values, _ = G.execute(G.to_tasks(y.__dask_graph__()))
                    keys = list(itertools.product(*[range(len(c)) for c in y.chunks]))
                    bad = None
                    for bid in keys:
                        v = values.get((y.name, *bid))
                        if v is None:
                            bad = ("missing-output-key", bid, None)
                            break
                        scalar = not isinstance(v, np.ndarray)  # a NumPy scalar is native by construction: byte order is not comparable
                        v = np.asarray(v)
                        if not (same_dtype(v.dtype, y.dtype) or (scalar and _native(v.dtype) == _native(y.dtype))):
                            bad = ("block-dtype", bid, v.dtype)
                            break
                        wshape = tuple(c[i] for c, i in zip(y.chunks, bid))
                        if v.ndim != len(wshape) or any(not (isinstance(b_, float) and np.isnan(b_)) and a_ != b_ for a_, b_ in zip(v.shape, wshape)):
                            bad = ("block-shape", bid, str(v.shape))
                            break
                    n += len(keys)
                    if bad is None:
                        if opt:
                            with dask.config.set({"array.optimize-graph": True}):
                                raw = y.compute(scheduler="sync")
                        else:
                            raw = G.assemble(y, values)
                        got = np.asarray(raw)
                        if not isinstance(raw, np.ndarray) and _native(got.dtype) == _native(y.dtype):
                            got = got.astype(y.dtype)  # scalar result: native by construction
                except Exception as e:  # noqa: BLE001
                    _fail(ctx, signature(case, "compute-raises", post), _c(case, stage=post, optimize=opt, outcome=repr(e)[:240]), "executing the graph raises")
                    return n
                if bad is not None:
                    kind, bid, g = bad
                    _fail(ctx, signature(case, kind, post, got=g if kind == "block-dtype" else None, adv=y.dtype),
                          _c(case, stage=post, optimize=opt, block=list(bid), got=(g.str if g.names is None else str(g)) if isinstance(g, np.dtype) else g,
                             advertised=y.dtype.str if y.dtype.names is None else str(y.dtype), chunks=str(y.chunks)),
                          "a block of the materialized graph does not have the advertised dtype/shape (byte order included)")
                    return n
                if not same_dtype(got.dtype, y.dtype):
                    _fail(ctx, signature(case, "computed-dtype", post, got=got.dtype, adv=y.dtype), _c(case, stage=post, optimize=opt, advertised=y.dtype.str, computed=got.dtype.str),
                          "compute() returns another dtype than advertised (byte order included)")
                    return n
                if got.shape != w.shape:
                    _fail(ctx, signature(case, "computed-shape", post), _c(case, stage=post, optimize=opt, computed=str(got.shape), numpy=str(w.shape)),
                          "computed result has a different shape than NumPy")
                    return n
                if p.get("fn") in ("empty_like",):
                    continue
                if (_native(got.dtype) == _native(w.dtype)) if got.dtype.names is None else (got.dtype == w.dtype):
                    if w.dtype.kind in "fc":
                        width = w.dtype.itemsize // (2 if w.dtype.kind == "c" else 1)
                        tol = 1e-2 if width <= 2 else 2e-3 if width <= 4 else 1e-9
                        ok = np.allclose(got.astype(_native(got.dtype)), w.astype(_native(w.dtype)), rtol=tol, atol=tol, equal_nan=True)
                    elif w.dtype.kind in "Mm":
                        ok = np.array_equal(got.astype(_native(got.dtype)).view("i8"), w.astype(_native(w.dtype)).view("i8"))
                    else:
                        ok = np.array_equal(got, w)
                    if not ok:
                        # values are C01's property; here only noted (a wrong byte-order interpretation would show up as garbage values)
                        _note(ctx, "dtypes.values_differ_from_numpy(noted, not C03)", opkey,
                              {"case": case, "stage": post, "optimize": opt, "got": repr(got.tolist())[:120], "want": repr(w.tolist())[:120]})
                        break
            # ---- consumers that hand out single blocks: .blocks[i] and to_delayed()
            if post[0] == "none" and y.ndim and case.get("consumers", True):
                try:
                    nb = tuple(len(c) for c in y.chunks)
                    for bid in sorted({tuple(0 for _ in nb), tuple(k - 1 for k in nb)}):
                        b = y.blocks[bid]
                        if not same_dtype(b.dtype, y.dtype):
                            _fail(ctx, signature(case, "blocks-advertised-dtype", got=b.dtype, adv=y.dtype), _c(case, block=list(bid), advertised=y.dtype.str, blocks=b.dtype.str),
                                  ".blocks[i] advertises another dtype than its parent")
                            return n
                        bv = np.asarray(b.compute(scheduler="sync"))
                        n += 1
                        if not same_dtype(bv.dtype, y.dtype):
                            _fail(ctx, signature(case, "blocks-computed-dtype", got=bv.dtype, adv=y.dtype), _c(case, block=list(bid), advertised=y.dtype.str, computed=bv.dtype.str),
                                  ".blocks[i].compute() has another dtype than advertised (byte order included)")
                            return n
                    dl = y.to_delayed().reshape(-1)
                    for j in sorted({0, len(dl) - 1}):
                        dv = np.asarray(dl[j].compute(scheduler="sync"))
                        n += 1
                        if not same_dtype(dv.dtype, y.dtype):
                            _fail(ctx, signature(case, "to_delayed-dtype", got=dv.dtype, adv=y.dtype), _c(case, index=j, advertised=y.dtype.str, computed=dv.dtype.str),
                                  "a to_delayed() block has another dtype than advertised (byte order included)")
                            return n
                except Exception as e:  # noqa: BLE001
                    _fail(ctx, signature(case, "block-consumer-raises"), _c(case, outcome=repr(e)[:240]), ".blocks / to_delayed() raises on a computable collection")
                    return n
        return n


# ---------------------------------------------------------------------------------------------- generation

NUM = NATIVE + NONNATIVE
REAL = [d for d in NUM if _dt(d).kind in "biuf"]
INTS = [d for d in NUM if _dt(d).kind in "iu"]
FLOATS = [d for d in NUM if _dt(d).kind in "fc"]
ANY = NUM + TIME + STRUCT
SCALARS = [["int", 3], ["float", 2], ["complex", 1], ["bool", 1], ["i1", 2], ["u2", 3], ["f4", 2], ["f2", 1], ["i8", 5], ["u8", 5], ["c8", 1], ["g", 2],
           ["arr0:" + SW + "i4", 3], ["arr0:" + SW + "f8", 2], ["arr0:f4", 2], ["arr0:u1", 2]]
BIN = ["add", "subtract", "multiply", "true_divide", "floor_divide", "maximum", "minimum", "less", "equal", "remainder", "hypot", "arctan2", "copysign",
       "logical_and", "fmax", "power"]
BIN_INT = ["bitwise_or", "bitwise_and", "left_shift", "gcd"]
UNARY = ["negative", "absolute", "sqrt", "conj", "sign", "square", "rint", "floor", "logical_not", "positive", "isnan", "isfinite", "signbit", "exp", "real", "imag",
         "angle", "fix", "fabs", "cbrt", "deg2rad", "iscomplex", "isreal", "trunc", "reciprocal"]
RED = ["sum", "prod", "mean", "var", "std", "min", "max", "argmax", "any", "all", "nansum", "nanmean", "nanmax", "ptp", "median"]
CUMS = ["cumsum", "cumprod", "nancumsum"]
STRUCTURAL = ["transpose", "ravel", "reshape", "flip", "roll", "repeat", "tile", "expand", "broadcast_to", "take", "take_fn", "slice", "rev", "rechunk", "copy", "mask",
              "triu", "diagonal", "swapaxes", "squeeze", "atleast_2d", "compress", "newaxis", "int", "moveaxis", "map_blocks", "map_blocks_meta", "map_overlap",
              "overlap_const", "persistlike", "store"]
MULTI_SRC = ["concatenate", "stack", "hstack", "vstack", "dstack", "block", "append", "where", "choose", "select", "insert_arr", "map_blocks2", "blockwise2",
             "result_of_mixed_chain", "diff", "isin", "clip", "isclose", "average", "searchsorted", "tensordot", "dot", "matmul", "einsum", "outer", "concatenate_dtype"]
VIAS = ["from_array"] * 6 + ["astype", "map_blocks", "from_delayed"]


def _chunks(rng, n, kmin=2):
    if n < kmin:
        return [n]
    k = rng.randint(kmin, min(n, kmin + 1))
    cuts = sorted(rng.sample(range(1, n), k - 1))
    return [b - a for a, b in zip([0] + cuts, cuts + [n])]


def _src(rng, dt, shape, via=None):
    ch = [_chunks(rng, shape[0])] + [_chunks(rng, s, kmin=rng.choice([1, 2])) for s in shape[1:]]
    return {"dt": dt, "shape": list(shape), "chunks": ch, "via": via or rng.choice(VIAS)}


def _pick_pair(rng, pool):
    """dtype pairs biased towards representation variants: one non-native + one native of the SAME type, same kind / other width, mixes"""
    nn = [d for d in pool if isinstance(d, str) and d[0] == SW]
    r = rng.random()
    if nn and r < 0.35:  # differ only in byte order
        a = rng.choice(nn)
        b = a[1:]
        return [a, b] if rng.random() < 0.5 else [b, a]
    if nn and r < 0.5:  # both non-native
        return [rng.choice(nn), rng.choice(nn)]
    if nn and r < 0.75:
        pr = [rng.choice(nn), rng.choice(pool)]
        rng.shuffle(pr)
        return pr
    return [rng.choice(pool), rng.choice(pool)]


def _post_gen(rng, n):
    k = rng.choice(["none", "none", "tail", "take", "rechunk", "rev", "T", "copy", "concat_self"])
    if k == "take":
        return ["take", [rng.randint(0, 9) for _ in range(rng.randint(1, 4))]]
    if k == "rechunk":
        return ["rechunk", [rng.randint(1, 3), rng.randint(1, 3), 1]]
    return [k]


def dt_gen(rng, op=None):
    op = op or rng.choice(GEN_OPS)
    nd = rng.choice([1, 1, 2])
    n0, n1 = rng.randint(4, 7), rng.randint(2, 4)
    shape = (n0,) if nd == 1 else (n0, n1)
    p = {}
    case = {"dtypes": True, "op": op}
    srcs = None

    def sc():
        return rng.choice(SCALARS)

    if op in ("concatenate", "hstack", "vstack", "block", "append", "concatenate_dtype"):
        k = rng.choice([2, 2, 3])
        pool = rng.choice([NUM, NUM, NUM, TIME, STRUCT])
        dts = _pick_pair(rng, pool) + ([rng.choice(pool)] if k == 3 else [])
        if op == "append":
            dts = dts[:2]
        srcs = []
        for d in dts:
            m = rng.randint(3, 6)
            srcs.append(_src(rng, d, (m,) if nd == 1 else (m, n1)))
        if op == "concatenate":
            p["axis"] = 0
        if op == "block":
            p["nest"] = rng.random() < 0.5
        if op == "concatenate_dtype":
            p["od"] = rng.choice(NUM)
        if op == "hstack" and nd == 2:
            for s in srcs:
                s["shape"][0] = n0
                s["chunks"][0] = _chunks(rng, n0)
    elif op in SAME_SHAPE_2 or op in ("outer", "searchsorted"):
        if op in ("tensordot", "dot", "matmul", "einsum", "outer", "average", "isclose", "multi"):
            pool = NUM
        elif op in ("where", "choose", "stack", "dstack", "insert_arr", "setitem", "isin", "select"):
            pool = rng.choice([NUM, NUM, NUM, TIME, STRUCT])
        elif op == "diff":
            pool = rng.choice([NUM, NUM, TIME])
        else:
            pool = NUM
        dts = _pick_pair(rng, pool)
        if op in ("choose", "stack") and rng.random() < 0.3:
            dts.append(rng.choice(pool))
        if op in ("outer", "searchsorted"):
            shape = (n0,)
        srcs = [_src(rng, d, shape) for d in dts]
        if op == "where":
            p["cond"] = rng.choice(["arr", "T", "F", "T", "F", "npT", "npF"])
        if op == "binop":
            intish = all(_dt(d).kind in "iub" for d in dts)
            p["fn"] = rng.choice(BIN + (BIN_INT if intish else []))
            p["form"] = rng.choice(["aa", "aa", "as", "sa"])
            if p["form"] != "aa":
                srcs = srcs[:1]
                p["s"] = sc()
            r = rng.random()
            if r < 0.25 and p["fn"] in ("add", "subtract", "multiply", "true_divide", "floor_divide", "less", "equal", "bitwise_or", "power", "remainder"):
                p["spell"] = "operator"
            elif r < 0.45:
                p["od"] = rng.choice(FLOATS + [SW + "f8", SW + "c16"])
        if op == "einsum":
            p["sub"] = rng.choice(["ij,ij->ij", "ij,ij->i", "ij->ji", "ij->i", "ij,ij->"]) if nd == 2 else rng.choice(["i,i->i", "i,i->", "i->i"])
            if rng.random() < 0.3:
                p["od"] = rng.choice(FLOATS)
        if op == "diff":
            p["ext"] = rng.choice(["prepend", "append", "none"])
        if op == "setitem":
            p["form"] = rng.choice(["s", "a"])
            p["sel"] = rng.choice(["slice", "mask"]) if p["form"] == "s" else "slice"
            p["s"] = sc()
        if op == "select":
            if rng.random() < 0.5:
                srcs = srcs[:1]
            p["s"] = sc()
        if op == "clip" and rng.random() < 0.5:
            srcs = srcs[:1]
            p["s"], p["s2"] = ["int", 2], rng.choice([["int", 6], ["float", 6], ["f4", 6], ["i8", 6]])
        if op == "multi":
            p["fn"] = rng.choice(["modf", "frexp", "divmod"])
            p["out"] = rng.choice([0, 1])
            if p["fn"] != "divmod":
                srcs = srcs[:1]
        if op == "result_of_mixed_chain":
            p["s"] = sc()
            srcs = [_src(rng, d, (n0,)) for d in dts]
        if op == "searchsorted":
            p["side"] = rng.choice(["left", "right"])
        if op in ("map_blocks2", "blockwise2"):
            for s_ in srcs[1:]:
                s_["chunks"] = [list(c) for c in srcs[0]["chunks"]]
    elif op in ("append_scalar", "insert_scalar", "where_scalar_y", "where_scalar_x"):
        pool = rng.choice([NUM, NUM, NUM, TIME])
        srcs = [_src(rng, rng.choice(pool), (n0,) if op.startswith(("append", "insert")) else shape)]
        p["s"] = sc()
        p["cond"] = rng.choice(["arr", "T", "F", "npT"])
    elif op in ("unary", "attr"):
        srcs = [_src(rng, rng.choice(NUM if op == "unary" else [d for d in NUM if d != "?"]), shape)]  # ndarray.conj() keeps bool, np.conjugate gives int8
        p["fn"] = rng.choice(UNARY) if op == "unary" else rng.choice(["real", "imag", "conj", "copy"])
        if op == "unary" and rng.random() < 0.25 and p["fn"] not in ("real", "imag", "angle", "fix", "iscomplex", "isreal"):
            p["od"] = rng.choice(FLOATS + [SW + "f8"])
    elif op in ("round", "nan_to_num"):
        srcs = [_src(rng, rng.choice(NUM), shape)]
        p["decimals"] = rng.choice([0, 1, -1])
    elif op == "astype":
        pool = rng.choice([NUM, NUM, NUM, TIME, STRUCT])
        a, b = _pick_pair(rng, pool)
        r = rng.random()
        if r < 0.15:
            b = a  # same dtype
        srcs = [_src(rng, a, shape)]
        p["to"] = b
        if rng.random() < 0.5:
            p["casting"] = rng.choice(["no", "equiv", "safe", "same_kind", "unsafe"])
        if rng.random() < 0.4:
            p["copy"] = rng.choice([True, False])
    elif op == "view":
        a = rng.choice(NUM + TIME)
        da_ = _dt(a)
        same = [d for d in NUM + TIME if _dt(d).itemsize == da_.itemsize]
        other = [d for d in NUM if _dt(d).itemsize in (da_.itemsize * 2, max(1, da_.itemsize // 2))]
        b = rng.choice(same) if rng.random() < 0.7 or not other else rng.choice(other)
        srcs = [_src(rng, a, (n0, 4) if nd == 2 else (8,))]
        srcs[0]["chunks"][-1] = [4] if nd == 2 else [4, 4]
        p["to"] = b
    elif op in ("reduce", "cum"):
        pool = rng.choice([NUM, NUM, NUM, TIME])
        srcs = [_src(rng, rng.choice(pool), shape)]
        p["fn"] = rng.choice(RED if op == "reduce" else CUMS)
        p["axis"] = rng.choice([0, None, nd - 1]) if op == "reduce" else rng.choice([0, nd - 1])
        if pool is not TIME and rng.random() < 0.45 and p["fn"] not in ("min", "max", "argmax", "nanmax", "ptp", "median"):
            # (mean/var/std with an integer dtype= raise at compute as upstream does: float dtype= only)
            p["od"] = rng.choice(FLOATS if p["fn"] in ("mean", "var", "std", "nanmean") else NUM)
        if op == "reduce" and rng.random() < 0.2:
            p["keepdims"] = True
        if op == "cum" and rng.random() < 0.4:
            p["method"] = "blelloch"
    elif op == "pad":
        pool = rng.choice([NUM, NUM, TIME])
        srcs = [_src(rng, rng.choice(pool), shape)]
        p["mode"] = rng.choice(["constant", "constant", "edge", "reflect", "wrap", "mean", "linear_ramp", "maximum"])
        p["s"] = sc()
        p["width"] = 1  # (a pad wider than the axis is another matter: da.pad(mode="reflect") then advertises another shape than np.pad)
    elif op == "digitize":
        srcs = [_src(rng, rng.choice(REAL), (n0,))]
        p["to"] = rng.choice(REAL)
    elif op == "structural":
        pool = rng.choice([NUM, NUM, TIME, STRUCT, NONNATIVE])
        srcs = [_src(rng, rng.choice(pool), shape)]
        p["fn"] = rng.choice(STRUCTURAL)
        if p["fn"] == "overlap_const" and _dt(srcs[0]["dt"]).kind in "MmSUV":
            p["fn"] = "map_overlap"  # (a numeric constant boundary cannot be cast to these kinds)
        if p["fn"] == "int" and _dt(srcs[0]["dt"]).kind in "SU":
            p["fn"] = "slice"  # (a block holding a bytes/str scalar has the length of the value, not of the dtype)
        p["idx"] = [rng.randint(0, 9) for _ in range(rng.randint(1, 4))]
        p["chunk"] = [rng.randint(1, 3), rng.randint(1, 3)]
        p["boundary"] = rng.choice(["reflect", "nearest", "periodic", "none"])
        p["s"] = sc()
        p["to"] = rng.choice(NUM)
    elif op == "like":
        srcs = [_src(rng, rng.choice(rng.choice([NUM, NONNATIVE, TIME, STRUCT])), shape)]
        p["fn"] = rng.choice(["zeros_like", "ones_like", "full_like", "empty_like"])
        p["s"] = sc()
        if rng.random() < 0.4:
            p["od"] = rng.choice(NUM)
    elif op == "creation":
        srcs = []
        p["fn"] = rng.choice(["arange", "arange_step", "linspace", "ones", "zeros", "full", "eye", "tri", "asarray", "array", "asarray_da", "asanyarray_da"])
        p["od"] = rng.choice(rng.choice([NONNATIVE, NUM, TIME]))
        p["n"] = rng.randint(4, 7)
        p["chunk"] = rng.choice([2, 3])
        p["s"] = sc()
        p["src"] = rng.choice(NUM)
    else:
        raise ValueError(op)
    case["srcs"] = srcs
    case["p"] = p
    case["post"] = _post_gen(rng, n0)
    return case


GEN_OPS = (["concatenate", "stack", "hstack", "vstack", "dstack", "block", "append", "where", "choose", "select", "insert_arr", "concatenate_dtype"] * 2
           + ["append_scalar", "insert_scalar", "where_scalar_y", "where_scalar_x", "binop", "binop", "binop", "unary", "attr", "round", "clip", "astype", "astype", "astype",
              "view", "view", "reduce", "reduce", "cum", "tensordot", "dot", "matmul", "einsum", "outer", "pad", "pad", "diff", "isin", "searchsorted", "digitize",
              "setitem", "structural", "structural", "structural", "like", "creation", "creation", "average", "multi", "map_blocks2", "blockwise2", "nan_to_num",
              "isclose", "result_of_mixed_chain"])


def dt_corpus():
    """deterministic core: every operand-promoting operation on (non-native, native) of the SAME type in both orders, every source form;
    byte-order-only astype in every spelling"""
    out = []
    vias = ["from_array", "astype", "map_blocks", "from_delayed"]
    i = 0
    for op in ("concatenate", "stack", "hstack", "vstack", "dstack", "block", "append", "where", "choose", "insert_arr", "select", "map_blocks2"):
        for code in ("i4", "f8", "c16", "u2", "M8[s]"):
            if code == "M8[s]" and op in ("map_blocks2",):
                continue
            for order in (0, 1):
                if (i + order) % 2 and code not in ("i4", "f8"):
                    continue
                dts = [SW + code, code][:: 1 if order == 0 else -1]
                via = vias[i % len(vias)] if code == "i4" else "from_array"
                i += 1
                nd = 2 if op in ("dstack",) or i % 3 == 0 else 1
                srcs = []
                for j, d in enumerate(dts):
                    m = 5 if op in SAME_SHAPE_2 or (op == "hstack" and nd == 2) else 4 + 2 * j
                    shape = [m] if nd == 1 else [m, 3]
                    srcs.append({"dt": d, "shape": shape, "chunks": [[2, m - 2]] + ([[1, 2]] if nd == 2 else []), "via": via if d[0] == SW else "from_array"})
                p = {}
                if op == "where":
                    p["cond"] = ["T", "F", "arr", "npT"][i % 4]
                if op == "select":
                    p["s"] = ["int", 1]
                out.append({"dtypes": True, "op": op, "srcs": srcs, "p": p, "post": [["none"], ["tail"], ["take", [3, 0, 1]], ["rev"]][i % 4]})
    for code in ("i4", "f8", "c16", "u2", "M8[s]", "m8[s]", "U2"):
        for a, b in ((SW + code, code), (code, SW + code)):
            for kw in ({}, {"copy": False}, {"casting": "equiv"}, {"casting": "safe", "copy": False}):
                if kw and code not in ("i4", "f8"):
                    continue
                out.append({"dtypes": True, "op": "astype", "srcs": [{"dt": a, "shape": [6], "chunks": [[2, 4]], "via": "from_array"}], "p": {"to": b, **kw},
                            "post": ["none"]})
    return out


def dt_class(case):
    p = case.get("p") or {}
    reps = []
    for s in case.get("srcs") or []:
        d = _dt(s["dt"])
        reps.append(("swapped" if d.byteorder == SW else "native") + ":" + (d.kind if d.names is None else "struct"))
    return ("dtypes", case["op"], p.get("fn"), tuple(reps), "od" in p, (case.get("post") or ["none"])[0])


def run(ctx):
    rng = ctx.rng
    cases = dt_corpus()
    for c in cases:
        ctx.count(dt_class(c), max(1, dt_check(ctx, c)))
    n_rand = ctx.scale(460, 6000)
    seen = {}
    for i in range(n_rand):
        case = dt_gen(rng)
        nblocks = dt_check(ctx, case)
        ctx.count(dt_class(case), max(1, nblocks))
        if i < 2:
            ctx.sample(case)
        seen[case["op"]] = seen.get(case["op"], 0) + 1
    ctx.notes["dtypes.cases"] = len(cases) + n_rand


def _strip(case):
    return {k: v for k, v in case.items() if k != "detail"}


def replay(ctx, case):
    case = _strip(case)
    ctx.count(dt_class(case), max(1, dt_check(ctx, case)))
