"""C23 extension — looking at an array is not a draw.

A sequence of draws from ONE seeded source (Generator of any bit generator, RandomState, the module-level API) fixes the values of
every array of the sequence.  Between the draws the EARLIER arrays are looked at in every way the public API offers — metadata
(.dtype, .shape, .chunks, repr, str, HTML repr, len, ._meta, .name, .nbytes, the dtype / repr of expressions derived from them),
graph construction (__dask_graph__, __dask_keys__, optimize, lowering, tokenize), evaluation (compute, persist, float(), bool(),
np.asarray), copies (pickle round trip, copy) — and the LATER draws must be what they are without the looks.  The first draw of a
sequence runs over 0-d arrays (size omitted / size=()), length-0, length-1, multi-chunk 1-d and 2-d arrays: for a 0-d array the
"empty" metadata sample of the distribution is a real scalar draw, so computing metadata from any shared stream advances it.

Oracles:
  * property level (ctx.fail): the same sequence of draws from the same seed WITHOUT the accesses (values, bitwise; names);
    two plays without accesses agree (rebuild); every array of the play recomputes to the same values in the opposite order;
  * model level (ctx.disagree, family `replay`): a NumPy-only replay of the seed derivation (RandomState: 16 root bytes ->
    SeedSequence -> 128-bit seed per block -> MT19937; Generator: children of the bit generator's SeedSequence in order of
    construction).  A mismatch of the replay alone is a disagreement, not a violation.

Streams, both walked in every quick run:
  GRID    {default_rng, RandomState, module, one more bit generator} x first-draw shape class (6) x access (all), one access per
          play (so a failure names the access), the gap of the access rotating (right after the accessed draw / one draw later);
  RANDOM  longer sequences (3-5 draws, several 0-d) with several accesses in several gaps.
No object of a play outlives it (expressions are singletons by name: a surviving node would keep its cached metadata), and the
collector runs between groups.
"""
from __future__ import annotations

import copy
import gc
import itertools
import pickle
import time

import numpy as np

from harness.props_ext.c23_shared import S_DISTS, GENERATOR_KINDS, _is_gen, _make_gen

SYNC = {"scheduler": "sync"}
ALL_KINDS = GENERATOR_KINDS + ("RandomState", "module")

# first-draw shape classes: (label, shape, chunks); shape None = size omitted
FIRST = (
    ("0d-none", None, None),
    ("0d-empty", [], []),
    ("len1", [1], [[1]]),
    ("len0", [0], [[0]]),
    ("1d", [3], [[2, 1]]),
    ("2d", [2, 3], [[1, 1], [3]]),
)
FIRST_DISTS = ("normal", "poisson", "uniform", "integers", "random", "standard_normal", "gamma", "binomial")


def draw(g, kind, spec):
    gm, rm, args = S_DISTS[spec["dist"]]
    meth = getattr(g, gm if _is_gen(kind) else rm)
    if spec["shape"] is None:
        return meth(*args)
    if not spec["shape"] and spec.get("chunks") is None:
        return meth(*args, size=())
    return meth(*args, size=tuple(spec["shape"]), chunks=tuple(tuple(c) for c in spec["chunks"]))


# ---------------------------------------------------------------------------- accesses

def _acc_len(t, o):
    if t.ndim:
        len(t)


def _acc_float(t, o):
    if t.size == 1:
        float(t)


def _acc_bool(t, o):
    if t.size == 1:
        bool(t)


def _acc_graph(t, o):
    dict(t.__dask_graph__())


def _acc_optimize(t, o):
    t.expr.optimize()
    t.optimize()


def _acc_tokenize(t, o):
    from dask.tokenize import tokenize

    tokenize(t)
    tokenize(t.expr)


def _acc_pickle(t, o):
    u = pickle.loads(pickle.dumps(t))
    u.dtype
    u.compute(**SYNC)


def _acc_copy(t, o):
    copy.copy(t).dtype
    t.copy().dtype
    copy.deepcopy(t).dtype


def _acc_reshape(t, o):
    t.reshape(-1).dtype
    t[...].dtype
    t.T.dtype


def _acc_html(t, o):
    t._repr_html_()


ACCESSES = {
    "dtype": lambda t, o: t.dtype,
    "shape": lambda t, o: (t.shape, t.ndim, t.size),
    "chunks": lambda t, o: (t.chunks, t.numblocks, t.npartitions, t.chunksize),
    "nbytes": lambda t, o: (t.nbytes, t.itemsize),
    "repr": lambda t, o: repr(t),
    "str": lambda t, o: str(t),
    "html": _acc_html,
    "len": _acc_len,
    "meta": lambda t, o: t._meta,
    "expr-meta": lambda t, o: t.expr._meta,
    "name": lambda t, o: (t.name, t.expr._name),
    "derived-dtype": lambda t, o: (t * 2).dtype,
    "derived-repr": lambda t, o: repr(t + 1),
    "derived-binary": lambda t, o: (t + o).dtype,
    "derived-compare": lambda t, o: (t > 0).dtype,
    "astype": lambda t, o: t.astype("f4").dtype,
    "sum-dtype": lambda t, o: (t.sum().dtype, t.mean().dtype),
    "reshape": _acc_reshape,
    "compute": lambda t, o: t.compute(**SYNC),
    "compute-derived": lambda t, o: (t * 2 + o).compute(**SYNC),
    "compute-unoptimized": None,  # see access()
    "np-asarray": lambda t, o: np.asarray(t),
    "float": _acc_float,
    "bool": _acc_bool,
    "persist": lambda t, o: t.persist(**SYNC).compute(**SYNC),
    "graph": _acc_graph,
    "keys": lambda t, o: t.__dask_keys__(),
    "optimize": _acc_optimize,
    "lower": lambda t, o: t.expr.lower_completely(),
    "tokenize": _acc_tokenize,
    "pickle": _acc_pickle,
    "copy": _acc_copy,
    "to_delayed": lambda t, o: t.to_delayed(),
    "dependencies": lambda t, o: (t.expr.dependencies(), t.expr.operands, list(t.expr.walk())),
}


def access(name, t, other, refused):
    import dask

    try:
        if name == "compute-unoptimized":
            with dask.config.set({"array.optimize-graph": False}):
                t.compute(**SYNC)
        else:
            ACCESSES[name](t, other)
    except Exception as e:  # an access that is refused is not a draw either
        refused[name] = repr(e)[:100]


# ---------------------------------------------------------------------------- one play

def play(sc, with_accesses, refused=None):
    """values (NumPy) and names of every draw of the scenario; nothing of the play survives the call"""
    refused = {} if refused is None else refused
    g = _make_gen(sc["kind"], sc["seed"])
    arrs = []
    for i, spec in enumerate(sc["draws"]):
        arrs.append(draw(g, sc["kind"], spec))
        if with_accesses:
            for acc, j in sc["accesses"].get(str(i), []):
                access(acc, arrs[j], arrs[0], refused)
    names = [a.name for a in arrs]
    vals = [np.asarray(a.compute(**SYNC)) for a in arrs]
    again = [np.asarray(a.compute(**SYNC)) for a in reversed(arrs)][::-1]
    del arrs, g
    return vals, again, names


def numpy_replay(sc):
    """the values of every draw from NumPy alone (the seed derivation of Random._info replayed)"""
    kind, seed = sc["kind"], sc["seed"]
    if _is_gen(kind):
        bitgen = getattr(np.random, "PCG64" if kind == "default_rng" else kind)(seed)
    else:
        root = np.random.RandomState(seed)
    out = []
    for spec in sc["draws"]:
        gm, rm, args = S_DISTS[spec["dist"]]
        shape = tuple(spec["shape"] or ())
        chunks = tuple(tuple(c) for c in (spec.get("chunks") or ())) if shape else ()
        sizes = list(itertools.product(*chunks))
        if _is_gen(kind):
            children = bitgen._seed_seq.spawn(len(sizes))
            blocks = [getattr(np.random.default_rng(type(bitgen)(ch)), gm)(*args, size=sz) for ch, sz in zip(children, sizes)]
        else:
            entropy = int.from_bytes(root.bytes(16), "little")
            words = np.random.SeedSequence(entropy).generate_state(len(sizes) * 4, dtype=np.uint32).reshape(len(sizes), 4)
            blocks = []
            for w, sz in zip(words, sizes):
                st = np.random.RandomState(np.random.MT19937(np.random.SeedSequence(int.from_bytes(w.tobytes(), "little"))))
                blocks.append(getattr(st, rm)(*args, size=sz))
        if not shape:
            out.append(np.asarray(blocks[0]))
            continue
        res = np.empty(shape, dtype=np.asarray(blocks[0]).dtype if blocks else np.float64)
        offs = [np.cumsum((0,) + c)[:-1] for c in chunks]
        for bid, sz, blk in zip(itertools.product(*[range(len(c)) for c in chunks]), sizes, blocks):
            res[tuple(slice(offs[d][b], offs[d][b] + sz[d]) for d, b in enumerate(bid))] = blk
        out.append(res)
    return out


def _eq(a, b):
    a, b = np.asarray(a), np.asarray(b)
    return a.shape == b.shape and bool(np.array_equal(a, b, equal_nan=a.dtype.kind == "f"))


def _val(a):
    a = np.asarray(a)
    return {"shape": list(a.shape), "head": [float(v) for v in a.ravel()[:4]]}


def check_group(ctx, base_sc, access_sets, count=True):
    """one sequence of draws; a baseline play without accesses, then one play per access set"""
    def fail(sig, sc, what, **kw):
        k = "access_failing_inputs:" + sig
        ctx.notes[k] = ctx.notes.get(k, 0) + 1
        if ctx.notes[k] <= 3 or not count:
            ctx.fail(sig, {"access_scenario": dict(sc, **kw)}, what)

    gc.collect()
    sc0 = dict(base_sc, accesses={})
    try:
        base, again, names = play(sc0, False)
    except Exception as e:
        fail("random:compute-raises", sc0, "a sequence of seeded draws cannot be built / computed", error=repr(e)[:300])
        return
    for i, (v, w) in enumerate(zip(base, again)):
        if not _eq(v, w):
            fail("random:recompute", sc0, f"draw {i} of a sequence computes to other values the second time", draw=i)
            return
    base2, _, names2 = play(sc0, False)
    for i, (v, w) in enumerate(zip(base, base2)):
        if not _eq(v, w):
            fail("random:rebuild", sc0, f"rebuilding the same sequence of draws from the same seed gives other values for draw {i}", draw=i, got=_val(w), want=_val(v))
            return
    if names != names2:
        fail("random:rebuild-name", sc0, "rebuilding the same sequence of draws from the same seed gives other names")
    # model level: the seed derivation replayed with NumPy alone
    try:
        rep = numpy_replay(sc0)
        for i, (v, w) in enumerate(zip(base, rep)):
            if not _eq(v, w):
                ctx.disagree("replay", f"replay {sc0['kind']} {sc0['seed']} draw {i} of {[ (d['dist'], d['shape'], d.get('chunks')) for d in sc0['draws']]}",
                             repr(_val(w)), repr(_val(v)))
                break
    except Exception as e:  # the replay itself is out of its depth: note, never a verdict
        ctx.notes["access_replay_raises"] = repr(e)[:120]
    for accs in access_sets:
        sc = dict(base_sc, accesses=accs)
        refused = {}
        label = "+".join(sorted({a for lst in accs.values() for a, _ in lst}))
        if count:
            n0 = len(sc["draws"][0]["shape"] or ()) if sc["draws"][0]["shape"] is not None else -1
            ctx.count(("access", sc["kind"] if not _is_gen(sc["kind"]) else "Generator", label if len(label) < 40 else "several", n0,
                       sc["draws"][0]["dist"] in ("normal", "poisson")))
        try:
            got, again, gnames = play(sc, True, refused)
        except Exception as e:
            fail("random:access-between-draws:raises", sc, "a sequence of seeded draws with metadata accesses in between cannot be built / computed", error=repr(e)[:300])
            continue
        for k, v in refused.items():
            ctx.notes.setdefault("access_refused:" + k, v)
        bad = next((i for i, (v, w) in enumerate(zip(base, got)) if not _eq(v, w)), None)
        if bad is not None:
            before = [[a, j] for i in range(bad) for a, j in accs.get(str(i), [])]
            fail("random:access-between-draws:values", sc,
                 f"draw {bad} of the sequence has other values when earlier arrays are looked at ({label}) before it is drawn than in the same "
                 "sequence of draws from the same seed without the looks: looking at an array consumed the generator",
                 draw=bad, accesses_before=before, got=_val(got[bad]), want=_val(base[bad]))
            continue
        if gnames != names:
            fail("random:access-between-draws:names", sc, f"the arrays of the sequence have other names when earlier arrays are looked at ({label})")
        bad = next((i for i, (v, w) in enumerate(zip(got, again)) if not _eq(v, w)), None)
        if bad is not None:
            fail("random:access-between-draws:recompute", sc, f"draw {bad} computes to other values the second time after the looks ({label})", draw=bad)


# ---------------------------------------------------------------------------- streams

def _later_draw(rng):
    r = rng.random()
    dist = rng.choice(list(S_DISTS))
    if r < 0.2:
        return {"dist": dist, "shape": None, "chunks": None}
    if r < 0.3:
        return {"dist": dist, "shape": [], "chunks": []}
    if r < 0.65:
        c = [rng.randint(1, 3) for _ in range(rng.randint(1, 3))]
        return {"dist": dist, "shape": [sum(c)], "chunks": [c]}
    c0 = [rng.randint(1, 2) for _ in range(rng.randint(1, 2))]
    c1 = [rng.randint(1, 3) for _ in range(rng.randint(1, 2))]
    return {"dist": dist, "shape": [sum(c0), sum(c1)], "chunks": [c0, c1]}


def search(ctx):
    rng = ctx.rng
    t0 = time.time()
    budget = ctx.scale(8, 40)
    kinds = ["default_rng", "RandomState", "module", rng.choice(["PCG64", "MT19937", "Philox", "SFC64"])]
    if ctx.tier == "thorough":
        kinds = list(ALL_KINDS)
    groups = [(k, f) for k in kinds for f in FIRST]
    rng.shuffle(groups)
    # 0-d first draws lead (the metadata sample of a 0-d array is a real draw)
    groups.sort(key=lambda g: not g[1][0].startswith("0d"))
    names = list(ACCESSES)
    plays = 0
    for gi, (kind, (label, shape, chunks)) in enumerate(groups):
        if time.time() - t0 > budget * 0.75:
            ctx.notes["access_grid_stopped_on_budget_after_groups"] = gi
            break
        first = {"dist": FIRST_DISTS[(gi + rng.randrange(len(FIRST_DISTS))) % len(FIRST_DISTS)], "shape": shape, "chunks": chunks}
        # the later draws: at least one with several blocks, so that a shifted stream shows in many seeds
        later = [{"dist": rng.choice(["normal", "uniform", "random", "poisson"]), "shape": [6], "chunks": [[2, 2, 2]]}, _later_draw(rng)]
        rng.shuffle(later)
        if later[1]["shape"] in (None, []) and later[0]["shape"] in (None, []):
            later[1] = {"dist": "uniform", "shape": [4, 4], "chunks": [[2, 2], [2, 2]]}
        base = {"kind": kind, "seed": rng.randint(0, 2**31 - 1), "draws": [first] + later}
        sets = []
        for ai, a in enumerate(names):
            gap = "0" if (ai + gi) % 3 else "1"  # right after the accessed draw, or one draw later
            sets.append({gap: [[a, 0]]})
        if gi < 1:
            ctx.sample({"case": {"access_scenario": dict(base, accesses=sets[0])}})
        check_group(ctx, base, sets)
        plays += len(sets)
    ctx.notes["access_grid_plays"] = plays
    n = ctx.scale(40, 1500)
    m = 0
    for i in range(n):
        if time.time() - t0 > budget:
            ctx.notes["access_random_stopped_on_budget_after"] = i
            break
        nd = rng.randint(3, 5)
        draws = [_later_draw(rng) for _ in range(nd)]
        if rng.random() < 0.6:
            lab, shape, chunks = rng.choice(FIRST[:2])
            draws[rng.randrange(nd - 1)] = {"dist": rng.choice(FIRST_DISTS), "shape": shape, "chunks": chunks}
        base = {"kind": rng.choice(ALL_KINDS), "seed": rng.randint(0, 2**31 - 1), "draws": draws}
        sets = []
        for _ in range(3):
            accs = {}
            for gap in range(nd - 1):
                if rng.random() < 0.7:
                    accs[str(gap)] = [[rng.choice(names), rng.randint(0, gap)] for _ in range(rng.randint(1, 3))]
            if accs:
                sets.append(accs)
        check_group(ctx, base, sets)
        m += len(sets)
    ctx.notes["access_random_plays"] = m
    gc.collect()


def replay(ctx, case):
    sc = {k: v for k, v in case["access_scenario"].items() if k in ("kind", "seed", "draws", "accesses")}
    base = {k: v for k, v in sc.items() if k != "accesses"}
    check_group(ctx, base, [sc["accesses"]] if sc.get("accesses") else [], count=False)
