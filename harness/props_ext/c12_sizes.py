"""C12 extension — SIZE classes and INDEX ELEMENT TYPES.

Every indexing family of C12 (basic, chained basic, integer lists/arrays, NumPy / dask boolean masks, .vindex, .blocks,
dask integer indexers) on LARGE axes (257 … 70000 elements; chunk sizes below / at / above 256 and 65536, chunk edges at
255/256/257 and 65535/65536/65537) with the integer positions of the index (integers, slice bounds and steps, list
entries, array dtypes, vindex points, block numbers) drawn from Python int and the NumPy integer scalar types, with values
near the type limits (127/128, 255/256, 32767/32768, 65535/65536), near chunk edges and at in-block offsets >= 256.
Data are arange (metadata-cheap, exact).  The cases are ordinary C12 case dicts (see harness/props/C12.py) and are
executed / shrunk / replayed by C12.run_case.

Two kinds of streams, both run in EVERY quick run:
  * `stratified(rng)`  — a sweep over (family × rank × which axes are indexed how × which axis is large × chunk class)
    with seeded random positions inside each stratum;
  * `GENS`             — weighted random generators (mixed into C12's random stream) + `gen_retagged` which re-types
    the integer positions of the SMALL cases of C12's own generators.
"""
from __future__ import annotations

import itertools

import numpy as np

N_CLASSES = [257, 300, 511, 512, 700, 1000, 4096, 32767, 32768, 32769, 65535, 65536, 65537, 70000]
LIMITS = [127, 128, 255, 256, 32767, 32768, 65535, 65536]
CHUNK_CLASSES = ("one", "lt256", "eq256", "gt256", "gt65536", "edge")


def _M():
    from harness.props import C12 as M

    return M


# ------------------------------------------------------------------------------ sizes


def large_n(rng, cap=70000):
    if rng.random() < 0.75:
        return rng.choice([n for n in N_CLASSES if n <= cap])
    return rng.randint(257, cap)


def uniform_chunks(n, c):
    return [c] * (n // c) + ([n % c] if n % c else [])


def large_chunks(rng, n, cls=None, maxchunks=300):
    """a chunking of a large axis by class: one chunk; equal chunks shorter than / exactly / longer than 256; longer
    than 65536; a few chunks with edges at 255/256/257/65535/65536/65537"""
    cls = cls or rng.choice(CHUNK_CLASSES)
    if cls == "lt256":
        c = rng.choice([c for c in (100, 128, 200, 255) if n / c <= maxchunks] or [max(255, -(-n // maxchunks))])
        return uniform_chunks(n, c)
    if cls == "eq256":
        return uniform_chunks(n, 256 if n / 256 <= maxchunks else 65536)
    if cls == "gt256":
        c = rng.choice([c for c in (257, 300, 350, 1000, 5000, 40000) if n / c <= maxchunks and c < n] or [n])
        return uniform_chunks(n, c)
    if cls == "gt65536":
        c = rng.choice([65536, 65537, 65535])
        return uniform_chunks(n, c) if n > c else [n]
    if cls == "edge":
        cuts = sorted({q for q in (rng.choice([255, 256, 257]), rng.choice([65535, 65536, 65537]), rng.choice([n - 256, n - 257, n - 1]),
                                   rng.randint(1, n - 1)) if 0 < q < n and rng.random() < 0.7}) or [256]
        edges = [0] + cuts + [n]
        return [b - a for a, b in zip(edges, edges[1:])]
    return [n]


def hot_positions(n, chunks):
    """positions in [0, n) where narrow offsets / type limits / chunk edges matter"""
    hot = {0, 1, n - 1, n - 2, n // 2}
    for lim in LIMITS:
        hot.update((lim - 1, lim, lim + 1, n - lim, n - lim - 1, n - lim + 1))
    starts = np.concatenate([[0], np.cumsum(chunks)])[:-1].tolist()
    pick = starts if len(starts) <= 6 else [starts[0], starts[1], starts[len(starts) // 2], starts[-2], starts[-1]]
    for st, c in ((s, chunks[starts.index(s)]) for s in pick):
        hot.update((st - 1, st, st + 1, st + c - 1))
        for off in (255, 256, 257, 300, 65535, 65536):
            if off < c:
                hot.add(st + off)
    return sorted(q for q in hot if 0 <= q < n)


def rand_pos(rng, n, hot, neg=0.3, oob=0.0):
    if oob and rng.random() < oob:
        return rng.choice([n, n + 1, -n - 1, n + 256, -n - 256, 65536 + n])
    v = rng.choice(hot) if rng.random() < 0.75 else rng.randrange(n)
    return v - n if rng.random() < neg else v


BIG_STEPS = [2, 3, 7, 127, 128, 129, 255, 256, 257, 1000, 32767, 32768, 65535, 65536]


def typed_int(rng, v, p_plain=0.25):
    M = _M()
    t = M.rand_tag(rng, v, p_plain)
    return ["i", v] if t == "int" else ["i", v, t]


def typed_slice(rng, n, hot, p_plain=0.25, steps=None, oob=0.1):
    """a slice of a large axis: bounds at hot positions (either sign) / None / beyond the axis, unit, small, large and
    negative steps, every bound and the step of its own element type"""
    M = _M()

    def bound():
        r = rng.random()
        if r < 0.2:
            return None
        if r < 0.2 + oob:
            return rng.choice([n, n + 1, -n - 1, n + 300, -n - 300])
        return rand_pos(rng, n, hot)

    a, b = bound(), bound()
    if steps is None:
        r = rng.random()
        c = None if r < 0.3 else rng.choice([1, 2, 3, -1, -2, -3]) if r < 0.6 else rng.choice(BIG_STEPS) * rng.choice([1, 1, -1])
        if c is not None and abs(c) > 1 and rng.random() < 0.05:
            c = rng.choice([n - 1, n, n + 1]) * rng.choice([1, -1])
    else:
        c = rng.choice(steps)
    if a is not None and b is not None and rng.random() < 0.6:
        # make the selection non-empty more often
        if (c or 1) > 0 and (a % n if -n <= a < n else a) > (b % n if -n <= b < n else b):
            a, b = b, a
        elif (c or 1) < 0 and (a % n if -n <= a < n else a) < (b % n if -n <= b < n else b):
            a, b = b, a
    tags = [None if v is None else M.rand_tag(rng, v, p_plain) for v in (a, b, c)]
    tags = [None if t == "int" else t for t in tags]
    return ["s", a, b, c, tags] if any(tags) else ["s", a, b, c]


def small_item(rng, n, p_int=0.3):
    """an item for a SMALL companion axis (typed too)"""
    M = _M()
    if rng.random() < 0.5:
        return ["s", None, None, None]
    it = M.rand_basic_item(rng, n, p_int)
    return retag_item(rng, it, 0.6)


def sel_len(n, sp):
    return len(range(*slice(sp[1], sp[2], sp[3]).indices(n)))


# ------------------------------------------------------------------------------ re-typing


def retag_item(rng, sp, p=0.7):
    """give the integer positions of a basic / list item random element types (values unchanged)"""
    M = _M()
    k = sp[0]
    if rng.random() > p:
        return sp
    if k == "i" and len(sp) == 2 and isinstance(sp[1], int):
        t = M.rand_tag(rng, sp[1], 0.1)
        return ["i", sp[1], t] if t != "int" else sp
    if k == "s" and len(sp) == 4 and all(v is None or isinstance(v, int) for v in sp[1:4]):
        tags = []
        for v in sp[1:4]:
            if v is None:
                tags.append(None)
            elif v in (0, 1) and rng.random() < 0.05:
                tags.append("bool")
            else:
                t = M.rand_tag(rng, v, 0.2)
                tags.append(None if t == "int" else t)
        return sp + [tags] if any(tags) else sp
    if k == "l" and len(sp) == 2 and sp[1] and all(isinstance(q, int) and not isinstance(q, bool) for q in sp[1]):
        if rng.random() < 0.5:
            return ["l", sp[1], M.rand_tag(rng, sp[1], 0.0)]
        return ["a", sp[1], M.rand_tag(rng, sp[1], 0.0)]
    if k == "a" and len(sp) == 3 and np.size(sp[1]) and np.ndim(sp[1]) == 1:
        return ["a", sp[1], M.rand_tag(rng, list(sp[1]), 0.0)]
    return sp


def gen_retagged(rng):
    """a SMALL case of one of C12's own generators with its integer positions re-typed (np.int8 … np.uint64, np.intp,
    python bool as a slice bound); the follow-on getitems of the consumer families too"""
    M = _M()
    g = rng.choices([M.gen_basic, M.gen_list, M.gen_vindex, M.gen_blocks, M.gen_daint, M.gen_take_post, M.gen_daint_post, M.gen_unknown],
                    [5, 3, 2, 2, 1.5, 1, 1, 1])[0]
    case = g(rng)
    case["index"] = [retag_item(rng, sp) for sp in case["index"]]
    if case.get("post"):
        case["post"] = [["getitem", [retag_item(rng, sp) for sp in op[1]]] if op[0] == "getitem" else op for op in case["post"]]
    case["fam"] = "typed-" + case["fam"]
    return case


# ------------------------------------------------------------------------------ large shapes


def large_shape(rng, rank, large_axes, cap=140000):
    """a shape with the given large axes (the others 1..6 long) of at most `cap` elements"""
    shape = [rng.randint(1, 6) for _ in range(rank)]
    small = int(np.prod([shape[k] for k in range(rank) if k not in large_axes]))
    budget = max(257, cap // max(1, small))
    for j, ax in enumerate(large_axes):
        if len(large_axes) > 1:
            shape[ax] = rng.choice([257, 300, 350, 511])
        else:
            shape[ax] = large_n(rng, cap=min(70000, budget))
    return shape


def layout(rng, rank, large_axes, cls=None, small_multi=0.5):
    """(shape, chunks, hot positions per axis)"""
    M = _M()
    shape = large_shape(rng, rank, large_axes)
    chunks, hots = [], []
    for ax, n in enumerate(shape):
        if ax in large_axes:
            c = large_chunks(rng, n, cls)
        else:
            c = list(M.gen.rand_chunks(rng, n, maxparts=3)) if rng.random() < small_multi else [n]
        chunks.append(c)
        hots.append(hot_positions(n, c) if ax in large_axes else list(range(n)))
    return shape, chunks, hots


# ------------------------------------------------------------------------------ families


def case_basic(rng, rank=None, large_ax=None, cls=None, kind=None):
    """integers / slices (typed) on a large axis, typed basic items on the small axes"""
    rank = rank or rng.choice([1, 1, 2, 2, 3])
    large_ax = rng.randrange(rank) if large_ax is None else large_ax
    shape, chunks, hots = layout(rng, rank, [large_ax], cls)
    items = []
    for ax, n in enumerate(shape):
        if ax == large_ax:
            kd = kind or rng.choice(["int", "slice", "slice", "slice"])
            items.append(typed_int(rng, rand_pos(rng, n, hots[ax], oob=0.04)) if kd == "int" else typed_slice(rng, n, hots[ax]))
        else:
            items.append(small_item(rng, n))
    if rng.random() < 0.2:
        items = items[: max(large_ax + 1, rng.randint(1, len(items)))]
    if rng.random() < 0.15 and large_ax == rank - 1 and rank > 1:
        items = [["e"], items[-1]]
    if rng.random() < 0.15:
        items.insert(rng.randint(0, len(items)), ["n"])
    return {"fam": "large-basic", "shape": shape, "chunks": chunks, "acc": "getitem", "index": items}


def _overflow_pair(rng, n, hot):
    """(first slice a::s, position k in the result, its type) such that k fits the type but a + k*s does not"""
    M = _M()
    for _ in range(20):
        t = rng.choice(["int8", "uint8", "int16", "uint16"])
        lim = int(np.iinfo(t).max)
        if lim >= n - 2:
            continue
        s = rng.choice([1, 1, 2, 3, 7])
        a = rng.choice([0, 0, rng.randint(1, n - lim // 2), rng.choice(hot)])
        m = len(range(a, n, s))
        if m < 2:
            continue
        k = min(m - 1, lim) if rng.random() < 0.5 else rng.randint(min(m - 1, lim) // 2, min(m - 1, lim))
        if a + k * s > lim and k <= lim:
            return ["s", a or None, None, s if s != 1 else None], k, t
    return None


def case_chain(rng, rank=None, large_ax=None, cls=None, mode=None):
    """x[first][second]([third]): chained basic selections on a large axis, the later indices typed with values near the
    type limits (the fused integer / slice bounds exceed the range of the element type although each operand fits)"""
    rank = rank or rng.choice([1, 1, 2])
    large_ax = rng.randrange(rank) if large_ax is None else large_ax
    shape, chunks, hots = layout(rng, rank, [large_ax], cls)
    n = shape[large_ax]
    mode = mode or rng.choice(["overflow-int", "overflow-slice", "free", "free"])
    first = [["s", None, None, None] if rng.random() < 0.6 else small_item(rng, m, p_int=0.0) for m in shape]
    second_large = None
    if mode.startswith("overflow"):
        pr = _overflow_pair(rng, n, hots[large_ax])
        if pr is not None:
            first[large_ax], k, t = pr
            if mode == "overflow-int":
                second_large = ["i", k, t]
            else:
                lo = rng.randint(0, k)
                st = rng.choice([None, 1, 2, 3])
                second_large = ["s", lo, k, st, [rng.choice([None, t]) if lo <= np.iinfo(t).max else None, t, None]]
                if rng.random() < 0.3:   # reversed
                    second_large = ["s", k, lo or None, -(st or 1), [t, None, None]]
    if second_large is None:
        first[large_ax] = typed_slice(rng, n, hots[large_ax], oob=0.03)
    oshape = []
    for sp, m in zip(first, shape):
        if sp[0] == "s":
            oshape.append(sel_len(m, sp))
    if any(sp[0] == "i" and not (-m <= sp[1] < m) for sp, m in zip(first, shape)) or 0 in oshape:
        first = [["s", None, None, None] if ax != large_ax else first[ax] for ax in range(rank)]
        oshape = [sel_len(m, sp) for sp, m in zip(first, shape)]
    lax2 = sum(1 for ax in range(large_ax) if first[ax][0] == "s")
    post = []
    cur = list(oshape)
    for step in range(rng.choice([1, 1, 2])):
        if not cur or 0 in cur:
            break
        sub = []
        for ax2, m in enumerate(cur):
            if ax2 == lax2 and step == 0 and second_large is not None:
                sub.append(second_large)
            elif m > 12:
                h = hot_positions(m, [m])
                sub.append(typed_int(rng, rand_pos(rng, m, h), 0.15) if rng.random() < 0.35 else typed_slice(rng, m, h, 0.15, oob=0.03))
            else:
                sub.append(small_item(rng, m))
        if rng.random() < 0.15:
            sub = sub[: rng.randint(1, len(sub))]
        post.append(["getitem", sub])
        nxt = []
        for j, m in enumerate(cur):
            sp = sub[j] if j < len(sub) else ["s", None, None, None]
            if sp[0] == "s":
                nxt.append(sel_len(m, sp))
        cur = nxt
    if not post:
        post = [["getitem", [["s", None, None, None]]]]
    return {"fam": "large-chain", "shape": shape, "chunks": chunks, "acc": "getitem", "index": first, "post": post,
            "hist": {"chunks_first": rng.random() < 0.2, "recompute": False}}


def _points(rng, n, hot, k, neg=0.25, long=False):
    if long:   # more than 256 / 65536 points: the OUTPUT axis is large too
        m = rng.choice([257, 300, 600])
        return [rng.randrange(n) for _ in range(m)]
    style = rng.random()
    v = [rand_pos(rng, n, hot, neg=neg) for _ in range(k)]
    if style < 0.2:
        v = sorted(q % n for q in v)
    return v


def _fit_dtype(rng, v, n=None):
    """a dtype for an integer ARRAY index: any integer type that holds the VALUES (the axis may be longer than the type's
    range: the repaired class narrow-int-array-index:OverflowError)"""
    M = _M()
    tags = M.fit_tags(list(v))
    w = [4 if t in ("int8", "uint8") else 3 if t in ("int16", "uint16") else 1 for t in tags]
    return rng.choices(tags, w)[0]


def case_list(rng, rank=None, large_ax=None, cls=None, long=None):
    """one integer list (python ints / NumPy scalars) or array (every integer dtype that holds the axis length) on a
    large axis: short lists at hot positions, long lists (> 256 entries)"""
    rank = rank or rng.choice([1, 2, 2, 3])
    large_ax = rng.randrange(rank) if large_ax is None else large_ax
    shape, chunks, hots = layout(rng, rank, [large_ax], cls)
    n = shape[large_ax]
    long = rng.random() < 0.15 if long is None else long
    v = _points(rng, n, hots[large_ax], rng.choice([0, 1, 2, 3, 5, 8]), long=long)
    if long and rng.random() < 0.5:   # sorted / runs: the groups of the take follow the input chunks
        v = sorted(v) if rng.random() < 0.6 else [q for q in v[:150] for _ in range(2)]
    r = rng.random()
    if r < 0.25:
        it = ["l", v]
    elif r < 0.45 and v:
        it = ["l", v, _fit_dtype(rng, v, n)]
    else:
        it = ["a", v, _fit_dtype(rng, v, n)]
    items = [["s", None, None, None] if rng.random() < 0.6 else retag_item(rng, _M().rand_basic_item(rng, m, p_int=0.0)) for m in shape]
    items[large_ax] = it
    items = items[: max(large_ax + 1, rng.randint(1, len(items)))]
    return {"fam": "large-list", "shape": shape, "chunks": chunks, "acc": "getitem", "index": items}


def case_mask(rng, rank=None, large_ax=None, cls=None, dask=None):
    """a boolean mask (NumPy / dask, given by a rule) on a large axis"""
    rank = rank or rng.choice([1, 2, 2])
    large_ax = rng.randrange(rank) if large_ax is None else large_ax
    shape, chunks, hots = layout(rng, rank, [large_ax], cls, small_multi=0.3)
    n = shape[large_ax]
    k = rng.choice([1, 2, 3, 7, 255, 256, 257, 1000, n])
    r = rng.randrange(k)
    dask = rng.random() < 0.5 if dask is None else dask
    items = [["s", None, None, None] for _ in shape]
    if dask:
        mch = chunks[large_ax] if rng.random() < 0.6 else large_chunks(rng, n)
        items[large_ax] = ["dabm", n, k, r, mch]
    else:
        items[large_ax] = ["bam", n, k, r]
    items = items[: large_ax + 1]
    return {"fam": "large-dabool" if dask else "large-npbool", "shape": shape, "chunks": chunks, "acc": "getitem", "index": items}


def case_vindex(rng, rank=None, arr_axes=None, large_axes=None, cls=None, long=None):
    """point-wise indexing: index arrays on `arr_axes` (typed, hot positions), the other axes full slices kept in ONE
    block (several index arrays + a sliced axis in several blocks is the known class vindex:multi-array-multi-block),
    rarely an integer / a slice"""
    rank = rank or rng.choice([1, 2, 3, 3])
    if arr_axes is None:
        arr_axes = sorted(rng.sample(range(rank), rng.randint(1, rank)))
    if large_axes is None:
        large_axes = [rng.choice(arr_axes)] if rng.random() < 0.8 else [rng.randrange(rank)]
        if len(arr_axes) > 1 and rng.random() < 0.2:
            large_axes = sorted(set(large_axes + [rng.choice(arr_axes)]))
    shape, chunks, hots = layout(rng, rank, large_axes, cls)
    multi = len(arr_axes) > 1
    k = rng.choice([1, 2, 3, 5, 8])
    rest = int(np.prod([n for ax, n in enumerate(shape) if ax not in arr_axes]))
    long = (rng.random() < 0.08 if long is None else long) and rest <= 600      # (points x sliced axes = size of the result)
    if k * rest > 100000:
        k = 1
    two_d = multi and rng.random() < 0.15
    items = []
    for ax, n in enumerate(shape):
        if ax in arr_axes:
            v = _points(rng, n, hots[ax], k, long=long)
            if long:
                v = v[:257]
            dt = _fit_dtype(rng, v, n)
            if two_d and ax == arr_axes[0]:
                items.append(["a", [[q] for q in v], dt])
            elif rng.random() < 0.3:
                items.append(["l", v])
            else:
                items.append(["a", v, dt])
        else:
            if multi:
                chunks[ax] = [n]
            r = rng.random()
            if r < 0.12:
                items.append(typed_int(rng, rng.randrange(n) - (n if rng.random() < 0.3 else 0)))
            elif r < 0.25 and n > 12:
                items.append(typed_slice(rng, n, hots[ax], steps=(None, 1, 2, -1), oob=0.0))
            else:
                items.append(["s", None, None, None])
    while items and items[-1] == ["s", None, None, None] and rng.random() < 0.3:
        items.pop()
    return {"fam": "large-vindex", "shape": shape, "chunks": chunks, "acc": "vindex", "index": items}


def case_blocks(rng, rank=None, cls=None):
    """.blocks on an axis with more than 256 blocks: typed block numbers, slices and lists around 255/256"""
    M = _M()
    rank = rank or rng.choice([1, 1, 2])
    big = rng.randrange(rank)
    nb = rng.choice([257, 257, 258, 300, 513])
    shape, chunks = [], []
    for ax in range(rank):
        if ax == big:
            c = rng.choice([1, 1, 2, 3])
            ch = [c] * nb
            if rng.random() < 0.4:
                for _ in range(3):
                    ch[rng.randrange(nb)] = rng.randint(1, 4)
        else:
            n = rng.randint(1, 5)
            ch = list(M.gen.rand_chunks(rng, n, maxparts=3))
        chunks.append(ch)
        shape.append(sum(ch))
    hot = hot_positions(nb, [nb])
    items = []
    for ax in range(rank):
        if ax != big:
            items.append(retag_item(rng, M.rand_basic_item(rng, len(chunks[ax]), p_int=0.4)))
            continue
        r = rng.random()
        if r < 0.35:
            items.append(typed_int(rng, rand_pos(rng, nb, hot, oob=0.04)))
        elif r < 0.55:
            v = [rand_pos(rng, nb, hot) for _ in range(rng.randint(1, 4))]
            items.append(["l", v] if rng.random() < 0.4 else ["a", v, _fit_dtype(rng, v, nb)] if rng.random() < 0.6 else ["l", v, _fit_dtype(rng, v, nb)])
        else:
            a = rand_pos(rng, nb, hot, neg=0.0)
            ln = rng.choice([1, 2, 3, 10])
            st = rng.choice([None, 1, 2, -1, 50, 127, 128, -100])
            if st is None or abs(st) < 10:
                sp = ["s", a, min(nb, a + ln * abs(st or 1)), st] if (st or 1) > 0 else ["s", min(nb - 1, a + ln), a if a else None, st]
            else:
                sp = ["s", a if rng.random() < 0.5 else None, None, st]
            items.append(retag_item(rng, sp, 0.7))
    if rng.random() < 0.2:
        items = items[: max(big + 1, rng.randint(1, len(items)))]
    return {"fam": "large-blocks", "shape": shape, "chunks": chunks, "acc": "blocks", "index": items}


def case_daint(rng, rank=None, large_ax=None, cls=None, long=None):
    """a dask integer indexer (0-d / 1-d, every integer dtype that holds the values, produced by from_array or an op)
    on a large axis in few chunks"""
    rank = rank or rng.choice([1, 2, 2])
    large_ax = rng.randrange(rank) if large_ax is None else large_ax
    shape, chunks, hots = layout(rng, rank, [large_ax], cls or rng.choice(["one", "edge", "gt65536", "gt256"]), small_multi=0.3)
    n = shape[large_ax]
    if len(chunks[large_ax]) > 6:
        chunks[large_ax] = uniform_chunks(n, -(-n // rng.randint(2, 4)))
        hots[large_ax] = hot_positions(n, chunks[large_ax])
    opts = {}
    if rng.random() < 0.3:
        opts["form"] = rng.choice(["add0", "rechunk", "sliced"])
    if rng.random() < 0.2:
        v = rand_pos(rng, n, hots[large_ax])
        opts["dtype"] = _fit_dtype(rng, [v])
        it = ["dai", v, None, opts]
    else:
        v = _points(rng, n, hots[large_ax], rng.choice([1, 2, 3, 5]), long=rng.random() < 0.1 if long is None else long)
        opts["dtype"] = _fit_dtype(rng, v)
        it = ["dai", v, [list(_M().gen.rand_chunks(rng, len(v), maxparts=3))], opts]
    items = [["s", None, None, None] for _ in shape]
    items[large_ax] = it
    for ax, m in enumerate(shape):
        if ax != large_ax and rng.random() < 0.3:
            items[ax] = retag_item(rng, ["i", rng.randrange(m)]) if rng.random() < 0.4 else retag_item(rng, _M()._any_slice(rng, m))
    items = items[: max(large_ax + 1, rng.randint(1, len(items)))]
    return {"fam": "large-daint", "shape": shape, "chunks": chunks, "acc": "getitem", "index": items}


def case_unknown(rng, rank=None, large_ax=None, cls=None, ccs=None):
    """typed basic indices on an array with UNKNOWN chunk sizes along a large axis (the result of a dask boolean mask
    given by a rule), before / after compute_chunk_sizes"""
    rank = rank or rng.choice([1, 2])
    large_ax = rng.randrange(rank) if large_ax is None else large_ax
    shape, chunks, hots = layout(rng, rank, [large_ax], cls, small_multi=0.3)
    n = shape[large_ax]
    k = rng.choice([1, 2, 3])
    r = rng.randrange(k)
    ccs = rng.random() < 0.92 if ccs is None else ccs   # (without compute_chunk_sizes only refusals are possible)
    m = len(range(r, n, k))
    oshape = list(shape)
    oshape[large_ax] = m
    hm = hot_positions(m, [m])
    items = []
    for ax, q in enumerate(oshape):
        if ax == large_ax:
            items.append(typed_int(rng, rand_pos(rng, m, hm)) if rng.random() < 0.3 else
                         typed_slice(rng, m, hm, steps=None if ccs else (None, 1, 1, -1), oob=0.05))
        else:
            items.append(small_item(rng, q))
    items = items[: max(large_ax + 1, rng.randint(1, len(items)))]
    return {"fam": "large-unknown-ccs" if ccs else "large-unknown", "shape": shape, "chunks": chunks, "acc": "getitem", "index": items,
            "pre": {"kind": "mask-axis", "axis": large_ax, "rule": [n, k, r], "ccs": ccs}, "must": ccs}


# ------------------------------------------------------------------------------ streams


def stratified(rng):
    """the sweep run in every quick run: one case per stratum, random positions inside it"""
    out = []
    # basic + chained: rank x large axis x chunk class x item kind
    for rank in (1, 2):
        for lax in range(rank):
            for cls in CHUNK_CLASSES:
                for kind in ("int", "slice"):
                    out.append(case_basic(rng, rank, lax, cls, kind))
                for mode in ("overflow-int", "overflow-slice", "free"):
                    out.append(case_chain(rng, rank, lax, cls, mode))
                out.append(case_list(rng, rank, lax, cls, long=False))
                out.append(case_list(rng, rank, lax, cls, long=True))     # more than 256 entries
                out.append(case_mask(rng, rank, lax, cls, dask=False))
                out.append(case_mask(rng, rank, lax, cls, dask=True))
                if cls in ("one", "lt256", "gt256", "edge"):
                    out.append(case_unknown(rng, rank, lax, cls, ccs=True))
    # vindex: rank x set of point-wise indexed axes x large axis x chunk class
    for rank in (1, 2, 3):
        for r in range(1, rank + 1):
            for arr_axes in itertools.combinations(range(rank), r):
                for lax in range(rank):
                    for cls in ("one", "lt256", "gt256", "edge"):
                        out.append(case_vindex(rng, rank, list(arr_axes), [lax], cls))
                out.append(case_vindex(rng, rank, list(arr_axes), [rng.choice(arr_axes)], rng.choice(["lt256", "gt256", "edge"]), long=True))
                if r >= 2:   # two large point-wise axes
                    for pair in itertools.combinations(arr_axes, 2):
                        out.append(case_vindex(rng, rank, list(arr_axes), list(pair), rng.choice(["gt256", "edge", "lt256"])))
    for rank in (1, 2):
        for _ in range(8):
            out.append(case_blocks(rng, rank))
        for lax in range(rank):
            for cls in ("one", "edge", "gt65536", "gt256"):
                out.append(case_daint(rng, rank, lax, cls, long=False))
            out.append(case_daint(rng, rank, lax, rng.choice(["edge", "gt256"]), long=True))
    return out


GENS = [
    (gen_retagged, 3.0),
    (case_basic, 0.5), (case_chain, 0.5), (case_list, 0.3), (case_mask, 0.2), (case_vindex, 0.5), (case_blocks, 0.15), (case_daint, 0.2), (case_unknown, 0.15),
]
