"""C29 — two systematic sweeps with recording probes (owner: harness/props/C29.py, which dispatches here).

(1) USER-FUNCTION SITES × INPUT HISTORIES (`fn` sweep).  Every API that takes a user callable (map_blocks / Array.map_blocks,
    blockwise, map_overlap, reduction chunk / combine / aggregate, cumreduction, apply_gufunc / gufunc / as_gufunc,
    apply_along_axis, apply_over_axes, coarsen, piecewise, frompyfunc, fromfunction) × way of supplying the output metadata
    (dtype= / meta= / both / neither where the entry point then derives the meta from its INPUT metas) is applied to inputs
    whose `_meta` went through RANK CHANGES: a 0-d array (full reductions sum / max / mean / argmax / vdot / tensordot, x[i, j],
    asarray(scalar), from_array(0-d), elementwise / where of those) expanded again by broadcast_to / reshape / [None] /
    expand_dims / stack / concatenate / atleast_nd / tile / ravel …; rank-reduced and re-expanded arrays that never were 0-d;
    unknown-chunk arrays; masked / structured / datetime metas.  Then EVERY metadata attribute is read and optimize() is
    called: no logged call of the user function may be on a non-empty block (rank ≥ 1, ≥ 1 element).
    Steering (not an oracle): an input whose `_meta` is non-empty although its rank is ≥ 1 gets the FULL list of sites.
(2) ENTRY POINTS × KEYWORDS (`entry` sweep) on recording NON-NumPy sources (the six classes of C29.py + an h5py-like one with
    `__len__`, `__iter__`, `__array__`, `astype`, `.chunks`): from_array / asarray / asanyarray / array / *_like / stack /
    concatenate / block / vstack / hstack / dstack / where / elementwise and routine calls with a source OPERAND, each keyword of
    each at every documented value (order=, dtype=, like=, chunks forms, meta=, name=, lock=, asarray=, fancy=, inline_array=,
    getitem=, allow_unknown_chunksizes=, ndmin=, shape=, axis=): no non-empty selection / `__array__` / iteration may be
    requested before compute.

Oracle: the recorders only (independent of any model); afterwards compute() must equal NumPy and must HAVE read / called.
Cases: {"paths": 1, "sweep": "fn", "origin": …, "expander": …, "site": …, "mode": …} /
       {"paths": 1, "sweep": "entry", "entry": …, "variant": …, "kind": …}; replayable from the names alone (no randomness
       in a case; ctx.rng only chooses WHICH extra (history, site) pairs a quick run samples beyond the always-run core).
"""
from __future__ import annotations

import warnings

import numpy as np

from harness.props import C29 as base

REC = base.REC
DATA_MIN = base.DATA_MIN


# --------------------------------------------------------------------------- recording probes

class PFn:
    """recording user function: logs the shape of every NumPy-like block it is called on (a lazy dask Array argument —
    apply_over_axes hands the function the collection itself — is logged as `lazy`, never judged)"""

    def __init__(self, role, how, elem=False):
        self.role, self.how, self.elem = role, how, elem
        self.__name__ = f"pfn_{how}"

    def __dask_tokenize__(self):
        return ("c29_paths.PFn", self.role, self.how)

    def __call__(self, *args, **kw):
        from dask_array._collection import Array

        if any(isinstance(a, Array) for a in args):
            REC.log("lazy-call", self.role, 0)
        elif self.elem:
            REC.log("call", self.role, 1, shapes=[[1]], data=False, elem=True)
        else:
            blocks = [b for b in list(args) + [v for k, v in kw.items() if k == "weights"] if hasattr(b, "shape") and hasattr(b, "dtype")]
            shapes = [[int(s) for s in b.shape] for b in blocks]
            n = max([int(np.prod(s)) for s in shapes if len(s) >= 1], default=0)
            REC.log("call", self.role, n, shapes=shapes, data=False)
        return self._value(*args, **kw)

    def _value(self, *args, **kw):
        h = self.how
        a = args[0] if args else None
        if h == "double":
            return a * 2
        if h == "add":
            return a + args[1]
        if h == "chunk_sum":
            return np.sum(a, axis=kw.get("axis"), keepdims=kw.get("keepdims", True))
        if h == "chunk_wsum":
            w = kw.get("weights")
            return np.sum(a if w is None else a * w, axis=kw.get("axis"), keepdims=kw.get("keepdims", True))
        if h == "sum_last":
            return np.sum(a, axis=-1)
        if h == "sum_last_kd":
            return np.sum(a, axis=-1, keepdims=True)
        if h == "sum_1d":
            return a.sum()
        if h == "cumsum":
            return np.cumsum(a, axis=kw.get("axis"), dtype=kw.get("dtype"))
        if h == "newlast":
            return np.stack([a, a], axis=-1)
        if h == "newax":
            return (a * 2)[None]
        if h == "sum_axis_kd":  # apply_over_axes: func(a, axis) on the LAZY array
            return a.sum(axis=args[1], keepdims=True)
        if h == "coarsen_sum":
            return np.sum(a, **kw)
        if h == "pyelem":  # frompyfunc / vectorize: per element
            return a * 2
        if h == "ff":  # fromfunction: index grids
            return sum(args) + DATA_MIN
        raise ValueError(h)


class PFnBI(PFn):
    def __call__(self, *args, block_info=None, block_id=None, **kw):
        return PFn.__call__(self, *args, **kw)


class RecSrcH5(base.RecSrc):
    """h5py-Dataset-like: `__len__`, `__iter__` (reads rows), `__array__`, `astype` (a reading view), `.chunks`, `.size`, `.nbytes`"""
    kind = "h5like"

    def __init__(self, a, sid="s0"):
        super().__init__(a, sid)
        self.chunks = tuple(max(1, (n + 1) // 2) for n in a.shape) or None
        self.size = a.size
        self.nbytes = a.nbytes
        self.fillvalue = 0

    def __len__(self):
        if not self.shape:
            raise TypeError("len() of unsized object")
        return self.shape[0]

    def __iter__(self):
        for i in range(len(self)):
            REC.log("getitem", self._sid, int(np.size(self._a[i])), key=f"iter[{i}]")
            yield self._a[i]

    def __array__(self, dtype=None, copy=None):
        REC.log("__array__", self._sid, self._a.size)
        return np.array(self._a, dtype=dtype)

    def astype(self, dtype):
        REC.log("astype-view", self._sid, 0)
        return RecSrcH5(self._a.astype(dtype), self._sid)

    def read_direct(self, *a, **k):
        REC.log("__array__", self._sid, self._a.size)
        raise NotImplementedError


KINDS = dict(base.SRC_KINDS)
KINDS["h5like"] = RecSrcH5
ENTRY_KINDS = ("h5like", "array", "plain", "chunked", "tokenized", "duck", "picklable")


# --------------------------------------------------------------------------- (1) histories

BASE = (DATA_MIN + np.arange(24, dtype="i8")).reshape(4, 6)


def _base(da):
    return da.from_array(base.RecSrc(BASE.copy(), "s0"), chunks=(2, 3)), BASE.copy()


# origins of a 0-d array: name -> f(xp, a) (same expression for dask and NumPy)
ORIGINS = {
    "sum()": lambda xp, a: a.sum(),
    "max()": lambda xp, a: a.max(),
    "mean()": lambda xp, a: a.mean(),
    "x[1,2]": lambda xp, a: a[1, 2],
    "sum()+1": lambda xp, a: a.sum() + 1,
    "sum(0).sum(0)": lambda xp, a: a.sum(axis=0).sum(axis=0),
    "argmax()": lambda xp, a: a.argmax(),
    "std()": lambda xp, a: a.std(),
    "where(0d)": lambda xp, a: xp.where(a.sum() > 0, a.max(), 0),
    "vdot": lambda xp, a: xp.vdot(a[0], a[1]),
    "tensordot2": lambda xp, a: xp.tensordot(a, a, axes=2),
    "sum().astype(f8)": lambda xp, a: a.sum().astype("f8"),
    "asarray(scalar)": lambda xp, a: xp.asarray(1005.0),
    "from_array(0d)": lambda xp, a: (np.array(1007) if xp is np else xp.from_array(np.array(1007))),
    "prod-of-0d": lambda xp, a: a.min() * a.max(),
    "x[0].sum()": lambda xp, a: a[0].sum(),
}


def _bt(shape, chunks):
    return lambda xp, t: np.broadcast_to(t, shape) if xp is np else xp.broadcast_to(t, shape, chunks=chunks)


# expanders of a 0-d array back to rank >= 1: name -> f(xp, t)
EXPANDERS = {
    "broadcast_to(4,)": _bt((4,), (2,)),
    "broadcast_to(2,3)": _bt((2, 3), (1, 3)),
    "broadcast_to(1,)": _bt((1,), (1,)),
    "reshape(1,)": lambda xp, t: t.reshape((1,)),
    "reshape(1,1)": lambda xp, t: t.reshape((1, 1)),
    "reshape(-1)": lambda xp, t: t.reshape(-1),
    "[None]": lambda xp, t: t[None],
    "[None,None]": lambda xp, t: t[None, None],
    "[...,None]": lambda xp, t: t[..., None],
    "[None][None]": lambda xp, t: t[None][None],
    "expand_dims(0)": lambda xp, t: xp.expand_dims(t, 0),
    "expand_dims((0,1))": lambda xp, t: xp.expand_dims(t, (0, 1)),
    "stack": lambda xp, t: xp.stack([t, t]),
    "stack[None]": lambda xp, t: xp.stack([t, t + 1])[None],
    "concatenate([None])": lambda xp, t: xp.concatenate([t[None], t[None]]),
    "atleast_1d": lambda xp, t: xp.atleast_1d(t),
    "atleast_2d": lambda xp, t: xp.atleast_2d(t),
    "atleast_3d": lambda xp, t: xp.atleast_3d(t),
    "ravel": lambda xp, t: t.ravel(),
    "tile(3)": lambda xp, t: xp.tile(t, 3),
    "[None].T": lambda xp, t: t[None, None].T,
    "[None]+1": lambda xp, t: t[None] + 1,
    "[None][::-1]": lambda xp, t: t[None][::-1],
    "[None].rechunk": lambda xp, t: t[None] if xp is np else t[None].rechunk((1,)),
    "broadcast_to→sum(0)[None]": lambda xp, t: _bt((2, 3), (1, 3))(xp, t).sum(axis=0)[None],
    "[None]→sum()→[None,None]": lambda xp, t: t[None].sum()[None, None],
    "hstack": lambda xp, t: xp.hstack([t, t]),
    "block": lambda xp, t: xp.block([t, t]),
    "full_like(shape)": lambda xp, t: xp.full_like(t, 1003, shape=(2,)) + t,
    "outer": lambda xp, t: xp.outer(t, t),
}

# histories that never pass through rank 0 (controls + other meta kinds): name -> f(xp, a)
OTHER = {
    "plain": lambda xp, a: a,
    "row[None]": lambda xp, a: a[0][None, :],
    "sum(0)[None]": lambda xp, a: a.sum(axis=0)[None],
    "sum(0).reshape(2,3)": lambda xp, a: a.sum(axis=0).reshape(2, 3),
    "sum(1)[:,None]": lambda xp, a: a.sum(axis=1)[:, None],
    "expand_dims(sum(1),1)": lambda xp, a: xp.expand_dims(a.sum(axis=1), 1),
    "stack(sum(0))": lambda xp, a: xp.stack([a.sum(axis=0), a.max(axis=0)]),
    "broadcast_to(2,4,6)": lambda xp, a: np.broadcast_to(a, (2, 4, 6)) if xp is np else xp.broadcast_to(a, (2, 4, 6)),
    "atleast_3d": lambda xp, a: xp.atleast_3d(a),
    "x[1][2:][None,None]": lambda xp, a: a[1][2:][None, None],
    "T.reshape(-1)": lambda xp, a: a.T.reshape(-1),
    "argmax(1)[None]": lambda xp, a: a.argmax(axis=1)[None],
    "mean(0)[None].T": lambda xp, a: a.mean(axis=0)[None].T,
    "unknown:x[x>c]": lambda xp, a: a[a > DATA_MIN + 7],
    "unknown:x[x>c][None]": lambda xp, a: a[a > DATA_MIN + 7][None],
    "unknown:rows": lambda xp, a: a[a[:, 0] > DATA_MIN + 6],
    "masked": lambda xp, a: _masked(xp),
    "masked.sum(0)[None]": lambda xp, a: _masked(xp).sum(axis=0)[None],
    "masked:0d[None]": lambda xp, a: _masked(xp).sum()[None],
    "masked:0d→broadcast_to": lambda xp, a: _bt((4,), (2,))(xp, _masked(xp).sum()),
    "structured:field": lambda xp, a: _structured(xp)["v"],
    "structured:field.sum()0d→broadcast_to": lambda xp, a: _bt((2, 2), (1, 2))(xp, _structured(xp)["v"].sum()),
    "datetime:0d→broadcast_to": lambda xp, a: _bt((4,), (2,))(xp, a.astype("M8[s]").max()),
    "datetime:0d→reshape": lambda xp, a: a.astype("M8[s]").max().reshape((1, 1)),
    "bool:0d→broadcast_to": lambda xp, a: _bt((3,), (2,))(xp, (a > 0).all()),
    "complex:0d→reshape": lambda xp, a: (a * 1j).sum().reshape((1,)),
    "datetime": lambda xp, a: a.astype("M8[s]"),
    "datetime:0d[None]": lambda xp, a: a.astype("M8[s]").max()[None],
    "bool:0d[None]": lambda xp, a: (a > 0).all()[None],
    "complex:0d[None,None]": lambda xp, a: (a * 1j).sum()[None, None],
}

def _masked(xp):
    m = np.ma.masked_greater(BASE.copy(), DATA_MIN + 20)
    return m if xp is np else xp.from_array(m, chunks=(2, 3))


def _structured(xp):
    r = np.zeros(6, dtype=[("k", "i4"), ("v", "f8")])
    r["v"] = DATA_MIN + np.arange(6)
    return r if xp is np else xp.from_array(r, chunks=(3,))


HISTORY_CLASS_OTHER = {"structured": "structured-meta", "unknown": "unknown-chunks", "masked": "masked-meta", "datetime": "datetime-meta"}


def history_class(case):
    """stable class of an input history: for a 0-d array expanded again, the KIND of the expanding operation"""
    if case.get("origin"):
        return "0d-" + EXPANDER_CLASS[case["expander"]]
    h = case["history"]
    if "0d[None" in h:
        return "0d-newaxis"
    if "0d→broadcast_to" in h:
        return "0d-broadcast_to"
    if "0d→reshape" in h:
        return "0d-reshape"
    for k, v in HISTORY_CLASS_OTHER.items():
        if h.startswith(k):
            return v
    return "plain" if h == "plain" else "rank-changed"


def build_history(case):
    """→ (dask array, NumPy value)"""
    import dask_array as da

    d0, x0 = _base(da)
    if case.get("origin"):
        o, e = ORIGINS[case["origin"]], EXPANDERS[case["expander"]]
        return e(da, o(da, d0)), np.asarray(e(np, o(np, x0)))
    f = OTHER[case["history"]]
    return f(da, d0), f(np, x0)


EXPANDER_CLASS = {}
for _e in EXPANDERS:
    if _e.startswith(("[None", "[...,None", "expand_dims", "atleast_")):
        EXPANDER_CLASS[_e] = "newaxis"      # an ExpandDims node directly over the 0-d array
    elif _e.startswith("broadcast_to"):
        EXPANDER_CLASS[_e] = "broadcast_to"
    elif _e.startswith("reshape"):
        EXPANDER_CLASS[_e] = "reshape"
    elif _e.startswith(("stack", "concatenate", "hstack", "block")):
        EXPANDER_CLASS[_e] = "stack"
    else:
        EXPANDER_CLASS[_e] = "other"        # ravel / tile / full_like / outer


# --------------------------------------------------------------------------- (1) sites

def _mkw(mode, ndim, dtype, like=None):
    kw = {}
    if mode in ("dtype", "both"):
        kw["dtype"] = dtype
    if mode in ("meta", "both"):
        kw["meta"] = np.empty((0,) * ndim, dtype=dtype)
    return kw


def _site_map_blocks(v):
    def f(da, d, x, mode):
        nd, dt = x.ndim, x.dtype
        if v == "method":
            return d.map_blocks(PFn("map_blocks", "double"), **_mkw(mode, nd, dt)), x * 2
        if v == "two":
            return da.map_blocks(PFn("map_blocks", "add"), d, d, **_mkw(mode, nd, dt)), x + x
        if v == "block_info":
            return da.map_blocks(PFnBI("map_blocks", "double"), d, **_mkw(mode, nd, dt)), x * 2
        if v == "chunks_kw":
            return da.map_blocks(PFn("map_blocks", "double"), d, chunks=d.chunks, **_mkw(mode, nd, dt)), x * 2
        if v == "drop_axis":
            return (da.map_blocks(PFn("map_blocks", "sum_last"), d.rechunk({nd - 1: -1}), drop_axis=nd - 1, **_mkw(mode, nd - 1, dt)), x.sum(axis=-1))
        if v == "new_axis":
            return da.map_blocks(PFn("map_blocks", "newax"), d, new_axis=0, **_mkw(mode, nd + 1, dt)), (x * 2)[None]
        if v == "enforce_ndim":
            return da.map_blocks(PFn("map_blocks", "double"), d, enforce_ndim=True, **_mkw(mode, nd, dt)), x * 2
        return da.map_blocks(PFn("map_blocks", "double"), d, **_mkw(mode, nd, dt)), x * 2
    return f


def _site_blockwise(v):
    def f(da, d, x, mode):
        nd, dt = x.ndim, x.dtype
        ind = tuple(range(nd))
        if v == "two":
            return da.blockwise(PFn("blockwise", "add"), ind, d, ind, d, ind, **_mkw(mode, nd, dt)), x + x
        if v == "contract":
            return da.blockwise(PFn("blockwise", "sum_last"), ind[:-1], d, ind, concatenate=True, **_mkw(mode, nd - 1, dt)), x.sum(axis=-1)
        if v == "new_axes":
            return (da.blockwise(PFn("blockwise", "newlast"), ind + (nd,), d, ind, new_axes={nd: 2}, **_mkw(mode, nd + 1, dt)), np.stack([x, x], axis=-1))
        if v == "noalign":
            return da.blockwise(PFn("blockwise", "double"), ind, d, ind, align_arrays=False, **_mkw(mode, nd, dt)), x * 2
        if v == "adjust":
            return da.blockwise(PFn("blockwise", "double"), ind, d, ind, adjust_chunks={0: lambda n: n}, **_mkw(mode, nd, dt)), x * 2
        if v == "with_scalar":
            return da.blockwise(PFn("blockwise", "add"), ind, d, ind, 1, None, **_mkw(mode, nd, dt)), x + 1
        return da.blockwise(PFn("blockwise", "double"), ind, d, ind, **_mkw(mode, nd, dt)), x * 2
    return f


def _site_map_overlap(v):
    def f(da, d, x, mode):
        nd, dt = x.ndim, x.dtype
        kw = dict(depth={a: 0 for a in range(nd)} | {0: 1}, boundary="none" if v != "reflect" else "reflect", **_mkw(mode, nd, dt))
        if x.shape[0] < 2:
            kw["depth"] = 0
        if v == "method":
            return d.map_overlap(PFn("map_overlap", "double"), **kw), x * 2
        if v == "two":
            return da.map_overlap(PFn("map_overlap", "add"), d, d, **kw), x + x
        if v == "notrim":
            kw["depth"] = 0
            return da.map_overlap(PFn("map_overlap", "double"), d, trim=False, **kw), x * 2
        return da.map_overlap(PFn("map_overlap", "double"), d, **kw), x * 2
    return f


def _site_reduction(v):
    def f(da, d, x, mode):
        nd, dt = x.ndim, x.dtype
        kd = v in ("keepdims", "weights")
        axis = None if v == "axis_none" else 0
        kw = {"dtype": dt}
        out_nd = nd if kd else (0 if axis is None else nd - 1)
        if mode in ("meta", "both"):
            kw["meta"] = np.empty((0,) * out_nd, dtype=dt)
        if v in ("combine", "split"):
            kw["combine"] = PFn("reduction.combine", "chunk_sum")
        if v == "split":
            kw["split_every"] = 2
        chunk = PFn("reduction.chunk", "chunk_sum")
        if v == "weights":
            kw["weights"] = np.ones(x.shape, dtype=dt)
            chunk = PFn("reduction.chunk", "chunk_wsum")
        r = da.reduction(d, chunk=chunk, aggregate=PFn("reduction.aggregate", "chunk_sum"), axis=axis, keepdims=kd, **kw)
        return r, x.sum(axis=axis, keepdims=kd)
    return f


def _site_cumreduction(v):
    def f(da, d, x, mode):
        kw = {}
        if v == "blelloch":
            kw = {"method": "blelloch", "preop": PFn("cumreduction.preop", "chunk_sum")}
        ax = x.ndim - 1 if v == "lastaxis" else 0
        return da.cumreduction(PFn("cumreduction.func", "cumsum"), PFn("cumreduction.binop", "add"), 0, d, axis=ax, dtype=x.dtype, **kw), np.cumsum(x, axis=ax)
    return f


def _site_gufunc(v):
    def f(da, d, x, mode):
        nd, dt = x.ndim, x.dtype
        core = v in ("core", "core_axis", "core_keepdims", "gufunc_core")
        out_nd = nd - 1 if core and v != "core_keepdims" else nd
        kw = {"meta": np.empty((0,) * out_nd, dtype=dt)} if mode == "meta" else {"output_dtypes": dt}
        if v == "elem":
            return da.apply_gufunc(PFn("apply_gufunc", "double"), "()->()", d, **kw), x * 2
        if v == "core":
            return da.apply_gufunc(PFn("apply_gufunc", "sum_last"), "(i)->()", d, allow_rechunk=True, **kw), x.sum(axis=-1)
        if v == "core_axis":
            return da.apply_gufunc(PFn("apply_gufunc", "sum_last"), "(i)->()", d, axis=0, allow_rechunk=True, **kw), x.sum(axis=0)
        if v == "core_keepdims":
            return (da.apply_gufunc(PFn("apply_gufunc", "sum_last"), "(i)->()", d, axis=-1, keepdims=True, allow_rechunk=True, **kw), x.sum(axis=-1, keepdims=True))
        if v == "vectorize":
            return da.apply_gufunc(PFn("apply_gufunc", "pyelem", elem=True), "()->()", d, vectorize=True, **kw), x * 2
        if v == "gufunc_elem":
            return da.gufunc(PFn("gufunc", "double"), signature="()->()", **kw)(d), x * 2
        if v == "gufunc_core":
            return da.gufunc(PFn("gufunc", "sum_last"), signature="(i)->()", allow_rechunk=True, **kw)(d), x.sum(axis=-1)
        if v == "as_gufunc":
            return da.as_gufunc(signature="()->()", **kw)(PFn("as_gufunc", "double"))(d), x * 2
        raise ValueError(v)
    return f


def _site_misc(v):
    def f(da, d, x, mode):
        nd, dt = x.ndim, x.dtype
        if v == "apply_along_axis":
            return da.apply_along_axis(PFn("apply_along_axis", "sum_1d"), nd - 1, d, dtype=dt, shape=()), x.sum(axis=-1)
        if v == "apply_along_axis0":
            return da.apply_along_axis(PFn("apply_along_axis", "sum_1d"), 0, d, dtype=dt, shape=()), x.sum(axis=0)
        if v == "apply_over_axes":
            return da.apply_over_axes(PFn("apply_over_axes", "sum_axis_kd"), d, [0]), np.apply_over_axes(lambda a, ax: a.sum(axis=ax, keepdims=True), x, [0])
        if v == "coarsen":
            return da.coarsen(PFn("coarsen", "coarsen_sum"), d, {0: 1}), x
        if v == "coarsen_trim":
            k = 2 if x.shape[0] >= 2 else 1
            m = (x.shape[0] // k) * k
            want = x[:m].reshape((m // k, k) + x.shape[1:]).sum(axis=1)
            return da.coarsen(PFn("coarsen", "coarsen_sum"), d.rechunk({0: -1}), {0: k}, trim_excess=True), want
        if v == "piecewise":
            c = np.median(x)
            return da.piecewise(d, [d < c, d >= c], [PFn("piecewise", "double"), PFn("piecewise", "double")]), x * 2
        if v == "fromfunction":
            return (da.fromfunction(PFn("fromfunction", "ff"), chunks=((2, 2), (3,)), shape=(4, 3), dtype="f8"),
                    np.fromfunction(lambda i, j: i + j + DATA_MIN, (4, 3), dtype="f8"))
        if v == "fromfunction_kw":
            return (da.fromfunction(PFn("fromfunction", "ff"), chunks=(2,), shape=(5,), dtype="i8"),
                    np.fromfunction(lambda i: i + DATA_MIN, (5,), dtype="i8"))
        if v == "frompyfunc":
            return da.frompyfunc(PFn("frompyfunc", "pyelem", elem=True), 1, 1)(d), (x * 2).astype(object)
        raise ValueError(v)
    return f


# name -> (family, builder, modes, needs(x) predicate)
SITES = {}


def _reg(name, fam, fn, modes, needs=lambda x: True):
    SITES[name] = (fam, fn, modes, needs)


_num = lambda x: x.dtype.kind in "iufc"  # noqa: E731
for _v in ("plain", "method", "two", "block_info", "chunks_kw", "enforce_ndim"):
    _reg(f"map_blocks:{_v}", "map_blocks", _site_map_blocks(_v), ("dtype", "meta", "both") if _v == "plain" else ("dtype",))
_reg("map_blocks:drop_axis", "map_blocks", _site_map_blocks("drop_axis"), ("dtype", "meta"), lambda x: x.ndim >= 2 and _num(x))
_reg("map_blocks:new_axis", "map_blocks", _site_map_blocks("new_axis"), ("dtype", "meta"))
for _v in ("plain", "two"):
    _reg(f"blockwise:{_v}", "blockwise", _site_blockwise(_v), ("dtype", "meta", "both", "none"))
for _v in ("noalign", "adjust", "with_scalar", "new_axes"):
    _reg(f"blockwise:{_v}", "blockwise", _site_blockwise(_v), ("dtype", "none"))
_reg("blockwise:contract", "blockwise", _site_blockwise("contract"), ("dtype", "none"), lambda x: x.ndim >= 2 and _num(x))
for _v in ("plain", "method", "two", "reflect", "notrim"):
    _reg(f"map_overlap:{_v}", "map_overlap", _site_map_overlap(_v), ("dtype", "meta") if _v == "plain" else ("meta",))
for _v in ("plain", "keepdims", "axis_none", "combine", "split", "weights"):
    _reg(f"reduction:{_v}", "reduction", _site_reduction(_v), ("dtype", "both") if _v in ("plain", "keepdims") else ("dtype",), _num)
for _v in ("plain", "lastaxis", "blelloch"):
    _reg(f"cumreduction:{_v}", "cumreduction", _site_cumreduction(_v), ("dtype",), _num)
for _v in ("elem", "core", "core_axis", "core_keepdims", "vectorize", "gufunc_elem", "gufunc_core", "as_gufunc"):
    _reg(f"apply_gufunc:{_v}", "apply_gufunc", _site_gufunc(_v), ("dtype", "meta") if _v in ("elem", "core") else ("dtype",),
         (lambda x: _num(x)) if "core" in _v else (lambda x: True))
for _v in ("apply_along_axis", "apply_along_axis0", "apply_over_axes", "coarsen", "coarsen_trim", "piecewise"):
    _reg(_v, _v.rstrip("0").replace("_trim", ""), _site_misc(_v), ("dtype",), _num)
_reg("frompyfunc", "frompyfunc", _site_misc("frompyfunc"), ("dtype",))
for _v in ("fromfunction", "fromfunction_kw"):
    _reg(_v, "fromfunction", _site_misc(_v), ("dtype",), lambda x: x.shape == BASE.shape and x.dtype == BASE.dtype and not isinstance(x, np.ma.MaskedArray))

# the sites whose meta is derived from the INPUT metas although the caller gave a dtype: run on EVERY history
DETECTOR_SITES = (("blockwise:plain", "dtype"), ("reduction:keepdims", "dtype"), ("blockwise:plain", "none"))

FN_ACCESSORS = {
    "shape": lambda d: d.shape, "chunks": lambda d: d.chunks, "dtype": lambda d: d.dtype, "name": lambda d: d.name,
    "ndim": lambda d: d.ndim, "size": lambda d: d.size, "nbytes": lambda d: d.nbytes, "numblocks": lambda d: d.numblocks,
    "npartitions": lambda d: d.npartitions, "repr": lambda d: repr(d), "str": lambda d: str(d), "_repr_html_": lambda d: d._repr_html_(),
    "len": lambda d: len(d), "__dask_keys__": lambda d: d.__dask_keys__(), "chunksize": lambda d: d.chunksize, "itemsize": lambda d: d.itemsize,
    "_meta": lambda d: d._meta, "transfer_bytes(all nodes)": base._walk_transfer, "blocks.shape": lambda d: d.blocks.shape,
    "T.metadata": lambda d: (d.T.shape, d.T.chunks, d.T.dtype), "real.metadata": lambda d: (d.real.shape, d.real.dtype),
    "expr.tree_repr": lambda d: d.expr.tree_repr(), "__dask_tokenize__": lambda d: d.__dask_tokenize__(),
    "optimize": base._opt_meta, "optimize(all nodes).transfer_bytes": lambda d: base._walk_transfer(d.optimize()),
}
FN_ACCESSORS_MORE = {"simplify": lambda d: d.simplify().chunks, "dask.optimize": base._dask_optimize,
                     "expr.lower_completely": lambda d: d.expr.lower_completely()._name}

NO_META_PARAM = ("coarsen", "apply_over_axes", "frompyfunc")
EXEMPT_ROLES = ("reduction.aggregate", "reduction.combine", "cumreduction.binop")


def judge(events, case, label):
    """→ [(signature, what, phase)] for the pre-compute events of one case; observations counted into `obs`"""
    out, obs = [], {}
    forcer = None
    for ev in events:
        k = ev["kind"]
        ph = ev["phase"]
        sig = what = None
        if k == "forced":
            forcer = ev
            obs["forced-compute"] = obs.get("forced-compute", 0) + 1
            continue
        if k in ("getitem", "__array__") and ev["n"] >= 1:
            if case["sweep"] == "entry":
                sig = f"C29:paths:source-read:{case['entry']}:{case['variant'].split('=')[0]}"
                what = (f"{label}: the non-NumPy source was asked for {ev['n']} element(s) "
                        f"({'source[' + ev.get('key', '') + ']' if k == 'getitem' else k}) during {ph}, before any compute")
            else:
                sig = f"C29:paths:source-read:{SITES[case['site']][0]}:{history_class(case)}"
                what = f"{label}: source read of {ev['n']} element(s) ({k} {ev.get('key', '')}) during {ph}"
        elif k == "call" and ev["n"] >= 1:
            role = ev["who"]
            if role in EXEMPT_ROLES:
                # fed by the user's OWN chunk function applied to an empty block (np.sum(empty, keepdims=True) has one element)
                obs["reduction-meta-chain-call"] = obs.get("reduction-meta-chain-call", 0) + 1
                continue
            if role == "piecewise" and ev["n"] <= 1:
                obs["piecewise-unit-call"] = obs.get("piecewise-unit-call", 0) + 1
                continue
            unit = all(all(k <= 1 for k in shp) for shp in ev["shapes"])
            if role in NO_META_PARAM and unit:
                # these entry points have no dtype= / meta= parameter: they PROBE the user function with a synthetic one-element
                # block (np.empty((1,)*ndim) / np.ones((1,))) to learn the output dtype — the class of the listed findings
                # C29:func-on-synthetic-unit-block:map_blocks / map_overlap, here for a caller who cannot avoid it
                sig = f"C29:func-on-synthetic-unit-block:{role}"
                what = (f"{label}: {role} has no dtype= / meta= parameter and calls the user function on a synthetic one-element block, "
                        f"shapes {ev['shapes']}, during {ph}")
                out.append((sig, what, ph))
                continue
            if case["sweep"] == "fn":
                sig = f"C29:paths:fn-on-nonempty-block:{role}:{history_class(case)}"
            else:
                sig = f"C29:paths:fn-on-nonempty-block:{role}:entry"
            what = (f"{label}: the user function ({role}) was called on a non-empty block, shapes {ev['shapes']}, during {ph} "
                    "(only empty blocks may be probed before compute)")
        elif k == "call":
            obs["empty-call"] = obs.get("empty-call", 0) + 1
        elif k == "getitem":
            obs["empty-read"] = obs.get("empty-read", 0) + 1
        else:
            obs[k] = obs.get(k, 0) + 1
        if sig:
            if ev.get("forced") and forcer is not None:
                site = forcer["caller"].split(":")[-1]
                sig = f"C29:paths:forced-compute:{forcer['who']}:{site}"
                what = f"Array.{forcer['who']} (called from {forcer['caller']}) computed during {ph}: {what}"
            out.append((sig, what, ph))
    return out, obs


def _inspect(d, accessors, res):
    for nm, fn in accessors.items():
        with base.phase(f"inspect:{nm}"), base.watch_forced():
            try:
                fn(d)
            except Exception as e:
                res["refusals"].append(f"inspect:{nm}: {type(e).__name__}: {str(e)[:80]}")


def _same(got, want):
    g, w = np.asarray(got), np.asarray(want)
    if g.shape != w.shape:
        return False
    if isinstance(got, np.ma.MaskedArray) or isinstance(want, np.ma.MaskedArray):
        g, w = np.ma.filled(got, 0), np.ma.filled(want, 0)
    if w.dtype.kind in "OMmSUV" or g.dtype.kind in "OMmSUV":
        try:
            return bool(np.all(g.astype(object) == w.astype(object)))
        except Exception:
            return True
    return bool(np.allclose(g.astype("c16"), w.astype("c16"), equal_nan=True))


LIGHT = ("dtype", "chunks", "_meta", "repr", "__dask_keys__", "optimize")


def run_fn_case(case, compute=False, accessors="full"):
    """→ dict(violations, obs, refusals, steer=…, compute=…)"""
    import dask_array as da

    REC.take()
    res = {"violations": [], "obs": {}, "refusals": [], "steer": False}
    label = f"{case.get('origin') or case.get('history')}" + (f" → {case['expander']}" if case.get("origin") else "") + f" → {case['site']}[{case['mode']}]"
    with warnings.catch_warnings():
        warnings.simplefilter("ignore")
        try:
            with base.phase("build:history"), base.watch_forced():
                d, x = build_history(case)
            m = getattr(d, "_meta", None)
            res["steer"] = bool(d.ndim >= 1 and m is not None and hasattr(m, "size") and np.size(m) > 0)
        except Exception as e:
            res["refusals"].append(f"build:history: {type(e).__name__}: {str(e)[:80]}")
            REC.take()
            return res
        fam, fn, modes, needs = SITES[case["site"]]
        if not needs(x) or x.ndim < 1:
            res["skipped"] = True
            REC.take()
            return res
        try:
            with base.phase(f"build:{case['site']}[{case['mode']}]"), base.watch_forced():
                r, want = fn(da, d, x, case["mode"])
        except Exception as e:
            res["refusals"].append(f"build:{case['site']}: {type(e).__name__}: {str(e)[:80]}")
            r = None
        if r is not None:
            acc = {k: FN_ACCESSORS[k] for k in LIGHT} if accessors == "light" else FN_ACCESSORS | (FN_ACCESSORS_MORE if accessors == "more" else {})
            _inspect(r, acc, res)
        ev = REC.take()
        res["violations"], res["obs"] = judge(ev, case, label)
        if r is not None and compute:
            with base.phase("compute"):
                try:
                    got = r.compute(scheduler="synchronous")
                    cev = REC.take()
                    res["compute"] = {"equal_numpy": _same(got, want), "calls": sum(1 for e in cev if e["kind"] in ("call", "lazy-call"))}
                except Exception as e:
                    REC.take()
                    res["compute"] = {"raises": f"{type(e).__name__}: {str(e)[:100]}"}
    return res


# --------------------------------------------------------------------------- (2) entry points × keywords

ESRC = (DATA_MIN + np.arange(30, dtype="f8")).reshape(6, 5)


def _entries():
    """name -> {variant -> f(da, src, d2) → (dask result, NumPy expected)}; `src` the recording source over ESRC (6, 5),
    `d2` an ordinary dask array of the same shape (NumPy-backed)"""
    X = ESRC
    E = {}

    def kwgrid(name, call, variants, want=lambda kw: X):
        E[name] = {}
        for vn, kw in variants.items():
            E[name][vn] = (lambda kw: lambda da, s, d2: (call(da, s, **kw), want(kw)))(kw)

    lockobj = "LOCK"
    fa = {
        "default": {}, "chunks=int": {"chunks": 3}, "chunks=tuple": {"chunks": (3, 5)}, "chunks=explicit": {"chunks": ((2, 4), (5,))},
        "chunks=auto": {"chunks": "auto"}, "chunks=-1": {"chunks": -1}, "chunks=None-axis": {"chunks": (None, 2)}, "chunks=dict": {"chunks": {0: 2}},
        "chunks=bytes": {"chunks": "80B"}, "chunks=mixed-auto": {"chunks": (2, "auto")}, "chunks=(-1,k)": {"chunks": (-1, 2)},
        "lock=True": {"chunks": 3, "lock": True}, "lock=False": {"chunks": 3, "lock": False}, "lock=object": {"chunks": 3, "lock": lockobj},
        "asarray=True": {"chunks": 3, "asarray": True}, "asarray=False": {"chunks": 3, "asarray": False},
        "fancy=False": {"chunks": 3, "fancy": False}, "fancy=True": {"chunks": 3, "fancy": True},
        "getitem=fn": {"chunks": 3, "getitem": base.rec_getitem}, "getitem+lock": {"chunks": 3, "getitem": base.rec_getitem, "lock": True},
        "meta=ndarray": {"chunks": 3, "meta": np.empty((0, 0), dtype="f8")}, "meta=masked": {"chunks": 3, "meta": np.ma.empty((0, 0), dtype="f8")},
        "meta=lower-rank": {"chunks": 3, "meta": np.empty((0,), dtype="f8")},
        "inline_array=True": {"chunks": 3, "inline_array": True}, "inline_array+asarray=False": {"chunks": 3, "inline_array": True, "asarray": False},
        "name=str": {"chunks": 3, "name": "c29-paths-fixed"}, "name=False": {"chunks": 3, "name": False}, "name=True": {"chunks": 3, "name": True},
        "name=None": {"chunks": 3, "name": None},
    }

    def call_fa(da, s, **kw):
        if kw.get("lock") == lockobj:
            import threading
            kw = dict(kw, lock=threading.Lock())
        return da.from_array(s, **kw)

    kwgrid("from_array", call_fa, fa)
    dt = lambda kw: X.astype(kw["dtype"]) if kw.get("dtype") else X  # noqa: E731
    kwgrid("asarray", lambda da, s, **kw: da.asarray(s, **kw), {
        "default": {}, "dtype=same": {"dtype": "f8"}, "dtype=f4": {"dtype": "f4"}, "dtype=i8": {"dtype": "i8"},
        "order=C": {"order": "C"}, "order=F": {"order": "F"}, "order=K": {"order": "K"}, "order=A": {"order": "A"},
        "order=F+dtype": {"order": "F", "dtype": "f4"}, "allow_unknown_chunksizes=True": {"allow_unknown_chunksizes": True},
        "chunks=kw": {"chunks": (3, 5)}, "name=kw": {"name": "c29-paths-asarray"}, "inline_array=kw": {"inline_array": True},
        "like=ndarray": {"like": np.empty(0)}, "like=ndarray+order": {"like": np.empty(0), "order": "F"},
    }, dt)
    kwgrid("asanyarray", lambda da, s, **kw: da.asanyarray(s, **kw), {
        "default": {}, "dtype=same": {"dtype": "f8"}, "dtype=f4": {"dtype": "f4"}, "order=C": {"order": "C"}, "order=F": {"order": "F"},
        "order=K": {"order": "K"}, "order=A": {"order": "A"}, "order=F+dtype": {"order": "F", "dtype": "f4"},
        "inline_array=True": {"inline_array": True}, "inline_array=False": {"inline_array": False},
        "like=ndarray": {"like": np.empty(0)}, "like=ndarray+dtype": {"like": np.empty(0), "dtype": "f4"},
    }, dt)
    kwgrid("array", lambda da, s, **kw: da.array(s, **kw), {
        "default": {}, "dtype=f4": {"dtype": "f4"}, "ndmin=2": {"ndmin": 2}, "ndmin=1": {"ndmin": 1},
        "like=ndarray": {"like": np.empty(0)},
    }, dt)
    E["array"]["ndmin=3"] = lambda da, s, d2: (da.array(s, ndmin=3), X[None])
    for nm, npf in (("zeros_like", np.zeros_like), ("ones_like", np.ones_like), ("empty_like", None), ("full_like", None)):
        def mk(nm, npf, kw):
            def f(da, s, d2):
                fn = getattr(da, nm)
                args = (s, 7.0) if nm == "full_like" else (s,)
                r = fn(*args, **kw)
                shp = kw.get("shape", X.shape)
                shp = (shp,) if isinstance(shp, int) else shp
                dtp = kw.get("dtype", X.dtype)
                want = None if nm == "empty_like" else (np.full(shp, 7.0, dtype=dtp) if nm == "full_like" else npf(np.empty(shp, dtype=dtp)))
                return r, want
            return f
        E[nm] = {vn: mk(nm, npf, kw) for vn, kw in {
            "default": {}, "dtype=i4": {"dtype": "i4"}, "order=F": {"order": "F"}, "order=K": {"order": "K"}, "chunks=tuple": {"chunks": (2, 5)},
            "name=str": {"name": f"c29-paths-{nm}"}, "shape=tuple": {"shape": (3, 2)}, "shape=int": {"shape": 4},
        }.items()}
    for nm, npf in (("stack", np.stack), ("concatenate", np.concatenate)):
        def mk2(nm, npf, kw, wrap):
            def f(da, s, d2):
                seq = [s, d2] if wrap == "mixed" else ([da.from_array(s, chunks=3), d2] if wrap == "from_array" else [s, s])
                nkw = {k: v for k, v in kw.items() if k == "axis"}
                return getattr(da, nm)(seq, **kw), npf([X, X], **nkw)
            return f
        E[nm] = {vn: mk2(nm, npf, kw, wrap) for vn, (kw, wrap) in {
            "default": ({}, "raw"), "axis=1": ({"axis": 1}, "raw"), "axis=-1": ({"axis": -1}, "raw"), "mixed-with-dask": ({}, "mixed"),
            "allow_unknown_chunksizes=True": ({"allow_unknown_chunksizes": True}, "raw"), "of-from_array": ({"axis": 1}, "from_array"),
        }.items()}
    E["block"] = {
        "default": lambda da, s, d2: (da.block([s, s]), np.block([X, X])),
        "nested": lambda da, s, d2: (da.block([[s], [d2]]), np.block([[X], [X]])),
        "allow_unknown_chunksizes=True": lambda da, s, d2: (da.block([s, d2], allow_unknown_chunksizes=True), np.block([X, X])),
    }
    E["xstack"] = {
        "vstack": lambda da, s, d2: (da.vstack([s, d2]), np.vstack([X, X])),
        "hstack": lambda da, s, d2: (da.hstack([s, d2]), np.hstack([X, X])),
        "dstack": lambda da, s, d2: (da.dstack([s, d2]), np.dstack([X, X])),
    }
    c = DATA_MIN + 12
    E["where"] = {
        "x=source": lambda da, s, d2: (da.where(d2 > c, s, 0), np.where(X > c, X, 0)),
        "y=source": lambda da, s, d2: (da.where(d2 > c, d2, s), np.where(X > c, X, X)),
        "both=source": lambda da, s, d2: (da.where(d2 > c, s, s), X),
    }
    E["elementwise"] = {
        "add(d,src)": lambda da, s, d2: (da.add(d2, s), X + X),
        "add(src,d)": lambda da, s, d2: (da.add(s, d2), X + X),
        "d+src": lambda da, s, d2: (d2 + s, X + X),
        "d*src": lambda da, s, d2: (d2 * s, X * X),
        "maximum(src,d)": lambda da, s, d2: (da.maximum(s, d2), X),
        "d>src": lambda da, s, d2: (d2 > s, X > X),
        "sqrt(src)": lambda da, s, d2: (da.sqrt(s), np.sqrt(X)),
        "isclose(d,src)": lambda da, s, d2: (da.isclose(d2, s), np.isclose(X, X)),
        "clip(d,src,src)": lambda da, s, d2: (da.clip(d2, s, s), X),
    }
    E["routine"] = {
        "broadcast_to": lambda da, s, d2: (da.broadcast_to(s, (2, 6, 5)), np.broadcast_to(X, (2, 6, 5))),
        "atleast_3d": lambda da, s, d2: (da.atleast_3d(s), np.atleast_3d(X)),
        "expand_dims": lambda da, s, d2: (da.expand_dims(s, 0), X[None]),
        "reshape": lambda da, s, d2: (da.reshape(s, (5, 6)), X.reshape(5, 6)),
        "transpose": lambda da, s, d2: (da.transpose(s), X.T),
        "sum": lambda da, s, d2: (da.sum(s, axis=0), X.sum(axis=0)),
        "take": lambda da, s, d2: (da.take(s, [0, 2], axis=0), X[[0, 2]]),
        "append": lambda da, s, d2: (da.append(d2, s, axis=0), np.append(X, X, axis=0)),
        "matmul": lambda da, s, d2: (da.matmul(d2.T, s), X.T @ X),
        "tensordot": lambda da, s, d2: (da.tensordot(d2, s, axes=([0], [0])), np.tensordot(X, X, axes=([0], [0]))),
        "broadcast_arrays": lambda da, s, d2: (da.broadcast_arrays(s, d2)[0], X),
        "rechunk": lambda da, s, d2: (da.rechunk(da.asarray(s), (2, 5)), X),
        "ravel": lambda da, s, d2: (da.ravel(s), X.ravel()),
        "flip": lambda da, s, d2: (da.flip(s, 0), X[::-1]),
        "map_blocks(arg)": lambda da, s, d2: (da.map_blocks(PFn("map_blocks", "add"), d2, da.from_array(s, chunks=(3, 5)), dtype="f8"), X + X),
        "isin": lambda da, s, d2: (da.isin(d2, s), np.isin(X, X)),
        "result_type": lambda da, s, d2: (da.asarray(s).astype(da.result_type(s, d2)), X),
        "setitem(value=src)": lambda da, s, d2: (_setitem(d2, s), X),
    }
    return E


def _setitem(d2, s):
    d = d2 + 0
    d[...] = s
    return d


_ENTRIES = None


def entries():
    global _ENTRIES
    if _ENTRIES is None:
        _ENTRIES = _entries()
    return _ENTRIES


def run_entry_case(case, compute=True):
    import dask_array as da

    REC.take()
    res = {"violations": [], "obs": {}, "refusals": []}
    label = f"{case['entry']}[{case['variant']}] on a {case['kind']} source"
    f = entries()[case["entry"]][case["variant"]]
    with warnings.catch_warnings():
        warnings.simplefilter("ignore")
        src = KINDS[case["kind"]](ESRC.copy(), "s0")
        d2 = da.from_array(ESRC.copy(), chunks=(3, 5))
        try:
            with base.phase(f"build:{case['entry']}[{case['variant']}]"), base.watch_forced():
                r, want = f(da, src, d2)
        except Exception as e:
            res["refusals"].append(f"build: {type(e).__name__}: {str(e)[:80]}")
            r = None
        if r is not None and not hasattr(r, "__dask_keys__"):
            # not an array expression: the entry point handed the operand to NumPy and returned a concrete result
            # (ufunc wrappers on non-dask inputs) — an eager NumPy computation, outside the property; noted, not judged
            res["refusals"].append(f"build: returned {type(r).__name__}, not a dask array (eager NumPy call)")
            REC.take()
            return res
        if r is not None:
            _inspect(r, FN_ACCESSORS, res)
        res["violations"], res["obs"] = judge(REC.take(), case, label)
        if r is not None and compute:
            with base.phase("compute"):
                try:
                    got = r.compute(scheduler="synchronous")
                    cev = REC.take()
                    res["compute"] = {"equal_numpy": True if want is None else _same(got, want),
                                      "reads": sum(1 for e in cev if e["kind"] in ("getitem", "__array__", "copy") and e["n"] >= 1)}
                except Exception as e:
                    REC.take()
                    res["compute"] = {"raises": f"{type(e).__name__}: {str(e)[:100]}"}
    return res


# --------------------------------------------------------------------------- driver

def replay(ctx, case):
    res = run_fn_case(case, accessors="more") if case["sweep"] == "fn" else run_entry_case(case, compute=False)
    done = set()
    for sig, what, ph in res["violations"]:
        if sig not in done:
            done.add(sig)
            ctx.fail(sig, dict(case, phase=ph), what)
    ctx.count(("paths-replay",))


def _all_modes(site):
    return SITES[site][2]


def run(ctx):
    import time

    t0 = time.time()
    rng = ctx.rng
    quick = ctx.tier == "quick"
    seen = set()
    notes = {"fn_cases": 0, "fn_skipped": 0, "fn_refusals": 0, "fn_steered_histories": 0, "entry_cases": 0, "entry_refusals": 0,
             "compute_checked": 0, "compute_mismatch": 0, "compute_raises": 0, "compute_calls": 0, "compute_reads": 0}
    obs = {}
    examples = {"refusals": [], "mismatch": []}

    def absorb(case, res, kind):
        for k, v in res["obs"].items():
            obs[k] = obs.get(k, 0) + v
        for r in res["refusals"]:
            notes[f"{kind}_refusals"] += 1
            if len(examples["refusals"]) < 12 and not any(r[:40] == e["refusal"][:40] for e in examples["refusals"]):
                examples["refusals"].append({"case": case, "refusal": r})
        for sig, what, ph in res["violations"]:
            if sig not in seen:
                seen.add(sig)
                ctx.fail(sig, dict(case, phase=ph), what)
            else:
                notes.setdefault("further_cases_per_signature", {}).setdefault(sig, 0)
                notes["further_cases_per_signature"][sig] += 1
        c = res.get("compute")
        if c:
            notes["compute_checked"] += 1
            if "raises" in c:
                notes["compute_raises"] += 1
                if len(examples["mismatch"]) < 6:
                    examples["mismatch"].append({"case": case, "compute": c})
            else:
                notes["compute_calls"] += c.get("calls", 0)
                notes["compute_reads"] += c.get("reads", 0)
                if not c["equal_numpy"]:
                    notes["compute_mismatch"] += 1
                    if len(examples["mismatch"]) < 6:
                        examples["mismatch"].append({"case": case, "compute": c})

    # ---- (2) entry sweep: every entry × variant on the h5py-like source; the other source kinds rotate over the variants
    t1 = time.time()
    E = entries()
    k = rng.randrange(len(ENTRY_KINDS))
    for en, variants in E.items():
        for vn in variants:
            kinds = ["h5like"]
            if quick:
                k += 1
                kinds.append(ENTRY_KINDS[1:][k % (len(ENTRY_KINDS) - 1)])
            else:
                kinds = list(ENTRY_KINDS)
            for kd in kinds:
                case = {"paths": 1, "sweep": "entry", "entry": en, "variant": vn, "kind": kd}
                res = run_entry_case(case)
                notes["entry_cases"] += 1
                ctx.count(("paths-entry", en, vn, kd))
                absorb(case, res, "entry")
    notes["entry_seconds"] = round(time.time() - t1, 2)

    # ---- (1) fn sweep
    # quick: the first origin × every expander, every origin × the first expander of each class, and a seed-dependent third of
    # the remaining (origin, expander) pairs; thorough: the full product
    off = rng.randrange(3)
    first_of_class = {c: next(e for e in EXPANDERS if EXPANDER_CLASS[e] == c) for c in set(EXPANDER_CLASS.values())}
    pairs = [(oi, o, ei, e) for oi, o in enumerate(ORIGINS) for ei, e in enumerate(EXPANDERS)]
    histories = [{"history": "plain"}] + [{"origin": o, "expander": e} for oi, o, ei, e in pairs if oi == 0] + [{"history": h} for h in OTHER if h != "plain"] + [
        {"origin": o, "expander": e} for oi, o, ei, e in pairs
        if oi > 0 and (not quick or first_of_class[EXPANDER_CLASS[e]] == e or (oi + ei + off) % 3 == 0)]
    all_sites = [(s, m) for s in SITES for m in _all_modes(s)]
    budget_fn = ctx.scale(7.5, 150.0)
    # (A) EVERY history × a detector site (a site that derives its meta from the INPUT metas although dtype= is given), light
    #     accessor list (dtype / chunks / _meta / repr / keys / optimize); quick: the detectors alternate over the histories, and a
    #     STEERED history (non-empty `_meta` at rank ≥ 1) gets all of them; thorough: all detectors on every history
    for s, m in all_sites:  # (0) the plain history × EVERY site × mode, always complete (deterministic order)
        case = dict(histories[0], paths=1, sweep="fn", site=s, mode=m)
        res = run_fn_case(case, compute=(not quick or len(seen) % 2 == 0 or all_sites.index((s, m)) % 3 == 0), accessors="full" if quick else "more")
        notes["fn_cases"] += 1
        ctx.count(("paths-fn", "plain", s, m))
        absorb(case, res, "fn")
    notes["fn_plain_seconds"] = round(time.time() - t0, 2)
    core, steered_by_class, seen_class = [], {}, {"plain"}
    for i, h in enumerate(histories):
        if i == 0:
            continue
        dets = list(DETECTOR_SITES) if not quick else [DETECTOR_SITES[i % 2]]
        steer, k = False, 0
        while k < len(dets):
            s, m = dets[k]
            k += 1
            case = dict(h, paths=1, sweep="fn", site=s, mode=m)
            res = run_fn_case(case, compute=(i + k) % 11 == 0, accessors="light")
            if res["steer"] and not steer:
                steer = True
                dets += [d for d in DETECTOR_SITES if d not in dets]
            if res.get("skipped"):
                notes["fn_skipped"] += 1
                continue
            notes["fn_cases"] += 1
            ctx.count(("paths-fn", history_class(case), SITES[s][0], m))
            absorb(case, res, "fn")
        hc = history_class(dict(h))
        if steer:
            notes["fn_steered_histories"] += 1
            steered_by_class[hc] = steered_by_class.get(hc, 0) + 1
        # (B) core: the first history of every class, the first steered history of every class, and (thorough) all of them
        if not quick or hc not in seen_class or (steer and steered_by_class[hc] == 1):
            core.append(i)
        seen_class.add(hc)
    notes["fn_detector_seconds"] = round(time.time() - t0, 2)
    extra = [i for i in range(len(histories)) if i not in set(core)]
    rng.shuffle(extra)
    j = 0
    for i in core + extra:
        h = histories[i]
        sites = list(all_sites)
        if i not in core:
            sites = rng.sample(all_sites, 4)
        elif quick:
            rng.shuffle(sites)
            if time.time() - t0 > budget_fn * 0.7:
                sites = sites[:12]
        for s, m in sites:
            if time.time() - t0 > budget_fn:
                break
            case = dict(h, paths=1, sweep="fn", site=s, mode=m)
            j += 1
            res = run_fn_case(case, compute=j % 9 == 0, accessors="full" if quick else "more")
            if res.get("skipped"):
                notes["fn_skipped"] += 1
                continue
            notes["fn_cases"] += 1
            ctx.count(("paths-fn", history_class(case), s, m))
            absorb(case, res, "fn")
            if j % 60 == 0:
                ctx.sample({"case": case, "obs": res["obs"]})
        if time.time() - t0 > budget_fn:
            notes["fn_stopped_on_budget"] = True
            break
    notes["fn_core_histories"] = len(core)
    notes["fn_seconds"] = round(time.time() - t0, 2)

    notes["observations(not failures)"] = obs
    notes["histories"] = len(histories)
    notes["sites×modes"] = len(all_sites)
    notes["entry_variants"] = sum(len(v) for v in E.values())
    ctx.notes["c29_paths"] = notes
    if examples["refusals"] or examples["mismatch"]:
        ctx.extra["c29_paths_examples(refusals / compute differences: other properties' business)"] = examples
    if notes["compute_calls"] == 0 or notes["compute_reads"] == 0:
        raise RuntimeError("c29_paths recorder sanity: no user-function call / no source read observed during compute")
