"""C09 extension — in-place updates of a collection that was MATERIALIZED before (history stream).

A dask_array collection can be updated in place: `x[key] = v` (two code paths: a dask-array key goes through
`where`, every other key through a `SetItem` expression), ufunc / reduction `out=x`, `x.compute_chunk_sizes()`,
the `_chunks` setter.  Each of them swaps the expression of the SAME Array object, whose materialization
(`_lowered_expr`, cached keys) may already exist because somebody computed / persisted / asked for the graph
earlier.  C09 says the values of the collection do not depend on that history.

A case is a SCRIPT over one collection object `x` (plus snapshots derived from it), all plain JSON:

    ["mat", how, target]        materialize `target` ("x" or a snapshot): compute / persist / persist_keep /
                                graph / keys / dask / len_dask / dask_compute / dask_persist / asarray / optimize /
                                lowered / frisky / derived_only ((x+1).compute(): x itself is NOT materialized)
    ["set", key, value]         x[key] = value       key kinds: dask_mask (of x itself / of another array), dask_mask_lower
                                (1-d dask mask on a rank>1 array), np_mask, np_mask_lower, index (ints / slices /
                                Ellipsis / one list), np_int, dask_int;   value kinds: scalar, zerod, np, dask, self
    ["out", spec]               np.<ufunc>(..., out=x)   (unary, binary with scalar, binary from another array, where=)
    ["red_out", spec]           da.sum(big, axis=0, out=x)
    ["chunks_set"]              x._chunks = x.chunks
    ["ccs"]                     x.compute_chunk_sizes()   (x = base[base % m != 0]: unknown chunks)
    ["derive", name, k]         name = x + k   (an immutable snapshot: must keep the value x had THEN)
    ["copy", name]              name = x.copy()
    ["check", target, how]      read `target` (compute / persist / keys: block by block from the graph under the
                                advertised keys / asarray / dask_compute) and compare with the NumPy reference

The oracle is NumPy executing the same script on an ndarray.  When a check disagrees (or a step raises), the TWIN
script — the same steps up to there WITHOUT the materializations and without the earlier checks — is run from clean
registries: a failure is reported only when the twin is right (the result depends on the history).  A script that
is wrong with and without history is not C09's (counted in the notes).  Every case starts from clean registries
and replays from its dict alone.
"""
from __future__ import annotations

import json
import time
import warnings

import numpy as np

from harness import gen, programs
from harness.programs import _dec_index, _enc_index

MATS = ("compute", "persist", "persist_keep", "graph", "keys", "dask", "len_dask", "dask_compute", "dask_persist", "asarray",
        "optimize", "lowered", "frisky", "derived_only")
READS = ("compute", "compute", "persist", "keys", "asarray", "dask_compute")
KEY_KINDS = ("dask_mask", "dask_mask_other", "dask_mask_lower", "np_mask", "np_mask_lower", "index", "index_list", "np_int", "dask_int",
             "ellipsis", "int")
UPDATES = ("set", "out", "red_out", "chunks_set", "ccs")
UFUNC1 = ("negative", "absolute", "square")
UFUNC2 = ("add", "multiply", "maximum", "subtract")


class Invalid(Exception):
    """the NumPy reference itself rejects the step: a generator artefact, the case is dropped"""


# ------------------------------------------------------------------------------------ objects named by the specs

def _arr(shape, off=0, mul=1, mod=1 << 40):
    n = int(np.prod(shape)) if len(shape) else 1
    return ((np.arange(n, dtype=np.int64) * mul + off) % mod).reshape(tuple(shape))


def base_data(case):
    return _arr(case["shape"], case.get("off", 0), case.get("mul", 1), case.get("mod", 1 << 40)).astype(case.get("dtype", "int64"))


def other_data(shape):
    """a second array of x's shape (mask source / ufunc operand)"""
    return _arr(list(shape), 3, 7, 11)


def _chunks(c):
    return tuple(tuple(int(v) for v in d) for d in c)


def make_key(spec, x, r, da, da_mode, case):
    """the key for the dask collection (da_mode) or for the NumPy reference; r is the reference's CURRENT value"""
    k = spec["kind"]
    if k == "dask_mask":
        return (x % spec["mod"] == spec["rem"]) if da_mode else (r % spec["mod"] == spec["rem"])
    if k == "dask_mask_gt":
        return (x > spec["t"]) if da_mode else (r > spec["t"])
    if k == "dask_mask_other":
        m = other_data(r.shape) % spec["mod"] == spec["rem"]
        return da.from_array(m, chunks=_chunks(spec["mchunks"])) if da_mode else m
    if k == "dask_mask_lower":
        m = np.array(spec["bits"], dtype=bool)
        return da.from_array(m, chunks=_chunks(spec["mchunks"])) if da_mode else m
    if k == "np_mask":
        return np.asarray(r % spec["mod"] == spec["rem"])
    if k == "np_mask_lower":
        return np.array(spec["bits"], dtype=bool)
    if k == "index":
        idx = _dec_index(spec["index"])
        return idx[0] if spec.get("bare") and len(idx) == 1 else idx
    if k == "np_int":
        return (slice(None),) * spec["axis"] + (np.array(spec["idx"], dtype=np.int64),)
    if k == "dask_int":
        i = np.array(spec["idx"], dtype=np.int64)
        return da.from_array(i, chunks=_chunks(spec["ichunks"])) if da_mode else i
    raise KeyError(k)


def make_value(spec, x, r, key_np, da, da_mode):
    k = spec["kind"]
    if k == "scalar":
        return spec["v"]
    if k == "zerod":
        return da.from_array(np.array(spec["v"]), chunks=()) if (da_mode and spec.get("dask")) else np.array(spec["v"])
    if k == "np":
        return _arr(spec["shape"], spec.get("off", 0), 5, 17)
    if k == "dask":
        v = _arr(spec["shape"], spec.get("off", 0), 5, 17)
        return da.from_array(v, chunks=_chunks(spec["chunks"])) if da_mode else v
    if k == "self":
        # a value computed from x itself (the node being replaced is also an operand of its replacement)
        return ((x if da_mode else r) * spec["mul"] + 1)[key_np]
    raise KeyError(k)


def update_kind(step):
    """class of an in-place update (used in signatures and counts)"""
    if step[0] == "set":
        k = step[1]["kind"]
        fam = {"dask_mask": "dask-mask", "dask_mask_gt": "dask-mask", "dask_mask_other": "dask-mask", "dask_mask_lower": "dask-mask-lower-rank",
               "np_mask": "numpy-mask", "np_mask_lower": "numpy-mask-lower-rank", "np_int": "numpy-int-array", "dask_int": "dask-int-array"}
        return f"setitem[{fam.get(k, k)}]"
    if step[0] == "out":
        return "ufunc-out" + ("-where" if step[1].get("where_mod") else "")
    return {"red_out": "reduction-out", "chunks_set": "chunks-setter", "ccs": "compute_chunk_sizes"}.get(step[0], step[0])


# ------------------------------------------------------------------------------------ running a script

def clear_state():
    from harness.props_ext import c04_drift

    c04_drift.clear_state()


def materialize(x, how, keep):
    import dask

    if how == "compute":
        x.compute(scheduler="sync")
    elif how == "persist":
        x.persist(scheduler="sync")
    elif how == "persist_keep":
        keep.append(x.persist(scheduler="sync"))
    elif how == "graph":
        x.__dask_graph__()
    elif how == "keys":
        x.__dask_keys__()
    elif how == "dask":
        keep.append(x.dask)
    elif how == "len_dask":
        len(x.dask)
        x.__dask_keys__()
    elif how == "dask_compute":
        dask.compute(x, scheduler="sync")
    elif how == "dask_persist":
        keep.append(dask.persist(x, scheduler="sync"))
    elif how == "asarray":
        with dask.config.set(scheduler="sync"):
            np.asarray(x)
    elif how == "optimize":
        try:
            keep.append(dask.optimize(x))
        except Exception:
            # known C05 family `optimize:raw-unlowered-graph` / `optimize:full-reduction-axiserror`: dask.optimize builds the
            # graph from raw un-lowered nodes and may raise; whatever it cached on the way stays (that is the history)
            pass
    elif how == "lowered":
        x._lowered_expr
    elif how == "frisky":
        x.__dask_keys__()
        try:
            x.__frisky_output_keys__()
        except NotImplementedError:
            x.__dask_graph__()
    elif how == "derived_only":
        (x + 1).compute(scheduler="sync")
    elif how == "none":
        pass
    else:
        raise KeyError(how)


def read(x, how):
    import dask

    if how == "compute":
        return x.compute(scheduler="sync")
    if how == "persist":
        return x.persist(scheduler="sync").compute(scheduler="sync")
    if how == "keys":
        from harness.props_ext import c04_drift

        with dask.config.set(scheduler="sync"):
            return c04_drift.keys_value(x)[0]
    if how == "asarray":
        with dask.config.set(scheduler="sync"):
            return np.asarray(x)
    if how == "dask_compute":
        return dask.compute(x, scheduler="sync")[0]
    raise KeyError(how)


def same(got, want):
    try:
        got, want = np.asarray(got), np.asarray(want)
    except Exception:
        return False
    if got.dtype == object or got.shape != want.shape:
        return False
    if want.dtype.kind == "f" or got.dtype.kind == "f":
        return bool(np.allclose(got, want, rtol=1e-12, atol=0, equal_nan=True))
    return bool(np.array_equal(got, want))


def show(v):
    try:
        return repr(np.asarray(v).tolist())[:200]
    except Exception:
        return repr(v)[:200]


def build_x(case, da):
    """(x, reference): the collection under test, never looked at"""
    data = base_data(case)
    x = da.from_array(data, chunks=_chunks(case["chunks"]))
    r = data.copy()
    pre = case.get("pre")
    if pre == "affine":
        x, r = x * 2 + 1, r * 2 + 1
    elif pre == "rechunk":
        x = x.rechunk(_chunks(case["pre_chunks"]))
    elif pre == "transpose":
        x, r = x.T, r.T.copy()
    elif pre == "add_other":
        x, r = x + da.from_array(other_data(r.shape), chunks=_chunks(case["pre_chunks"])), r + other_data(r.shape)
    elif pre == "boolsel":
        x, r = x[x % case["pre_mod"] != 0], r[r % case["pre_mod"] != 0]
    return x, r


def execute(case, steps=None):
    """Run the script on the real code and on NumPy in lockstep, from clean registries.
    Returns the FIRST problem as a dict {"step", "kind": "mismatch"|"raises", ...} or None.
    Raises Invalid when NumPy itself rejects a step."""
    import dask_array as da

    steps = case["script"] if steps is None else steps
    clear_state()
    keep = []
    with warnings.catch_warnings():
        warnings.simplefilter("ignore")
        x, r = build_x(case, da)
        snaps, refs = {}, {}
        for si, st in enumerate(steps):
            op = st[0]
            try:
                if op == "mat":
                    tgt = x if st[2] == "x" else snaps.get(st[2])
                    if tgt is not None:
                        materialize(tgt, st[1], keep)
                elif op == "set":
                    try:
                        knp = make_key(st[1], None, r, None, False, case)
                        vnp = make_value(st[2], None, r, knp, None, False)
                        r2 = r.copy()
                        r2[knp] = vnp
                    except Exception as e:
                        raise Invalid(f"step {si}: NumPy rejects the assignment: {type(e).__name__}: {e}")
                    kda = make_key(st[1], x, r, da, True, case)
                    vda = make_value(st[2], x, r, kda if st[2]["kind"] == "self" else None, da, True)
                    x[kda] = vda
                    r = r2
                elif op == "out":
                    sp = st[1]
                    w_np = other_data(r.shape)
                    kw_np, kw_da = {}, {}
                    if sp.get("where_mod"):
                        kw_np["where"] = w_np % sp["where_mod"] == 0
                        kw_da["where"] = da.from_array(w_np, chunks=x.chunks) % sp["where_mod"] == 0
                    r2 = r.copy()
                    if sp["fn"] in UFUNC1:
                        getattr(np, sp["fn"])(r, out=r2, **kw_np)
                        getattr(np, sp["fn"])(x, out=x, **kw_da)
                    elif sp.get("from") == "other":
                        getattr(np, sp["fn"])(w_np, sp["k"], out=r2, **kw_np)
                        getattr(np, sp["fn"])(da.from_array(w_np, chunks=x.chunks), sp["k"], out=x, **kw_da)
                    else:
                        getattr(np, sp["fn"])(r, sp["k"], out=r2, **kw_np)
                        getattr(np, sp["fn"])(x, sp["k"], out=x, **kw_da)
                    r = r2
                elif op == "red_out":
                    big = _arr([st[1]["n"]] + list(r.shape), st[1].get("off", 0), 3, 13)
                    bda = da.from_array(big, chunks=(tuple(st[1]["bchunks"]),) + x.chunks)
                    da.sum(bda, axis=0, out=x)
                    r = big.sum(axis=0).astype(r.dtype)
                elif op == "chunks_set":
                    x._chunks = x.chunks
                elif op == "ccs":
                    x.compute_chunk_sizes()
                elif op == "derive":
                    snaps[st[1]] = x + st[2]
                    refs[st[1]] = r + st[2]
                elif op == "copy":
                    snaps[st[1]] = x.copy()
                    refs[st[1]] = r.copy()
                elif op == "check":
                    tgt, want = (x, r) if st[1] == "x" else (snaps.get(st[1]), refs.get(st[1]))
                    if tgt is None:
                        continue
                    got = read(tgt, st[2])
                    if not same(got, want):
                        return {"step": si, "kind": "mismatch", "target": st[1], "how": st[2], "got": show(got), "want": show(want)}
                else:
                    raise KeyError(op)
            except Invalid:
                raise
            except NotImplementedError as e:
                return {"step": si, "kind": "refused", "exc": "NotImplementedError", "msg": str(e)[:160]}
            except Exception as e:  # noqa: BLE001
                return {"step": si, "kind": "raises", "exc": type(e).__name__, "msg": f"{type(e).__name__}: {str(e)[:200]}"}
    return None


def twin_steps(steps, upto):
    """the same script up to step `upto` without the materializations and without the earlier reads"""
    return [st for i, st in enumerate(steps[: upto + 1]) if st[0] != "mat" and (st[0] != "check" or i == upto)]


def last_update(steps, upto):
    for st in reversed(steps[: upto + 1]):
        if st[0] in UPDATES:
            return update_kind(st)
    return "no-update"


def judge(case):
    """(signature, detail) when the script's result depends on the materialization history; ("", note) when it is wrong
    with and without the history (not C09's); None when everything agrees with NumPy."""
    try:
        p = execute(case)
    except Invalid:
        return None
    if p is None or p["kind"] == "refused":
        return None
    steps = case["script"]
    if steps[p["step"]][0] == "mat":
        # a materialization itself raises: not a statement about values after a history
        return "", f"materialization raises: {json.dumps(p)[:300]}"
    try:
        q = execute(case, twin_steps(steps, p["step"]))
    except Invalid:
        return None
    if q is not None and q["kind"] == p["kind"] and (p["kind"] != "raises" or q.get("exc") == p.get("exc")):
        return "", f"{p['kind']} with and without materialization history: {json.dumps(p)[:300]}"
    upd = last_update(steps, p["step"])
    if p["kind"] == "raises" and p["exc"] == "AdvertisedKeysError":
        sig = f"inplace-history:{upd}:stale-keys"
        detail = (f"step {p['step']} {steps[p['step']]}: {p['msg']} (keys and graph of the collection disagree after the in-place update); "
                  f"the same script without the earlier materializations is fine")
    elif p["kind"] == "mismatch":
        sig = f"inplace-history:{upd}:stale-value"
        detail = (f"step {p['step']} {steps[p['step']]}: reading {p['target']} ({p['how']}) gives {p['got']}, NumPy says {p['want']}; "
                  f"the same script without the earlier materializations gives the NumPy value")
    else:
        sig = f"inplace-history:{upd}:raises:{p['exc']}"
        detail = f"step {p['step']} {steps[p['step']]} raises {p['msg']}; the same script without the earlier materializations does not"
    return sig, detail


def shrink(case, sig):
    def still(c):
        try:
            j = judge(c)
        except Exception:
            return False
        return j is not None and j[0] == sig

    cur = json.loads(json.dumps(case))
    changed = True
    while changed:
        changed = False
        for k in range(len(cur["script"]) - 1, -1, -1):
            c = dict(cur, script=cur["script"][:k] + cur["script"][k + 1:])
            if c["script"] and still(c):
                cur = c
                changed = True
    if cur.get("pre") and cur["pre"] != "boolsel":
        c = dict(cur, pre=None)
        if still(c):
            cur = c
    return cur


# ------------------------------------------------------------------------------------ generation

def _rand_mask_bits(rng, n):
    bits = [int(rng.random() < 0.5) for _ in range(n)]
    if not any(bits):
        bits[rng.randrange(n)] = 1
    return bits


def gen_key(rng, kind, r, case):
    """a key spec of the given kind valid for the reference value r (None when the kind does not apply)"""
    shape = r.shape
    nd = r.ndim
    if kind == "dask_mask":
        if r.dtype.kind == "f":
            return {"kind": "dask_mask_gt", "t": float(np.median(r))}
        return {"kind": "dask_mask", "mod": rng.randint(2, 4), "rem": rng.randint(0, 1)}
    if case.get("pre") == "boolsel" and not case.get("_sized"):
        return None  # unknown chunks: only masks of x itself
    if kind == "dask_mask_other":
        return {"kind": "dask_mask_other", "mod": rng.randint(2, 4), "rem": rng.randint(0, 1),
                "mchunks": [list(c) for c in programs.rand_chunks_nd(rng, shape)]}
    if kind in ("dask_mask_lower", "np_mask_lower"):
        if nd < 2 and kind == "dask_mask_lower":
            return None
        sp = {"kind": kind, "bits": _rand_mask_bits(rng, shape[0])}
        if kind == "dask_mask_lower":
            sp["mchunks"] = [list(gen.rand_chunks(rng, shape[0]))]
        return sp
    if kind == "np_mask":
        return {"kind": "np_mask", "mod": rng.randint(2, 4), "rem": rng.randint(0, 1)}
    if kind == "index":
        idx = programs.rand_basic_index(rng, shape, allow_none=False, allow_neg_step=rng.random() < 0.3)
        return {"kind": "index", "index": _enc_index(idx)}
    if kind == "index_list":
        ax = rng.randrange(nd)
        n = shape[ax]
        lst = rng.sample(range(n), rng.randint(1, n))
        if rng.random() < 0.6:
            lst.sort()
        idx = [slice(None)] * ax + [lst] + ([slice(None)] * (nd - ax - 1) if rng.random() < 0.6 else [])
        return {"kind": "index", "index": _enc_index(idx), "bare": nd == 1 and rng.random() < 0.5}
    if kind == "np_int":
        ax = rng.randrange(nd)
        n = shape[ax]
        return {"kind": "np_int", "axis": ax, "idx": sorted(rng.sample(range(n), rng.randint(1, n)))}
    if kind == "dask_int":
        n = shape[0]
        idx = sorted(rng.sample(range(n), rng.randint(1, n)))
        return {"kind": "dask_int", "idx": idx, "ichunks": [list(gen.rand_chunks(rng, len(idx)))]}
    if kind == "ellipsis":
        return {"kind": "index", "index": _enc_index((Ellipsis,) if rng.random() < 0.5 else (slice(None),)), "bare": rng.random() < 0.5}
    if kind == "int":
        return {"kind": "index", "index": _enc_index((rng.randint(-shape[0], shape[0] - 1),)), "bare": rng.random() < 0.5}
    raise KeyError(kind)


def gen_value(rng, key_spec, r, case):
    try:
        knp = make_key(key_spec, None, r, None, False, case)
        tshape = r[knp].shape
    except Exception:
        return None
    masky = key_spec["kind"] in ("dask_mask", "dask_mask_gt", "dask_mask_other", "np_mask")
    c = rng.random()
    if masky or c < 0.4 or not tshape:
        if rng.random() < 0.25:
            return {"kind": "zerod", "v": rng.randint(-9, 9), "dask": rng.random() < 0.5}
        return {"kind": "scalar", "v": rng.randint(-9, 9)}
    # broadcastable shapes: the full target shape, its trailing part, or ones
    opts = [list(tshape), list(tshape[1:]), [1] * len(tshape)]
    shape = rng.choice([o for o in opts if all(d > 0 for d in o)] or [[]])
    if not shape or 0 in tshape:
        return {"kind": "scalar", "v": rng.randint(-9, 9)}
    if c < 0.6:
        return {"kind": "np", "shape": shape, "off": rng.randint(0, 9)}
    if c < 0.85:
        return {"kind": "dask", "shape": shape, "off": rng.randint(0, 9), "chunks": [list(ch) for ch in programs.rand_chunks_nd(rng, shape)]}
    if key_spec["kind"] == "index":
        return {"kind": "self", "mul": rng.randint(2, 3)}
    return {"kind": "scalar", "v": rng.randint(-9, 9)}


def gen_update(rng, r, case, kind=None, key_kind=None):
    """one in-place update step valid for the reference value r (None: not applicable)"""
    unsized = case.get("pre") == "boolsel" and not case.get("_sized")
    kind = kind or rng.choice(["set"] * 6 + ["out", "out", "red_out", "chunks_set"])
    if kind == "ccs":
        return ["ccs"] if unsized else None
    if kind == "set":
        kk = key_kind or rng.choice(KEY_KINDS)
        ks = gen_key(rng, kk, r, case)
        if ks is None:
            return None
        vs = gen_value(rng, ks, r, case)
        if vs is None:
            return None
        return ["set", ks, vs]
    if unsized:
        return None
    if kind == "out":
        c = rng.random()
        if c < 0.3:
            sp = {"fn": rng.choice(UFUNC1)}
        else:
            sp = {"fn": rng.choice(UFUNC2), "k": rng.randint(1, 5), "from": rng.choice(["self", "other"])}
        if rng.random() < 0.25:
            sp["where_mod"] = rng.randint(2, 3)
        return ["out", sp]
    if kind == "red_out":
        n = rng.randint(2, 4)
        return ["red_out", {"n": n, "off": rng.randint(0, 5), "bchunks": list(gen.rand_chunks(rng, n))}]
    if kind == "chunks_set":
        return ["chunks_set"]
    raise KeyError(kind)


def apply_ref(st, r, case):
    """the NumPy reference after an update step (Invalid when NumPy rejects it)"""
    try:
        if st[0] == "set":
            k = make_key(st[1], None, r, None, False, case)
            v = make_value(st[2], None, r, k, None, False)
            r = r.copy()
            r[k] = v
            return r
        if st[0] == "out":
            sp = st[1]
            w = other_data(r.shape)
            kw = {"where": w % sp["where_mod"] == 0} if sp.get("where_mod") else {}
            r2 = r.copy()
            if sp["fn"] in UFUNC1:
                getattr(np, sp["fn"])(r, out=r2, **kw)
            elif sp.get("from") == "other":
                getattr(np, sp["fn"])(w, sp["k"], out=r2, **kw)
            else:
                getattr(np, sp["fn"])(r, sp["k"], out=r2, **kw)
            return r2
        if st[0] == "red_out":
            return _arr([st[1]["n"]] + list(r.shape), st[1].get("off", 0), 3, 13).sum(axis=0).astype(r.dtype)
    except Exception as e:
        raise Invalid(str(e))
    return r


def gen_case(rng, mat=None, update=None, key_kind=None, unsized=False):
    """One script: [snapshot] -> materialize -> update -> read, then (half of the time) further rounds."""
    nd = 1 if unsized else rng.choice([1, 2, 2, 3])
    shape = [rng.randint(2, 6) for _ in range(nd)] if not unsized else [rng.randint(4, 9)]
    if key_kind == "dask_mask_lower" and nd < 2:
        nd, shape = 2, [rng.randint(2, 6), rng.randint(2, 4)]
    case = {"kind": "inplace", "shape": shape, "chunks": [list(c) for c in programs.rand_chunks_nd(rng, shape)],
            "mul": rng.choice([1, 3, 7]), "off": rng.randint(-5, 5), "mod": rng.choice([1 << 20, 11, 5]),
            "dtype": "float64" if rng.random() < 0.15 else "int64"}
    if unsized:
        case.update(pre="boolsel", pre_mod=rng.randint(2, 4), dtype="int64")
    else:
        pre = rng.choice([None, None, "affine", "rechunk", "transpose", "add_other"])
        if pre == "transpose" and nd != 2:
            pre = "affine"
        case["pre"] = pre
        if pre in ("rechunk", "add_other"):
            case["pre_chunks"] = [list(c) for c in programs.rand_chunks_nd(rng, shape)]
        if pre == "transpose":
            pass
    data = base_data(case)
    r = data.copy()
    if case.get("pre") == "affine":
        r = r * 2 + 1
    elif case.get("pre") == "transpose":
        r = r.T.copy()
    elif case.get("pre") == "add_other":
        r = r + other_data(r.shape)
    elif case.get("pre") == "boolsel":
        r = r[r % case["pre_mod"] != 0]
        if r.size < 2:
            return None
    script = []
    nsnap = 0
    rounds = 1 if rng.random() < 0.5 else rng.randint(2, 3)
    for rd in range(rounds):
        if rng.random() < 0.3 and not (unsized and not case.get("_sized")):
            nsnap += 1
            script.append(["derive", f"y{nsnap}", rng.randint(1, 5)] if rng.random() < 0.6 else ["copy", f"y{nsnap}"])
            if rng.random() < 0.4:
                script.append(["mat", rng.choice(MATS[:6]), f"y{nsnap}"])
        how = (mat if rd == 0 and mat else rng.choice(MATS))
        script.append(["mat", how, "x"])
        if rng.random() < 0.15:
            script.append(["mat", rng.choice(MATS), "x"])
        st = None
        for _ in range(8):
            if rd == 0 and unsized and update == "ccs":
                st = ["ccs"]
            else:
                st = gen_update(rng, r, case, kind=(update if rd == 0 else None), key_kind=(key_kind if rd == 0 else None))
            if st is None:
                if rd == 0 and (update or key_kind):
                    continue
                st = gen_update(rng, r, case, kind="set", key_kind="dask_mask")
            try:
                r = apply_ref(st, r, case)
                break
            except Invalid:
                st = None
        if st is None:
            return None
        script.append(st)
        if st[0] == "ccs":
            case["_sized"] = True
        if rng.random() < 0.2:
            # two updates in a row, nothing reads in between
            st2 = gen_update(rng, r, case)
            if st2 is not None:
                try:
                    r = apply_ref(st2, r, case)
                    script.append(st2)
                except Invalid:
                    pass
        script.append(["check", "x", rng.choice(READS)])
        if nsnap and rng.random() < 0.6:
            script.append(["check", f"y{rng.randint(1, nsnap)}", rng.choice(READS)])
    case.pop("_sized", None)
    case["script"] = script
    return case


def grid(rng):
    """Systematic part of every run: every key kind after a compute and after one other materialization; every
    materialization kind before a dask-mask assignment; every other update kind after compute / persist / graph."""
    specs = []
    others = [m for m in MATS if m != "compute"]
    for i, kk in enumerate(KEY_KINDS):
        specs.append(dict(mat="compute", update="set", key_kind=kk))
        specs.append(dict(mat=others[(i + rng.randrange(len(others))) % len(others)], update="set", key_kind=kk))
    for m in MATS:
        specs.append(dict(mat=m, update="set", key_kind="dask_mask"))
        specs.append(dict(mat=m, update="set", key_kind=rng.choice(["index", "np_mask", "dask_mask_lower", "dask_mask_other", "dask_int"])))
    for u in ("out", "red_out", "chunks_set"):
        for m in ("compute", "persist_keep", "graph", rng.choice(MATS)):
            specs.append(dict(mat=m, update=u))
    for m in ("compute", "graph", "keys", rng.choice(MATS)):
        specs.append(dict(mat=m, update="ccs", unsized=True))
        specs.append(dict(mat=m, update="set", key_kind="dask_mask", unsized=True))
    return specs


def run_stream(ctx, n_random, budget):
    """the stream of C09: grid + random scripts; failures are shrunk and reported with ctx.fail"""
    rng = ctx.rng
    t0 = time.time()
    specs = grid(rng) + [{} for _ in range(n_random)]
    done = refused = 0
    seen = set()
    for sp in specs:
        if time.time() - t0 > budget:
            ctx.notes["inplace_stopped_early_at"] = done
            break
        case = None
        for _ in range(6):
            case = gen_case(rng, **sp)
            if case is not None:
                break
        if case is None:
            continue
        try:
            j = judge(case)
        except Exception as e:  # noqa: BLE001  (harness trouble is not a verdict)
            ctx.notes["inplace_harness_errors"] = ctx.notes.get("inplace_harness_errors", 0) + 1
            ctx.notes["inplace_harness_last_error"] = f"{type(e).__name__}: {str(e)[:160]}"
            continue
        done += 1
        ups = tuple(update_kind(st) for st in case["script"] if st[0] in UPDATES)
        mats = tuple(st[1] for st in case["script"] if st[0] == "mat" and st[2] == "x")
        ctx.count(("inplace", ups[:1], mats[:1], len(ups)))
        if done <= 2:
            ctx.sample({"kind": "inplace", "pre": case.get("pre"), "script": case["script"][:8]})
        if j is None:
            continue
        sig, detail = j
        if not sig:
            ctx.notes["inplace_wrong_without_history(not this property)"] = ctx.notes.get("inplace_wrong_without_history(not this property)", 0) + 1
            ctx.notes.setdefault("inplace_wrong_without_history_sample", {"case": case, "detail": detail})
            continue
        if sig in seen:
            continue
        seen.add(sig)
        small = case
        try:
            small = shrink(case, sig)
            j2 = judge(small)
            if j2 and j2[0] == sig:
                detail = j2[1]
        except Exception:
            small = case
        ctx.fail(sig, small, detail)
    ctx.notes["inplace_scripts"] = done
    return done


def replay(ctx, case):
    j = judge(case)
    if j and j[0]:
        ctx.fail(j[0], case, j[1])
