"""C21 / C22 — the public-API catalogue through the records path, and the reference audit of flat records.

(1) `ref_audit(records)`: what a Frisky worker relies on, checked per record WITHOUT Python equality of key tuples (remember
    ('x', np.int64(0)) == ('x', 0) and hash equal, while str() of the two differs):
      * every TaskRef embedded anywhere in the arguments / keyword arguments (nested lists / tuples / dict values; a fused task's
        inner subgraph, output key and input labels are data) has a key of CANONICAL types: `str` names, plain `int`
        coordinates — no np.integer / np.str_ / np.bool_ / bool;
      * the set of str(key) of the embedded references equals the record's declared deps (a reference outside the deps is
        not resolved by the worker, a declared dep that is never referenced is a spurious edge);
      * produced key strings and dep strings carry no NumPy scalar repr ("np.int64(0)").
    Called by harness.props.C21.exec_records (every stream of C21 and C22 that executes records) and by
    harness.props_ext.c21_nested.layer_fidelity (per lowered node, C22).

(2) the catalogue: every entry of the 435-entry table of Array methods / da functions of harness.props_ext.c03_layout
    (imported read-only; the ufunc entries are sampled) PLUS the entries below that feed NumPy-typed arguments (np.int64 indices,
    axes, offsets, depths, block numbers, chunk sizes; index ARRAYS of every integer dtype) to the layers that go through the
    generic adapter: diag / diagonal (2-d, 3-d, offsets, ragged, non-square), vindex (lists, arrays, negative, broadcast, with
    slices, 1-3 d), tril / triu, take / getitem with NumPy ints, blocks / partitions with np.int64, overlap layers, tsqr / qr /
    svd, arg-reductions, bincount, histogram, searchsorted, random choice / permutation, shuffle.  A case is
    {kind: "catalog", name, profile, dt, pre, optimize}: built by `build_catalog`, run by harness.props.C21.run_case (records ~
    dask graph block by block ~ NumPy; several outputs of one entry are walked as a group with a shared `seen`).
"""
from __future__ import annotations

import re
import warnings

import numpy as np

# ------------------------------------------------------------------------------------------ (1) reference audit

_NP_REPR = re.compile(r"\bnp\.[A-Za-z_0-9]+\(")


def _bad_component(c):
    """why a key component is not canonical, or None"""
    if isinstance(c, (bool, np.bool_)):
        return type(c).__name__
    if isinstance(c, np.generic):
        return "np." + type(c).__name__
    if isinstance(c, str) and type(c) is not str:
        return type(c).__name__
    if isinstance(c, tuple):
        for x in c:
            b = _bad_component(x)
            if b:
                return b
    return None


def key_problem(k):
    """why a key object (str or tuple) is not of canonical types, or None"""
    if isinstance(k, tuple):
        for c in k:
            b = _bad_component(c)
            if b:
                return b
        return None
    return _bad_component(k)


def embedded_refs(args, func=None, top=False, out=None):
    """the TaskRef objects embedded anywhere in a record's arguments (lists / tuples / dict values / leftover Task objects)"""
    from dask._task_spec import Task, TaskRef, _execute_subgraph

    out = [] if out is None else out
    a = args
    if top and func is _execute_subgraph and isinstance(a, (list, tuple)) and len(a) >= 3:
        a = a[3:]  # inner subgraph, output key, input labels: data
    if isinstance(a, TaskRef):
        out.append(a)
    elif isinstance(a, (list, tuple)):
        for x in a:
            embedded_refs(x, out=out)
    elif isinstance(a, dict):
        for x in a.values():
            embedded_refs(x, out=out)
    elif isinstance(a, Task):
        embedded_refs(tuple(a.args), a.func, top=True, out=out)
        embedded_refs(dict(a.kwargs or {}), out=out)
    return out


def ref_audit(records, produced=None):
    """[(kind, detail)] over flat records; `produced` (set of key strings, None = do not check) is where references must land"""
    out = []
    seen_kinds = set()

    def add(kind, detail):
        if kind not in seen_kinds:
            seen_kinds.add(kind)
            out.append((kind, detail))

    for r in records:
        if len(r) != 5:
            continue
        key, func, args, kwargs, deps = r
        if not isinstance(key, str) or type(key) is not str:
            add("record-key-not-a-plain-str", f"record key {key!r} is a {type(key).__name__}")
        elif _NP_REPR.search(key):
            add("key-string-not-canonical", f"record key {key} carries a NumPy scalar repr")
        for d in deps:
            if type(d) is not str:
                add("dep-not-a-plain-str", f"record {key}: dep {d!r} is a {type(d).__name__}")
            elif _NP_REPR.search(d):
                add("key-string-not-canonical", f"record {key}: dep {d} carries a NumPy scalar repr")
        refs = embedded_refs(tuple(args), func, top=True) + embedded_refs(dict(kwargs or {}))
        strs = set()
        n_bad = 0
        for t in refs:
            k = t.key
            bad = key_problem(k)
            s = k if isinstance(k, str) else str(k)
            strs.add(str(s))
            if bad:
                n_bad += 1
                add("embedded-ref-key-not-canonical",
                    f"record {key}: embedded TaskRef key {s} has a {bad} component (a worker resolves references by str(key); declared deps {list(deps)[:3]})")
        declared = set(deps)
        if n_bad:
            continue  # reported above with the key; the two set differences below would only repeat it
        if strs - declared:
            add("reference-not-declared", f"record {key} uses {sorted(strs - declared)[0]} which is not in its deps {sorted(declared)[:3]}")
        if declared - strs:
            add("declared-dependency-not-referenced", f"record {key} declares {sorted(declared - strs)[0]} and no embedded reference has that key string")
        if produced is not None and strs - produced:
            add("reference-to-unproduced-key", f"record {key} references {sorted(strs - produced)[0]} which no record produces")
    return out


# ------------------------------------------------------------------------------------------ (2) catalogue

def _ix(dtype, vals):
    return np.asarray(vals, dtype=dtype)


def _extra_entries():
    """name -> (ranks, fn(c: M) -> result, options); same convention as harness.props_ext.c03_layout._entries.
    NumPy-typed arguments on purpose: the package's layers then carry np.integer block coordinates."""
    I = np.int64
    T = {}

    def E(name, fn, ranks=(1, 2, 3), **opt):
        T["x." + name] = (ranks, fn, opt)

    def vx(c, *idx):
        return c.x.vindex[idx] if c.da else c.x[idx]

    # ---- diag / diagonal
    for k in (0, 1, -1, 2, -3):
        E(f"diag2d:k={k}", lambda c, k=k: c.m.diag(c.x, k=k), ranks=(2,))
        E(f"diag2d:k=np{k}", lambda c, k=k: c.m.diag(c.x, k=I(k)) if c.da else np.diag(c.x, k=k), ranks=(2,))
        E(f"diagonal:offset={k}", lambda c, k=k: c.m.diagonal(c.x, offset=k), ranks=(2, 3))
    E("diag2d:T", lambda c: c.m.diag(c.x.T), ranks=(2,))
    E("diag2d:of-elemwise", lambda c: c.m.diag(c.x * 2 + c.y, k=1), ranks=(2,))
    E("diag2d:square-cut", lambda c: c.m.diag(c.x[:5, :5]), ranks=(2,))
    E("diag2d:square-rechunk", lambda c: c.m.diag(c.x[:4, :4].rechunk(2) if c.da else c.x[:4, :4]), ranks=(2,))
    E("diag:1d-of-2d", lambda c: c.m.diag(c.m.diag(c.x)), ranks=(2,))
    E("diag1d:np-k", lambda c: c.m.diag(c.x, k=I(1)) if c.da else np.diag(c.x, k=1), ranks=(1,))
    E("diagonal:axes", lambda c: c.m.diagonal(c.x, offset=-1, axis1=1, axis2=0), ranks=(2, 3))
    E("diagonal:axes-3d", lambda c: c.m.diagonal(c.x, offset=1, axis1=0, axis2=2), ranks=(3,))
    E("diagonal:np-args", lambda c: c.m.diagonal(c.x, offset=I(1), axis1=I(0), axis2=I(1)) if c.da else np.diagonal(c.x, 1, 0, 1), ranks=(2, 3))
    E("Array.diagonal", lambda c: c.x.diagonal() if hasattr(c.x, "diagonal") else c.m.diagonal(c.x), ranks=(2, 3))
    E("trace:offset", lambda c: c.m.trace(c.x, offset=-1), ranks=(2, 3))
    E("trace:np-offset", lambda c: c.m.trace(c.x, offset=I(1)) if c.da else np.trace(c.x, offset=1), ranks=(2, 3))
    # ---- vindex (all forms)
    E("vindex:lists", lambda c: vx(c, [0, 1, 3, 2], [1, 2, 3, 0]), ranks=(2,))
    E("vindex:arrays", lambda c: vx(c, _ix("i8", [0, 1, 3, 2]), _ix("i8", [1, 2, 3, 0])), ranks=(2,))
    E("vindex:int32", lambda c: vx(c, _ix("i4", [3, 1, 0]), _ix("i4", [3, 0, 2])), ranks=(2,))
    E("vindex:uint8", lambda c: vx(c, _ix("u1", [3, 1, 0]), _ix("u1", [3, 0, 2])), ranks=(2,))
    E("vindex:negative", lambda c: vx(c, [-1, 0, -3], [-2, 3, 0]), ranks=(2,))
    E("vindex:repeat", lambda c: vx(c, [2, 2, 2, 0], [1, 1, 1, 3]), ranks=(2,))
    E("vindex:one-block", lambda c: vx(c, [0, 1], [0, 1]), ranks=(2,))
    E("vindex:broadcast", lambda c: vx(c, _ix("i8", [[0], [3]]), _ix("i8", [[1, 3, 2]])), ranks=(2,))
    E("vindex:scalar+list", lambda c: vx(c, 1, [0, 3, 2]), ranks=(2,))
    E("vindex:npscalar+list", lambda c: vx(c, I(2), [0, 3, 2]), ranks=(2,))
    E("vindex:slice-first", lambda c: vx(c, slice(None), [0, 3, 2]), ranks=(2,))
    E("vindex:slice-last", lambda c: vx(c, [0, 3, 2], slice(1, None)), ranks=(2,))
    E("vindex:1d", lambda c: vx(c, _ix("i8", [2, 0, 3, 3])), ranks=(1,))
    E("vindex:first-axis", lambda c: vx(c, [3, 0, 1]), ranks=(2, 3))
    E("vindex:3d-outer", lambda c: vx(c, [0, 3, 1], slice(None), [1, 3, 2]), ranks=(3,))
    E("vindex:3d-lead", lambda c: vx(c, [0, 3, 1], [1, 3, 2]), ranks=(3,))
    E("vindex:3d-all", lambda c: vx(c, [0, 3, 1], [1, 3, 2], [3, 0, 2]), ranks=(3,))
    E("vindex:of-elemwise", lambda c: ((c.x + c.y).vindex[[0, 3], [3, 1]] if c.da else (c.x + c.y)[[0, 3], [3, 1]]), ranks=(2,))
    E("vindex:then-sum", lambda c: vx(c, [0, 1, 3, 2], [1, 2, 3, 0]).sum(), ranks=(2,))
    # ---- tril / triu
    for k in (-2, 0, 1, 3):
        E(f"tril:k={k}", lambda c, k=k: c.m.tril(c.x, k=k), ranks=(2, 3))
        E(f"triu:k={k}", lambda c, k=k: c.m.triu(c.x, k=k), ranks=(2, 3))
    E("tril:np-k", lambda c: c.m.tril(c.x, k=I(1)) if c.da else np.tril(c.x, 1), ranks=(2,))
    E("triu:square", lambda c: c.m.triu(c.x[:5, :5].rechunk(2) if c.da else c.x[:5, :5]), ranks=(2,))
    # ---- take / getitem with NumPy ints
    E("take:np-array", lambda c: c.m.take(c.x, _ix("i8", [3, 0, 2, 2]), axis=0))
    E("take:np-array-i4-last", lambda c: c.m.take(c.x, _ix("i4", [1, 1, 0, 3]), axis=-1))
    E("take:np-axis", lambda c: c.m.take(c.x, [3, 0, 2], axis=I(0)) if c.da else np.take(c.x, [3, 0, 2], axis=0))
    E("take:sorted", lambda c: c.m.take(c.x, _ix("i8", [0, 1, 3]), axis=0))
    E("getitem:np-array", lambda c: c.x[_ix("i8", [2, 0, 1, 1])])
    E("getitem:np-array-last", lambda c: c.x[..., _ix("u2", [2, 0, 1, 1])], ranks=(2, 3))
    E("getitem:np-int", lambda c: c.x[I(1)])
    E("getitem:np-int-last", lambda c: c.x[..., I(-2)], ranks=(2, 3))
    E("getitem:np-slice", lambda c: c.x[I(1):I(4):I(2)])
    E("getitem:np-int+list", lambda c: c.x[I(1), [2, 0]], ranks=(2, 3))
    E("getitem:bool-np", lambda c: c.x[_ix("?", [True, False, True, True] + [False] * (c.x.shape[0] - 4))])
    E("getitem:outer-lists", lambda c: c.x[[2, 0]][:, [1, 3, 0]], ranks=(2, 3))
    # ---- blocks / partitions
    E("blocks:np-int", lambda c: c.x.blocks[I(1)] if c.da else c.x[_slc(c, (1,))])
    E("blocks:np-ints", lambda c: c.x.blocks[I(1), I(0)] if c.da else c.x[_slc(c, (1, 0))], ranks=(2, 3))
    E("blocks:np-array", lambda c: (c.x.blocks[_ix("i8", [1, 0])] if c.da else np.concatenate([c.x[_slc(c, (1,))], c.x[_slc(c, (0,))]], axis=0)))
    E("blocks:np-slice", lambda c: c.x.blocks[I(1):] if c.da else c.x[_slc(c, (slice(1, None),))])
    E("partitions:np-int", lambda c: c.x.partitions[I(0)] if c.da else c.x[_slc(c, (0,))])
    # ---- overlap layers
    for b in ("reflect", "periodic", "nearest", "none", 7):
        E(f"map_overlap:{b}", lambda c, b=b: c.x.map_overlap(_ident, depth=1, boundary=b, dtype=c.x.dtype) if c.da else c.x)
    E("map_overlap:np-depth", lambda c: c.x.map_overlap(_ident, depth=I(1), boundary="reflect", dtype=c.x.dtype) if c.da else c.x)
    E("map_overlap:dict-depth", lambda c: c.x.map_overlap(_ident, depth={0: I(1), c.nd - 1: 1}, boundary="periodic", dtype=c.x.dtype) if c.da else c.x)
    E("map_overlap:asym", lambda c: c.x.map_overlap(_ident, depth={0: (1, 0)}, boundary="none", dtype=c.x.dtype) if c.da else c.x)
    E("map_overlap:two", lambda c: c.m.map_overlap(np.add, c.x, c.x * 2, depth=1, boundary="reflect", dtype=c.x.dtype) if c.da else c.x * 3)
    E("overlap:periodic", lambda c: c.m.overlap(c.x, depth=1, boundary="periodic") if c.da else None, values=False)
    E("overlap:np-depth", lambda c: c.m.overlap(c.x, depth={0: I(1)}, boundary={0: "nearest"}) if c.da else None, values=False)
    E("sliding_window:np", lambda c: (c.m.sliding_window_view(c.x, I(2), axis=I(0)) if c.da else np.lib.stride_tricks.sliding_window_view(c.x, 2, axis=0)))
    E("push:limit", lambda c: c.m.push(c.x, 1, 0) if c.da else c.x)
    # ---- tsqr / qr / svd
    E("tsqr:svd", lambda c: tuple(c.m.linalg.tsqr(c.x.rechunk({1: -1}), compute_svd=True)) if c.da else None, ranks=(2,), values=False)
    E("qr:short-fat", lambda c: tuple(c.m.linalg.qr(c.x.rechunk({0: -1}))) if c.da else None, ranks=(2,), values=False)
    E("svd:T", lambda c: tuple(c.m.linalg.svd(c.x.T.rechunk({0: -1}))) if c.da else None, ranks=(2,), values=False)
    E("svd_compressed", lambda c: tuple(c.m.linalg.svd_compressed(c.x, I(2), seed=3)) if c.da else None, ranks=(2,), values=False)
    E("linalg.norm:np-axis", lambda c: c.m.linalg.norm(c.x, axis=I(0)) if c.da else np.linalg.norm(c.x, axis=0))
    # ---- arg reductions
    for fn in ("argmax", "argmin", "nanargmax", "nanargmin"):
        # (no NumPy witness: flat arg-reductions resolve ties in block order — a listed finding of another property)
        E(f"{fn}:flat", lambda c, fn=fn: getattr(c.m, fn)(c.x % 7, axis=None) if c.da else None, values=False)
        E(f"{fn}:np-axis", lambda c, fn=fn: getattr(c.m, fn)(c.x % 7, axis=I(c.nd - 1)) if c.da else getattr(np, fn)(c.x % 7, axis=c.nd - 1))
        E(f"{fn}:split", lambda c, fn=fn: getattr(c.m, fn)(c.x % 7, axis=0, split_every=2) if c.da else getattr(np, fn)(c.x % 7, axis=0))
    E("argmax:keepdims-np-split", lambda c: c.m.argmax(c.x % 7, axis=0, keepdims=True, split_every=I(2)) if c.da else np.argmax(c.x % 7, axis=0, keepdims=True))
    E("argtopk:np", lambda c: c.m.argtopk(c.x, I(2), axis=I(0)) if c.da else None, values=False)
    E("topk:np", lambda c: c.m.topk(c.x, I(2), axis=0) if c.da else -np.sort(-c.x, axis=0)[:2])
    E("sum:np-axis-split", lambda c: c.x.sum(axis=I(0), split_every=I(2)) if c.da else c.x.sum(axis=0))
    E("sum:np-axes", lambda c: c.x.sum(axis=(I(0), I(c.nd - 1))) if c.da else c.x.sum(axis=(0, c.nd - 1)), ranks=(2, 3))
    E("cumsum:np-axis", lambda c: c.m.cumsum(c.x, axis=I(0)) if c.da else np.cumsum(c.x, axis=0))
    E("cumsum:np-axis-blelloch", lambda c: c.m.cumsum(c.x, axis=I(c.nd - 1), method="blelloch") if c.da else np.cumsum(c.x, axis=c.nd - 1))
    # ---- bincount / histogram / searchsorted
    E("bincount:weights", lambda c: c.m.bincount(c.x % 5, weights=c.x * 0.5, minlength=7), ranks=(1,), dt="i8")
    E("bincount:np-minlength", lambda c: c.m.bincount(c.x % 5, minlength=I(6)) if c.da else np.bincount(c.x % 5, minlength=6), ranks=(1,), dt="i8")
    E("bincount:split", lambda c: c.m.bincount(c.x % 4, minlength=4, split_every=2) if c.da else np.bincount(c.x % 4, minlength=4), ranks=(1,), dt="i8")
    E("histogram:edges", lambda c: c.m.histogram(c.x, bins=_ix("f8", [0, 3, 9, 15, 23]))[0])
    E("histogram:weights", lambda c: c.m.histogram(c.x, bins=3, range=(0, 23), weights=c.x * 2)[0])
    E("histogram:density", lambda c: c.m.histogram(c.x, bins=I(4), range=(0, 23), density=True)[0] if c.da else np.histogram(c.x, bins=4, range=(0, 23), density=True)[0])
    E("histogram:edges-out", lambda c: c.m.asarray(c.m.histogram(c.x, bins=4, range=(0, 23))[1]))
    E("histogram2d:weights", lambda c: c.m.histogram2d(c.x, c.x * 2 % 23, bins=(2, 3), range=((0, 23), (0, 23)), weights=c.x)[0], ranks=(1,))
    E("searchsorted:right", lambda c: c.m.searchsorted(c.m.cumsum(c.x % 3 + 1), c.y, side="right"), ranks=(1,))
    E("searchsorted:2d-values", lambda c: (c.m.searchsorted(c.m.arange(0, 24, 3, chunks=3), c.x) if c.da else np.searchsorted(np.arange(0, 24, 3), c.x)), ranks=(1, 2))
    E("digitize:right", lambda c: c.m.digitize(c.x, _ix("i8", [2, 5, 9]), right=True))
    E("unique:counts", lambda c: tuple(c.m.unique(c.x % 4, return_counts=True)))
    E("unique:inverse", lambda c: tuple(c.m.unique(c.x % 4, return_inverse=True)) if c.da else None, ranks=(1,), values=False)
    E("isin:dask", lambda c: c.m.isin(c.x, c.y[:3] if c.nd == 1 else c.y[0]), ranks=(1, 2))
    # ---- random
    E("random:choice-int", lambda c: c.m.random.default_rng(5).choice(I(9), size=6, chunks=4) if c.da else np.empty(6), ranks=(1,), values=False)
    E("random:choice-p", lambda c: c.m.random.default_rng(5).choice(c.x, size=7, chunks=3, p=np.full(c.x.shape[0], 1 / c.x.shape[0])) if c.da else np.empty(7), ranks=(1,), values=False)
    E("random:choice-noreplace", lambda c: c.m.random.default_rng(5).choice(c.x, size=4, replace=False, chunks=4) if c.da else np.empty(4), ranks=(1,), values=False)
    E("random:choice-2dsize", lambda c: c.m.random.default_rng(5).choice(5, size=(4, 3), chunks=2) if c.da else np.empty((4, 3)), ranks=(1,), values=False)
    E("random:legacy-choice", lambda c: c.m.random.RandomState(5).choice(c.x, size=5, chunks=2) if c.da else np.empty(5), ranks=(1,), values=False)
    E("random:permutation-int", lambda c: c.m.random.default_rng(5).permutation(I(7)) if c.da else np.empty(7), ranks=(1,), values=False)
    E("random:permutation-2d", lambda c: c.m.random.default_rng(5).permutation(c.x) if c.da else c.x, ranks=(2,), values=False)
    E("random:integers-np", lambda c: c.m.random.default_rng(5).integers(I(0), I(9), size=(I(5), I(4)), chunks=(I(2), I(3))) if c.da else np.empty((5, 4)), ranks=(1,), values=False)
    E("random:param-array", lambda c: c.m.random.default_rng(5).normal(c.x, 1.0, chunks=c.x.chunks) if c.da else c.x, values=False)
    # ---- shuffle
    E("shuffle:np-ints", lambda c: (c.x.shuffle([[I(1)], [I(0), I(2), I(2)], [I(3)]], axis=c.nd - 1) if c.da else c.x.take([1, 0, 2, 2, 3], axis=c.nd - 1)))
    # ---- NumPy-typed chunk / shape / axis arguments of creation and layout functions
    E("rechunk:np", lambda c: c.x.rechunk((I(2),) * c.nd) if c.da else c.x)
    E("rechunk:np-dict", lambda c: c.x.rechunk({I(0): I(-1)}) if c.da else c.x)
    E("from_array:np-chunks", lambda c: c.m.from_array(np.arange(12.0).reshape(3, 4), chunks=(I(2), I(3))) if c.da else np.arange(12.0).reshape(3, 4), ranks=(1,))
    E("ones:np", lambda c: c.m.ones((I(5), I(3)), chunks=(I(2), I(2))) if c.da else np.ones((5, 3)), ranks=(1,))
    E("arange:np", lambda c: c.m.arange(I(2), I(19), I(2), chunks=I(3)) if c.da else np.arange(2, 19, 2), ranks=(1,))
    E("eye:np", lambda c: c.m.eye(I(6), chunks=4, k=I(-1)) if c.da else np.eye(6, k=-1), ranks=(1,))
    E("tri:np", lambda c: c.m.tri(I(5), k=I(1), chunks=I(2)) if c.da else np.tri(5, k=1), ranks=(1,))
    E("concatenate:np-axis", lambda c: c.m.concatenate([c.x, c.y], axis=I(0)) if c.da else np.concatenate([c.x, c.y], axis=0))
    E("stack:np-axis", lambda c: c.m.stack([c.x, c.y], axis=I(1)) if c.da else np.stack([c.x, c.y], axis=1))
    E("repeat:np", lambda c: c.x.repeat(I(2), axis=I(0)) if c.da else c.x.repeat(2, axis=0))
    E("roll:np", lambda c: c.m.roll(c.x, I(2), axis=I(0)) if c.da else np.roll(c.x, 2, axis=0))
    E("flip:np", lambda c: c.m.flip(c.x, I(0)) if c.da else np.flip(c.x, 0))
    E("expand_dims:np", lambda c: c.m.expand_dims(c.x, I(1)) if c.da else np.expand_dims(c.x, 1))
    E("transpose:np", lambda c: c.x.transpose(tuple(I(i) for i in range(c.nd))[::-1]) if c.da else c.x.transpose())
    E("reshape:np", lambda c: c.x.reshape((I(c.x.shape[0] * c.x.shape[1]),) + tuple(c.x.shape[2:])) if c.da else c.x.reshape((c.x.shape[0] * c.x.shape[1],) + tuple(c.x.shape[2:])), ranks=(2, 3))
    E("pad:np", lambda c: c.m.pad(c.x, I(1), mode="edge") if c.da else np.pad(c.x, 1, mode="edge"))
    E("tile:np", lambda c: c.m.tile(c.x, I(2)) if c.da else np.tile(c.x, 2))
    E("coarsen:np", lambda c: c.m.coarsen(np.sum, c.x, {I(0): I(2)}, trim_excess=True) if c.da else None, values=False)
    E("insert:np", lambda c: c.m.insert(c.x, I(2), 5, axis=I(0)) if c.da else np.insert(c.x, 2, 5, axis=0))
    E("delete:np", lambda c: c.m.delete(c.x, _ix("i8", [0, 2]), axis=I(0)) if c.da else np.delete(c.x, [0, 2], axis=0))
    E("squeeze:np", lambda c: c.m.squeeze(c.x[:, :1], axis=I(1)) if c.da else np.squeeze(c.x[:, :1], axis=1), ranks=(2, 3))
    E("moveaxis:np", lambda c: c.m.moveaxis(c.x, I(0), I(-1)) if c.da else np.moveaxis(c.x, 0, -1), ranks=(2, 3))
    E("map_blocks:np-axes", lambda c: (c.x.map_blocks(_sum0_keep, drop_axis=[I(0)], new_axis=[I(0)], dtype=c.x.dtype, chunks=((1,) * len(c.chunks[0]),) + tuple(tuple(v) for v in c.chunks[1:])) if c.da else None), values=False)
    E("blockwise:concat", lambda c: (c.m.blockwise(_sum_last_b, tuple(range(c.nd - 1)), c.x, tuple(range(c.nd)), concatenate=True, dtype=c.x.dtype) if c.da else c.x.sum(axis=-1)), ranks=(2, 3))
    E("apply_along_axis:np-axis", lambda c: c.m.apply_along_axis(np.sum, I(c.nd - 1), c.x) if c.da else np.apply_along_axis(np.sum, c.nd - 1, c.x), ranks=(2, 3))
    E("setitem:np-index", lambda c: _setitem(c, (I(1),), 9))
    E("setitem:np-list", lambda c: _setitem(c, (_ix("i8", [0, 2]),), 4))
    E("setitem:mask", lambda c: _setitem_mask(c))
    E("where:dask-cond-np", lambda c: c.m.where(c.x > I(4), c.x, I(3)))
    return T


def _slc(c, bidx):
    from harness.props_ext import c03_layout as L

    return L._ext_slices(c.chunks, bidx)


def _ident(b):
    return np.asarray(b) + 0


def _sum0_keep(b):
    return np.asarray(b).sum(axis=0, keepdims=True)


def _sum_last_b(b):
    return np.asarray(b).sum(axis=-1)


def _setitem(c, idx, v):
    x = c.x.copy()
    x[idx] = v
    return x


def _setitem_mask(c):
    x = c.x.copy()
    x[x % 3 == 0] = -1
    return x


_EXTRA = None


def entries():
    """the whole catalogue: c03_layout's table (read-only) + the extra entries above"""
    global _EXTRA
    from harness.props_ext import c03_layout as L

    if _EXTRA is None:
        _EXTRA = _extra_entries()
    T = dict(L.table())
    T.update(_EXTRA)
    return T


# entries of the c03 table of the same neighbourhood as the extra ones: always in the directed part
DIRECTED_TABLE = ("da.diag:2d", "da.diag:2d-k", "da.diag:1d-k", "da.diagonal", "da.diagonal:offset", "Array.vindex", "Array.vindex:one", "da.tril", "da.triu",
                  "da.take", "da.take:last", "getitem:ints", "Array.blocks:int", "Array.blocks:list", "Array.partitions", "Array.map_overlap", "da.map_overlap:none",
                  "da.overlap", "da.trim_overlap", "da.linalg.qr", "da.linalg.svd", "da.linalg.tsqr", "da.nanargmax", "Array.argmax", "da.arg_reduction",
                  "da.bincount", "da.histogram", "da.histogramdd", "da.searchsorted", "da.random:choice", "da.random:permutation", "Array.shuffle", "da.shuffle",
                  "da.trace", "da.tril_indices_from", "da.unique", "da.topk", "da.argtopk", "da.percentile", "da.coarsen", "da.sliding_window_view:reduced")

PRE = (None, "mb", "rechunk")


def build_catalog(case):
    """env: {"y" (or "y0", "y1", …): dask arrays, "_roots": their names, "_expected": {name: ndarray}} for a catalogue case"""
    import dask_array as da
    from harness.props_ext import c03_layout as L

    prof = case["profile"]
    dt = case.get("dt", "f8")
    shape = tuple(prof["shape"])
    a = L._src_data(shape, dt, 7, 3)
    b = L._src_data(shape, dt, 5, 1)
    with warnings.catch_warnings():
        warnings.simplefilter("ignore")
        x = da.from_array(a, chunks=tuple(tuple(c) for c in prof["chunks"]))
        y = da.from_array(b, chunks=tuple(tuple(c) for c in L._second_chunks(prof)))
        pre = case.get("pre")
        if pre == "mb":
            # the operand's blocks come from a blockwise layer (not from the FromArray layer)
            x = x.map_blocks(_ident, dtype=x.dtype)
        elif pre == "rechunk":
            x = x.rechunk(tuple(L._swap_cuts(prof["chunks"]))).rechunk(tuple(tuple(c) for c in prof["chunks"]))
        ranks, fn, opt = entries()[case["name"]]
        got = fn(L.M(da, x, y, prof, True))
        try:
            with np.errstate(all="ignore"):
                want = fn(L.M(np, a, b, prof, False))
        except Exception:  # noqa: BLE001
            want = None
    if isinstance(got, (tuple, list)):
        wants = list(want) if isinstance(want, (tuple, list)) and len(want) == len(got) else [None] * len(got)
        outs = [(g, w) for g, w in zip(got, wants) if hasattr(g, "chunks")]
    else:
        if not hasattr(got, "chunks"):
            got = da.asarray(got)
        outs = [(got, want)]
    env = {"_roots": [], "_expected": {}}
    for i, (g, w) in enumerate(outs):
        nm = "y" if len(outs) == 1 else f"y{i}"
        env[nm] = g
        env["_roots"].append(nm)
        if w is None or not opt.get("values", True):
            continue
        w = np.asarray(w)
        if any(isinstance(v, float) and np.isnan(v) for ax in g.chunks for v in ax):
            continue  # unknown chunk sizes: blocks do not assemble by advertised grid
        if w.dtype.kind in "fc" or g.dtype.kind in "fc" or w.dtype != g.dtype or tuple(w.shape) != tuple(g.shape):
            continue  # exact comparison only (the property compares the records with the DASK GRAPH; NumPy is a third witness)
        env["_expected"][nm] = w
    return env


def catalog_class(case):
    return ("catalog", case["name"], len(case["profile"]["shape"]), case.get("pre"), case["optimize"])


def _mk(name, prof, dt, pre, optimize, rng):
    return {"kind": "catalog", "name": name, "profile": prof, "dt": dt, "pre": pre, "optimize": optimize, "roots": ["y"], "shared": True,
            "oseed": rng.randrange(10**6), "history": rng.choice(["group", "group-then-alone", "alone-then-group"])}


def _profile(rng, ranks, rand_profiles):
    from harness.props_ext import c03_layout as L

    nd = rng.choice(list(ranks))
    pool = [p for p in L.PROFILES if len(p["shape"]) == nd] + rand_profiles[nd]
    return pool[rng.randrange(len(pool))]


def catalog_cases(rng, full=False):
    """(directed cases, sweep cases).  Directed: every extra entry + the table entries of the same neighbourhood, optimize on AND off,
    `pre` rotating; sweep: every other table entry once (ufunc entries: a sample), optimize / pre / profile seeded."""
    from harness.props_ext import c03_layout as L

    T = entries()
    rand_profiles = {nd: [L._rand_profile(rng, nd) for _ in range(2 if not full else 6)] for nd in (1, 2, 3)}
    directed, sweep = [], []
    names = [n for n in T if n.startswith("x.")] + [n for n in DIRECTED_TABLE if n in T]
    for i, name in enumerate(names):
        ranks, fn, opt = T[name]
        reps = 1 if not full else 3
        for _ in range(reps):
            prof = _profile(rng, ranks, rand_profiles)
            dt = opt.get("dt", rng.choice(["f8", "i8", "i8"]))
            pre = PRE[rng.randrange(len(PRE))]
            if full:
                for o in (True, False):
                    directed.append(_mk(name, prof, dt, pre, o, rng))
            else:
                directed.append(_mk(name, prof, dt, pre, bool((i + rng.randrange(2)) % 2), rng))
    rest = [n for n in T if n not in set(names)]
    light = [n for n in rest if T[n][2].get("light")]
    heavy = [n for n in rest if not T[n][2].get("light")]
    rng.shuffle(heavy)
    pick = heavy + rng.sample(light, min(len(light), 8 if not full else len(light)))
    for name in pick:
        ranks, fn, opt = T[name]
        prof = _profile(rng, ranks, rand_profiles)
        dt = opt.get("dt", rng.choice(["f8", "i8"]))
        sweep.append(_mk(name, prof, dt, rng.choice(PRE), rng.random() < 0.5, rng))
    return directed, sweep


def shrink_catalog(case, still, max_iter=12):
    """smaller replayable variants of a failing catalogue case: no `pre`, plain history, the first fixed profile of its rank"""
    from harness.props_ext import c03_layout as L

    cur = case
    tries = [dict(cur, pre=None), dict(cur, history="group"), dict(cur, optimize=True)]
    nd = len(case["profile"]["shape"])
    tries += [dict(cur, profile=p) for p in L.PROFILES if len(p["shape"]) == nd][:2]
    for t in tries[:max_iter]:
        for k in ("pre", "history", "optimize", "profile"):
            c2 = dict(cur, **{k: t[k]})
            if c2 != cur:
                try:
                    if still(c2):
                        cur = c2
                except Exception:  # noqa: BLE001
                    pass
    return cur
