"""C27 extension — generic `da.blockwise` label patterns and raw rechunk keywords.

Two search streams for the C27 node search (oracle: C27.check_node, i.e. well-formedness of every node, the
"a rechunk whose chunks equal its input's chunks reports (0, 0)" rule, and the internal-consistency rule below):

  * `blockwise_stream`: `da.blockwise(f, out, a, ind_a, b, ind_b, ...)` over label patterns.  Every pair of
    non-empty index sets over {i, j, k} for two operands, every subset of the labels used as output index
    (labels absent from the output are CONTRACTED, labels of the output absent from an operand BROADCAST it),
    1-operand patterns, a seeded sample of 3-operand patterns; per pattern a grid of block counts (1..4 per
    label), ragged block sizes, operands of length 1 along a label they carry (broadcast along an own label),
    differently chunked operands (unified at lowering), concatenate True/False/None, new_axes, adjust_chunks,
    literal operands, a repeated operand, operands of different item sizes.  Nothing is computed.
  * `rechunk_kw_stream`: RAW (un-lowered) rechunk nodes for every keyword of the rechunk API: balance, method,
    threshold, block_size_limit; target given as tuple of tuples / ints / -1 / None / "auto" / dict / scalar,
    through `x.rechunk`, `da.rechunk` and by constructing the `Rechunk` node with the symbolic target itself.
    Each case is built twice: on the seeded input layout, and on an input that ALREADY has the layout the first
    node settled on (the fixed point: a same-chunks rechunk for every keyword combination).

Internal consistency (`rechunk_consistency`, called from C27.check_node for Rechunk / TasksRechunk nodes): the
estimate describes the layout change the node performs, input chunks -> node.chunks, so it equals the estimate
of the node built directly from those two layouts with the same planner keywords (threshold, block_size_limit)
and no target post-processing (balance off, target already explicit).

Programs are JSON: source `["blockwise", spec]`, steps `["rechunk_spec", spec, kw, form]` and
`["rechunk_raw", spec, kw]`; C27.build / C27.apply_step dispatch here, so failures replay from the case dict.
"""
from __future__ import annotations

import itertools
import math
import warnings

from harness import gen

LABELS = "ijk"
DT = ["f8", "f8", "i1", "f4", "c16"]


# ------------------------------------------------------------------ blockwise: program form

def _never(*a, **k):
    raise RuntimeError("never computed")


def _double0(c):
    return 2 * c


def build_blockwise(da, spec):
    """`da.blockwise` from a JSON spec (pure function of the spec)."""
    chunks = {k: tuple(int(v) for v in c) for k, c in spec["chunks"].items()}
    arrays = []
    call = []
    for a in spec["args"]:
        if a.get("literal") is not None:
            call += [a["literal"], None]
            continue
        if a.get("same_as") is not None:
            call += [arrays[a["same_as"]], tuple(a["ind"])]
            arrays.append(arrays[a["same_as"]])
            continue
        lay = []
        for lab in a["ind"]:
            if lab in a.get("one", ""):
                lay.append((1,))
            elif lab in a.get("alt", {}):
                lay.append(tuple(int(v) for v in a["alt"][lab]))
            else:
                lay.append(chunks[lab])
        shape = tuple(sum(c) for c in lay)
        x = da.zeros(shape, chunks=tuple(lay), dtype=a.get("dtype", "f8"))
        if a.get("wrap") == "add":
            x = x + 1
        arrays.append(x)
        call += [x, tuple(a["ind"])]
    kw = {}
    if spec.get("new_axes"):
        kw["new_axes"] = {k: (tuple(v) if isinstance(v, list) else v) for k, v in spec["new_axes"].items()}
    if spec.get("adjust"):
        kw["adjust_chunks"] = {k: (_double0 if v == "double" else (tuple(v) if isinstance(v, list) else v)) for k, v in spec["adjust"].items()}
    if spec.get("concatenate") is not None:
        kw["concatenate"] = spec["concatenate"]
    if spec.get("align") is False:
        kw["align_arrays"] = False
    return da.blockwise(_never, tuple(spec["out"]), *call, dtype=spec.get("dtype", "f8"), **kw)


def _rand_layout(rng, nblocks, uniform=None):
    if uniform is None:
        uniform = rng.random() < 0.4
    if uniform:
        c = rng.randint(1, 3)
        return [c] * nblocks
    return [rng.randint(1, 3) for _ in range(nblocks)]


def _subsets(labels):
    for r in range(len(labels) + 1):
        yield from itertools.combinations(labels, r)


def _index_sets():
    return ["".join(s) for s in _subsets(LABELS) if s]


def _block_grids(rng, labels, quick):
    """Block-count assignments for the labels: the full {1,2,3,4} grid for <= 2 labels; for 3 labels {1,3}^3
    (thorough: {1,2,3}^3) + 8 seeded assignments over {1,2,3,4}."""
    n = len(labels)
    if n == 0:
        return [()]
    if n == 1:
        return [(1,), (2,), (3,), (4,)]
    if n == 2:
        base = list(itertools.product((1, 2, 3, 4), repeat=2))
        extra = 0
    else:
        base = list(itertools.product((1, 3), repeat=n)) if quick else list(itertools.product((1, 2, 3), repeat=n))
        extra = 8
    base += [tuple(rng.choice((1, 2, 3, 4, 4)) for _ in range(n)) for _ in range(extra)]
    return base


def gen_blockwise_spec(rng, inds, out, nblocks, plain=False):
    """A spec for operands with index strings `inds`, output labels `out`, block counts {label: n}.
    `plain`: aligned operands only (no seeded extras), so that the pattern x grid product is explored as such."""
    labels = sorted(set("".join(inds)))
    chunks = {lab: _rand_layout(rng, nblocks[lab]) for lab in labels}
    args = []
    for ind in inds:
        ind = list(ind)
        if len(ind) > 1 and rng.random() < 0.3:
            rng.shuffle(ind)
        a = {"ind": "".join(ind), "dtype": rng.choice(DT)}
        if not plain:
            one = "".join(lab for lab in ind if rng.random() < 0.12)
            if one:
                a["one"] = one
            alt = {}
            for lab in ind:
                if lab not in one and rng.random() < 0.08:
                    n = sum(chunks[lab])
                    alt[lab] = list(gen.rand_chunks(rng, n, maxparts=4))
            if alt:
                a["alt"] = alt
            if rng.random() < 0.1:
                a["wrap"] = "add"
        args.append(a)
    out = list(out)
    if len(out) > 1 and rng.random() < 0.3:
        rng.shuffle(out)
    spec = {"out": "".join(out), "args": args, "chunks": chunks}
    contracted = [lab for lab in labels if lab not in out]
    spec["concatenate"] = rng.choice([True, True, True, False, None]) if contracted else rng.choice([None, None, True])
    if not plain:
        r = rng.random()
        if r < 0.12:
            # a new output axis (single block of length n, or explicit blocks)
            spec["out"] += "z"
            spec["new_axes"] = {"z": rng.choice([1, 3, [2, 2], [1, 2, 1]])}
        elif r < 0.2 and spec["out"]:
            lab = rng.choice(spec["out"])
            spec["adjust"] = {lab: rng.choice(["double", 5])}
        r = rng.random()
        if r < 0.08:
            args.insert(rng.randint(0, len(args)), {"literal": 5})
        elif r < 0.2 and not any(a.get("same_as") is not None for a in args):
            # the same operand twice: with the same index (one dependency per task) or transposed labels
            k = rng.randrange(len(args))
            src = args[k]
            if src.get("literal") is None:
                ind2 = src["ind"]
                if len(ind2) == 2 and rng.random() < 0.5 and nblocks[ind2[0]] == nblocks[ind2[1]] and "one" not in src and "alt" not in src:
                    # square layout needed for the transposed reuse: give both labels the same blocks
                    chunks[ind2[1]] = list(chunks[ind2[0]])
                    ind2 = ind2[::-1]
                n_arrays = sum(1 for a in args[: k + 1] if a.get("literal") is None) - 1
                args.append({"same_as": n_arrays, "ind": ind2})
    return spec


def blockwise_patterns(rng, quick):
    """[(inds, out)] — every 1- and 2-operand pattern; a seeded sample of 3-operand patterns."""
    sets = _index_sets()
    pats = []
    for a in sets:
        for out in _subsets(sorted(set(a))):
            pats.append(((a,), "".join(out)))
    for a in sets:
        for b in sets:
            for out in _subsets(sorted(set(a + b))):
                pats.append(((a, b), "".join(out)))
    triples = [(a, b, c) for a in sets for b in sets for c in sets]
    for a, b, c in rng.sample(triples, 60 if quick else 343):
        outs = list(_subsets(sorted(set(a + b + c))))
        for out in rng.sample(outs, 2 if quick else len(outs)):
            pats.append(((a, b, c), "".join(out)))
    return pats


def pattern_class(spec, y):
    """(some operand is both broadcast and contracted, #contracted labels, #operands, concatenate)"""
    out = set(spec["out"])
    nb = {lab: len(c) for lab, c in spec["chunks"].items()}
    both = False
    for a in spec["args"]:
        if a.get("literal") is not None:
            continue
        mine = set(a["ind"])
        gather = any(lab not in out and nb.get(lab, 1) > 1 and lab not in a.get("one", "") for lab in mine)
        fan = any(nb.get(lab, 1) > 1 and (lab not in mine or lab in a.get("one", "")) for lab in out)
        both = both or (gather and fan)
    return (both, len([lab for lab in nb if lab not in out]), len(spec["args"]), spec.get("concatenate"))


def blockwise_stream(ctx, da, C27, seen):
    """Every pattern x block grid: the raw tree's nodes are judged (metadata only); a seeded sample of the programs
    goes through all phases (simplified / lowered / fused / materialized) like any other program."""
    rng = ctx.rng
    quick = ctx.scale(1, 0) == 1
    budget = ctx.scale(9, 60)
    t0 = ctx.elapsed()
    pats = blockwise_patterns(rng, quick)
    rng.shuffle(pats)
    built = refused = full = 0
    errors = {}
    for n_pat, (inds, out) in enumerate(pats):
        if ctx.elapsed() - t0 > budget:
            ctx.notes["blockwise_budget_cut_patterns"] = len(pats) - n_pat
            break
        labels = sorted(set("".join(inds)))
        grids = _block_grids(rng, labels, quick)
        for g_i, grid in enumerate(grids):
            nblocks = dict(zip(labels, grid))
            # the grid is explored with aligned operands; every third case carries the seeded extras
            spec = gen_blockwise_spec(rng, inds, out, nblocks, plain=(g_i % 3 != 2))
            prog = [["blockwise", spec]]
            try:
                with warnings.catch_warnings():
                    warnings.simplefilter("ignore")
                    y = build_blockwise(da, spec)
                    y.chunks, y.dtype
            except C27.REFUSALS:
                refused += 1
                continue
            except Exception as e:  # noqa: BLE001 - a blockwise that cannot be constructed is not a transfer-estimate matter
                errors[type(e).__name__] = errors.get(type(e).__name__, 0) + 1
                ctx.extra.setdefault("blockwise_construction_error_examples", {}).setdefault(type(e).__name__, {"spec": spec, "error": repr(e)[:200]})
                continue
            built += 1
            ctx.count(("blockwise",) + pattern_class(spec, y))
            if built % 150 == 7 and y.npartitions <= 200:
                full += 1
                C27.run_program(ctx, da, prog, seen, y)
            else:
                C27.check_raw(ctx, prog, y, seen)
            if built % 400 == 1:
                ctx.sample({"program": prog, "root": type(y.expr).__name__, "transfer_bytes": list(map(repr, y.expr.transfer_bytes))})
    ctx.notes["blockwise_patterns"] = len(pats)
    ctx.notes["blockwise_cases_built"] = built
    ctx.notes["blockwise_cases_all_phases"] = full
    ctx.notes["blockwise_construction_refusals"] = refused
    if errors:
        ctx.notes["blockwise_construction_errors"] = errors


# ------------------------------------------------------------------ rechunk: program form

def dec_spec(s):
    """JSON target -> rechunk `chunks` argument: int | "auto" | None | list of (int | None | "auto" | list) |
    {"dict": {axis: ...}}."""
    if isinstance(s, dict):
        return {int(k): dec_spec(v) if isinstance(v, list) else v for k, v in s["dict"].items()}
    if isinstance(s, list):
        return tuple(tuple(int(v) for v in d) if isinstance(d, list) else d for d in s)
    return s


def _kw(kw):
    return {k: v for k, v in (kw or {}).items() if k in ("threshold", "block_size_limit", "balance", "method")}


def apply_rechunk_step(da, a, step):
    op = step[0]
    spec, kw = dec_spec(step[1]), _kw(step[2])
    if op == "rechunk_spec":
        form = step[3] if len(step) > 3 else "method"
        if form == "function":
            return da.rechunk(a, spec, **kw)
        if form == "positional":
            return a.rechunk(spec, kw.get("threshold"), kw.get("block_size_limit"), kw.get("balance", False), kw.get("method"))
        return a.rechunk(spec, **kw)
    if op == "rechunk_raw":
        from dask_array._new_collection import new_collection
        from dask_array._rechunk import Rechunk

        node = Rechunk(a.expr, spec, kw.get("threshold"), kw.get("block_size_limit"), kw.get("balance"), kw.get("method"))
        node.chunks  # validation, like ArrayExpr.rechunk
        return new_collection(node)
    raise KeyError(op)


def _axis_input(rng, n):
    k = rng.choice(["uniform", "uniform", "rand", "one", "two"])
    if k == "uniform":
        c = rng.randint(1, max(1, n))
        return [c] * (n // c) + ([n % c] if n % c else [])
    if k == "one":
        return [n]
    if k == "two":
        a = rng.randint(1, max(1, n - 1))
        return [a, n - a] if n - a > 0 else [n]
    return list(gen.rand_chunks(rng, n, maxparts=6))


def _axis_target(rng, n, symbolic):
    """One axis of the target: explicit blocks, or (symbolic) an int size / -1 / None / "auto"."""
    r = rng.random()
    if symbolic:
        if r < 0.5:
            return rng.randint(1, n)
        if r < 0.62:
            return -1
        if r < 0.74:
            return None
        if r < 0.84:
            return "auto"
    return _axis_input(rng, n)


def gen_rechunk_case(rng, variant):
    """-> (source, step).  `variant` = (balance, method, form)."""
    balance, method, form = variant
    nd = rng.choice([1, 1, 2, 2, 3])
    shape = [rng.choice([6, 8, 10, 12, 20, 20, 30, 37, 64, 100]) if nd < 3 else rng.choice([4, 6, 9, 12]) for _ in range(nd)]
    old = [_axis_input(rng, n) for n in shape]
    symbolic = form != "tuples"
    tgt = [_axis_target(rng, n, symbolic) for n in shape]
    whole = rng.random()
    if form == "dict":
        keep = [ax for ax in range(nd) if rng.random() < 0.7] or [0]
        # negative axes are valid dict keys
        spec = {"dict": {str(ax - nd if rng.random() < 0.2 else ax): tgt[ax] for ax in keep}}
    elif form == "scalar":
        spec = rng.choice([rng.randint(1, max(shape)), "auto", -1]) if whole < 0.8 else tgt
    else:
        spec = tgt
    kw = {"balance": balance, "method": method}
    kw["threshold"] = rng.choice([None, None, 1, 4, 1000])
    kw["block_size_limit"] = rng.choice([None, None, 64, 1000, 10**9])
    dtype = rng.choice(["i8", "f4", "u1", "c16"])
    return ["zeros", shape, old, dtype], spec, kw


RECHUNK_VARIANTS = [(b, m, f) for b in (True, True, False) for m in (None, "tasks", "p2p")
                    for f in ("tuples", "ints", "dict", "scalar")]
API_FORMS = ["method", "method", "function", "positional", "raw", "raw"]


def rechunk_kw_stream(ctx, da, C27, seen):
    import dask

    rng = ctx.rng
    reps = ctx.scale(30, 200)
    budget = ctx.scale(9, 60)
    t0 = ctx.elapsed()
    built = refused = same = fixed_same = full = 0
    errors = {}
    plan = [v for v in RECHUNK_VARIANTS for _ in range(reps)]
    rng.shuffle(plan)
    for n_case, variant in enumerate(plan):
        if ctx.elapsed() - t0 > budget:
            ctx.notes["rechunk_kw_budget_cut"] = len(plan) - n_case
            break
        src, spec, kw = gen_rechunk_case(rng, variant)
        api = rng.choice(API_FORMS)
        step = ["rechunk_raw", spec, kw] if api == "raw" else ["rechunk_spec", spec, kw, api]
        cfg = {} if rng.random() < 0.8 else {"array.chunk-size": rng.choice(["64B", "1KiB"])}
        first_chunks = None
        for stage in ("seeded", "fixed-point"):
            if stage == "fixed-point":
                if first_chunks is None:
                    break
                # the same call on an input that already has the layout the first node settled on
                src = [src[0], src[1], [list(c) for c in first_chunks], src[3]]
            prog = [src, step] + ([["config", cfg]] if cfg else [])
            try:
                with dask.config.set(cfg), warnings.catch_warnings():
                    warnings.simplefilter("ignore")
                    y = C27.build(da, prog)
                    y.chunks, y.dtype
            except C27.REFUSALS:
                refused += 1
                break
            except Exception as e:  # noqa: BLE001 - construction problems are C04/C13's business
                errors[type(e).__name__] = errors.get(type(e).__name__, 0) + 1
                ctx.extra.setdefault("rechunk_kw_construction_error_examples", {}).setdefault(type(e).__name__, {"program": prog, "error": repr(e)[:200]})
                break
            built += 1
            root = type(y.expr).__name__
            is_same = "Rechunk" in root and tuple(y.chunks) == tuple(y.expr.array.chunks)
            same += is_same
            fixed_same += is_same and stage == "fixed-point"
            ctx.count(("rechunk-kw", variant, api, stage, root, is_same))
            if stage == "seeded":
                first_chunks = y.chunks if not any(isinstance(c, float) and math.isnan(c) for d in y.chunks for c in d) else None
            if built % 12 == 5 and y.npartitions <= 400:
                full += 1
                C27.run_program(ctx, da, prog, seen, y)
            else:
                with dask.config.set(cfg), warnings.catch_warnings():
                    warnings.simplefilter("ignore")
                    C27.check_raw(ctx, prog, y, seen)
            if built % 100 == 1:
                ctx.sample({"program": prog, "root": root, "chunks": repr(y.chunks)[:200], "transfer_bytes": list(map(repr, y.expr.transfer_bytes))})
    ctx.notes["rechunk_kw_cases_built"] = built
    ctx.notes["rechunk_kw_same_chunks_raw_nodes"] = same
    ctx.notes["rechunk_kw_same_chunks_at_fixed_point"] = fixed_same
    ctx.notes["rechunk_kw_cases_all_phases"] = full
    ctx.notes["rechunk_kw_construction_refusals"] = refused
    if errors:
        ctx.notes["rechunk_kw_construction_errors"] = errors


# ------------------------------------------------------------------ internal consistency of rechunk nodes

def _same_pair(a, b):
    def eq(u, v):
        u, v = float(u), float(v)
        return (math.isnan(u) and math.isnan(v)) or u == v
    return eq(a[0], b[0]) and eq(a[1], b[1])


def rechunk_consistency(ctx, node, case, lo, hi):
    """A Rechunk / TasksRechunk node's estimate equals the estimate of the node built directly from
    (input chunks -> node.chunks) with the same planner keywords.  The two are the same deterministic float
    computation on the same layouts, so they are compared exactly."""
    from dask_array._rechunk import Rechunk, TasksRechunk

    cls = type(node).__name__
    chunks = tuple(tuple(c) for c in node.chunks)
    try:
        if cls == "TasksRechunk":
            ref = Rechunk(node.array, chunks, node.threshold, node.block_size_limit, False, None)
        else:
            ref = TasksRechunk(node.array, chunks, node.threshold, node.block_size_limit)
        if tuple(ref.chunks) != chunks:
            return  # the explicit target did not settle on the same layout: nothing to compare
        want = tuple(ref.transfer_bytes)
    except Exception:  # noqa: BLE001 - the reference node cannot be built: no verdict
        ctx.notes["rechunk_consistency_reference_unavailable"] = ctx.notes.get("rechunk_consistency_reference_unavailable", 0) + 1
        return
    ctx.count(("rechunk-consistency", cls, bool(getattr(node, "balance", False)), isinstance(node.operand("_chunks"), tuple)))
    if not _same_pair((lo, hi), want):
        ctx.fail(f"rechunk-consistency:differs-from-direct:{cls}", dict(case, direct=[repr(want[0]), repr(want[1])], input_chunks=repr(node.array.chunks)[:300]),
                 "a rechunk node's estimate differs from that of the node built directly from (input chunks -> node.chunks)")
