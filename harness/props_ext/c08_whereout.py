"""C08 / C11 extension — ufunc calls carrying `where=` / `out=` under every rewrite that moves through an Elemwise.

The class: a rewrite that rebuilds an Elemwise (Transpose / Rechunk / slice / take pushdown, and whatever the other
consumers trigger) must treat the `where=` and `out=` operands like the other operands, WITH broadcasting (a mask of
lower rank is aligned on the trailing axes; a length-1 axis broadcasts; a 0-d / Python mask is a scalar).

A CASE is one explicit script (all data derived from small integer parameters kept in the case dict; no PRNG at replay):

  y = f(*operands, [where=w], [out=o])          f in add / subtract / multiply / maximum / minimum / negative / absolute,
                                                 spelled np.f (dispatch through __array_ufunc__) or da.f
  operands   full-shape dask arrays, lower-rank (trailing axes) ones, full-rank ones with length-1 axes, raw NumPy arrays,
             Python scalars — in either order;
  where=     absent | dask array of the full shape (the operands' chunks or its own) | dask array of LOWER rank (trailing
             axes, also with length-1 axes) | full rank with length-1 axes | 0-d dask | NumPy array (full / lower rank /
             0-d) | Python True / False;
  out=       None | dask array of the result dtype | of a wider dtype (float64 for int64 operands); built by from_array,
             zeros or as a derived expression, with its own chunks;
  triggers   one or two consumers of y: .T / transpose(perm) / swapaxes / moveaxis, basic slices (plain, dropping whole
             blocks, stepped both signs, integers, None-indexing), integer-list takes on each axis, rechunk, reductions
             over an axis (keepdims both ways), expand_dims / squeeze, broadcast_to, concatenate / stack with a sibling,
             a unary / binary elementwise consumer.

Square AND non-square shapes (a misplaced mask still broadcasts on a square array: silent wrong values; on a non-square
one chunk unification raises), ragged chunkings.

mode "raw" (C08): precondition = the raw form computes rewrite-free (harness/props_ext/rawfree.py); then optimize() must
not raise (watchdog), optimize(optimize()) keeps the name, simplify / lower_completely are idempotent, the advertised shape
is kept and the optimized compute of a FRESH build equals the raw form's array.  Where NumPy leaves the result undefined
(`where=<mask>` without `out=`: masked-out positions are uninitialised memory) only the defined positions are compared (the
defined-mask is pushed through the same triggers).  Whether the raw form equals NumPy is NOT part of C08: it is counted
in the notes (`whereout.raw_differs_from_numpy`) and decided by mode "numpy".
mode "numpy" (C11): the default compute must give NumPy's array for the same calls (values on the defined positions;
the dtype too unless out= has another dtype than the result — registered findings `out=:dtype-of-out-not-kept`,
`where=+out=:declared-dtype-differs-from-computed`).  A refusal at call time is counted, not reported.

The GRID where kind × trigger kind is walked completely in every run and for every seed, twice: once with operands that
are all full-rank or scalar, once with broadcasting operands; out=, shapes, chunks, the second trigger are drawn per cell.
"""
from __future__ import annotations

import copy
import signal
import time
import warnings

import numpy as np

from harness import programs as P
from harness import trace as T
from harness.props_ext.rawfree import raw_eval

WHERES = ("absent", "full", "full-otherchunks", "trail", "trail-ones", "ones", "0d-dask", "np-full", "np-trail", "0d-np",
          "py-true", "py-false")
OUTS = ("none", "same", "wider")
TRIGGERS = ("T", "transpose", "swapaxes", "moveaxis", "slice", "dropblocks", "stepslice", "int", "newaxis", "take",
            "rechunk", "reduce", "expand_dims", "squeeze", "broadcast_to", "concat", "stack", "unary", "binary")
OPPATS = ("plain", "broadcasting")
UF2 = ("add", "subtract", "multiply", "maximum", "minimum")
UF1 = ("negative", "absolute")
WATCHDOG_S = 20
REFUSALS = (NotImplementedError, IndexError, ValueError, TypeError, AttributeError, KeyError)


class Timeout(Exception):
    pass


def _alarm(signum, frame):
    raise Timeout()


# --------------------------------------------------------------------------- data from parameters

def data_of(spec, dtype="int64"):
    shape = tuple(spec["shape"])
    n = int(np.prod(shape)) if shape else 1
    mul, off, mod = spec["p"]
    return ((np.arange(n, dtype=np.int64) * mul + off) % mod).reshape(shape).astype(dtype)


def mask_of(spec):
    if "value" in spec:
        return np.array(bool(spec["value"]))
    return (data_of(spec) % spec["m"]) != 0


def rand_p(rng):
    return [rng.choice([1, 3, 5, 7, 11]), rng.randint(-5, 5), rng.choice([5, 7, 11, 13, 23])]


def chunks_of(rng, shape, multi=True):
    if not shape:
        return []
    for _ in range(12):
        ch = [list(c) for c in P.rand_chunks_nd(rng, shape)]
        if not multi or any(len(c) > 1 for c in ch) or all(d <= 1 for d in shape):
            return ch
    return [[1] * d if d > 1 else [d] for d in shape]


def arr_spec(rng, shape, chunks=None):
    shape = [int(d) for d in shape]
    return {"shape": shape, "chunks": chunks if chunks is not None else chunks_of(rng, shape), "p": rand_p(rng)}


def mask_spec(rng, shape, chunks=None):
    s = arr_spec(rng, shape, chunks)
    for _ in range(20):
        s["p"] = rand_p(rng)
        s["m"] = rng.choice([2, 3])
        m = mask_of(s)
        # both values present, and (2-d or more) not symmetric under a transposition of equal axes
        if m.size < 2 or (m.any() and not m.all()):
            break
    return s


def trailing(rng, shape, ones):
    """A lower-rank shape on the trailing axes (at least one axis dropped), optionally with length-1 axes."""
    k = rng.randint(1, len(shape) - 1)
    shp = list(shape[k:])
    if ones and len(shp) > 1:
        j = rng.randrange(len(shp))
        shp[j] = 1
    return shp


def with_ones(rng, shape):
    shp = list(shape)
    js = [j for j in range(len(shp))]
    rng.shuffle(js)
    for j in js[: rng.randint(1, max(1, len(shp) - 1))]:
        shp[j] = 1
    return shp


# --------------------------------------------------------------------------- triggers

def gen_trigger(rng, kind, shp, chunks_hint=None):
    """A trigger of the given kind valid for an array of shape shp (None when the kind does not apply)."""
    nd = len(shp)
    if nd == 0 or 0 in shp:
        return None
    if kind == "T":
        return {"op": "T"} if nd >= 2 else None
    if kind == "transpose":
        if nd < 2:
            return None
        perm = list(range(nd))
        while perm == list(range(nd)):
            rng.shuffle(perm)
        return {"op": "transpose", "axes": perm}
    if kind == "swapaxes":
        if nd < 2:
            return None
        a, b = rng.sample(range(nd), 2)
        return {"op": "swapaxes", "a": a - (nd if rng.random() < 0.3 else 0), "b": b}
    if kind == "moveaxis":
        if nd < 2:
            return None
        a, b = rng.sample(range(nd), 2)
        return {"op": "moveaxis", "src": a, "dst": b - (nd if rng.random() < 0.3 else 0)}
    if kind == "slice":
        for _ in range(20):
            idx = P.rand_basic_index(rng, shp, allow_none=False, allow_int=False)
            probe = np.empty(shp)[idx]
            if probe.size and probe.shape != tuple(shp):
                return {"op": "getitem", "index": P._enc_index(idx)}
        return {"op": "getitem", "index": P._enc_index((slice(1, None),))} if shp[0] > 1 else None
    if kind == "dropblocks":
        axes = [ax for ax in range(nd) if shp[ax] >= 2]
        if not axes:
            return None
        ax = rng.choice(axes)
        ch = chunks_hint[ax] if chunks_hint and len(chunks_hint) == nd and sum(chunks_hint[ax]) == shp[ax] and len(chunks_hint[ax]) > 1 else None
        if ch:
            sl = slice(ch[0], None) if rng.random() < 0.5 else slice(None, shp[ax] - ch[-1])
        else:
            sl = slice(rng.randint(1, shp[ax] - 1), None)
        return {"op": "getitem", "index": P._enc_index(tuple(sl if a == ax else slice(None) for a in range(ax + 1)))}
    if kind == "stepslice":
        axes = [ax for ax in range(nd) if shp[ax] >= 2]
        if not axes:
            return None
        ax = rng.choice(axes)
        step = rng.choice([2, 3, -1, -1, -2])
        sl = slice(None, None, step) if rng.random() < 0.6 else (slice(shp[ax] - 1, 0, step) if step < 0 else slice(1, None, step))
        return {"op": "getitem", "index": P._enc_index(tuple(sl if a == ax else slice(None) for a in range(ax + 1)))}
    if kind == "int":
        ax = rng.randrange(nd)
        i = rng.randint(-shp[ax], shp[ax] - 1)
        idx = [slice(None)] * (ax + 1)
        idx[ax] = i
        if ax + 1 < nd and rng.random() < 0.3:
            idx.append(rng.randint(-shp[ax + 1], shp[ax + 1] - 1))
        return {"op": "getitem", "index": P._enc_index(tuple(idx))}
    if kind == "newaxis":
        idx = [slice(None)] * nd
        idx.insert(rng.randint(0, nd), None)
        if rng.random() < 0.4:
            ax = rng.randrange(len(idx))
            if idx[ax] is not None:
                idx[ax] = slice(None, None, -1) if rng.random() < 0.5 else slice(0, max(1, shp[min(ax, nd - 1)] - 1))
        return {"op": "getitem", "index": P._enc_index(tuple(idx))}
    if kind == "take":
        ax = rng.randrange(nd)
        n = shp[ax]
        idx = [rng.randint(-n, n - 1) for _ in range(rng.randint(1, n + 2))]
        return {"op": "take", "axis": ax, "idx": idx, "form": rng.choice(["getitem", "take"])}
    if kind == "rechunk":
        return {"op": "rechunk", "chunks": chunks_of(rng, shp)}
    if kind == "reduce":
        return {"op": "reduce", "fn": rng.choice(["sum", "max", "min"]), "axis": rng.randrange(nd) - (nd if rng.random() < 0.2 else 0),
                "keepdims": rng.random() < 0.4}
    if kind == "expand_dims":
        return {"op": "expand_dims", "axis": rng.randint(0, nd)}
    if kind == "squeeze":
        ones = [ax for ax in range(nd) if shp[ax] == 1]
        if not ones:
            return None
        return {"op": "squeeze", "axis": rng.choice(ones) if rng.random() < 0.7 else None}
    if kind == "broadcast_to":
        new = [rng.randint(2, 3)] + [rng.randint(2, 3) if d == 1 and rng.random() < 0.7 else d for d in shp]
        return {"op": "broadcast_to", "shape": new, "chunks": chunks_of(rng, new) if rng.random() < 0.4 else None}
    if kind in ("concat", "stack"):
        ax = rng.randint(0, nd - (1 if kind == "concat" else 0))
        return {"op": kind, "axis": ax, "sib": arr_spec(rng, shp), "first": rng.random() < 0.5}
    if kind == "unary":
        return {"op": "unary", "fn": rng.choice(["negative", "absolute"])}
    if kind == "binary":
        sshape = list(shp) if rng.random() < 0.6 or nd < 2 else list(shp[rng.randint(1, nd - 1):])
        return {"op": "binary", "fn": rng.choice(["add", "subtract", "maximum"]), "sib": arr_spec(rng, sshape), "first": rng.random() < 0.5}
    raise KeyError(kind)


def apply_trigger(t, y, da, da_mode, defined=False):
    """Apply one trigger to y (dask collection when da_mode, else NumPy array).  defined=True: y is the boolean
    'this position is defined' array (NumPy), pushed through the same trigger."""
    m = da if da_mode else np
    op = t["op"]
    if op == "T":
        return y.T
    if op == "transpose":
        return y.transpose(tuple(t["axes"])) if t.get("form", "method") == "method" else m.transpose(y, tuple(t["axes"]))
    if op == "swapaxes":
        return m.swapaxes(y, t["a"], t["b"])
    if op == "moveaxis":
        return m.moveaxis(y, t["src"], t["dst"])
    if op == "getitem":
        return y[P._dec_index(t["index"])]
    if op == "take":
        if t.get("form") == "take":
            return m.take(y, list(t["idx"]), axis=t["axis"])
        return y[tuple(list(t["idx"]) if ax == t["axis"] else slice(None) for ax in range(t["axis"] + 1))]
    if op == "rechunk":
        return y.rechunk(tuple(tuple(c) for c in t["chunks"])) if da_mode else y
    if op == "reduce":
        if defined:
            return y.all(axis=t["axis"], keepdims=t["keepdims"])
        return getattr(y, t["fn"])(axis=t["axis"], keepdims=t["keepdims"])
    if op == "expand_dims":
        return m.expand_dims(y, t["axis"])
    if op == "squeeze":
        return m.squeeze(y) if t["axis"] is None else m.squeeze(y, axis=t["axis"])
    if op == "broadcast_to":
        if da_mode and t.get("chunks"):
            return da.broadcast_to(y, tuple(t["shape"]), chunks=tuple(tuple(c) for c in t["chunks"]))
        return m.broadcast_to(y, tuple(t["shape"]))
    if op in ("concat", "stack"):
        if defined:
            sib = np.ones(tuple(t["sib"]["shape"]), dtype=bool)
        else:
            sib = data_of(t["sib"], "int64")
            if da_mode:
                sib = da.from_array(sib, chunks=tuple(tuple(c) for c in t["sib"]["chunks"]))
        pair = [sib, y] if t["first"] else [y, sib]
        return (m.concatenate if op == "concat" else m.stack)(pair, axis=t["axis"])
    if op == "unary":
        return y if defined else getattr(m, t["fn"])(y)
    if op == "binary":
        if defined:
            return y
        sib = data_of(t["sib"], "int64")
        if da_mode:
            sib = da.from_array(sib, chunks=tuple(tuple(c) for c in t["sib"]["chunks"]))
        return getattr(m, t["fn"])(sib, y) if t["first"] else getattr(m, t["fn"])(y, sib)
    raise KeyError(op)


# --------------------------------------------------------------------------- generation

def gen_shape(rng, trig):
    nd = rng.choice([2, 2, 2, 3])
    r = rng.random()
    if r < 0.3:
        shape = [rng.randint(3, 4)] * nd  # square: a misplaced mask still broadcasts
    else:
        shape = rng.sample(range(2, 7), nd)  # pairwise different lengths: a misplaced mask cannot broadcast
        if nd == 3 and rng.random() < 0.3:
            shape[rng.randrange(3)] = shape[(rng.randrange(3))]
    if trig == "squeeze" or (trig == "broadcast_to" and rng.random() < 0.5) or rng.random() < 0.06:
        shape[rng.randrange(nd)] = 1
    return shape


def gen_case(rng, where, trig, oppat, out=None):
    shape = gen_shape(rng, trig)
    nd = len(shape)
    chunks = chunks_of(rng, shape)
    out = out if out is not None else rng.choice(OUTS)
    case = {"whereout": 1, "shape": shape, "wkind": where, "okind": out, "tkind": trig, "oppat": oppat}
    # operands
    unary = rng.random() < 0.15
    fn = rng.choice(UF1 if unary else UF2)
    full = dict(arr_spec(rng, shape, chunks), kind="dask")
    ops = [full]
    if not unary:
        if oppat == "plain":
            r = rng.random()
            other = {"kind": "scalar", "v": rng.randint(-3, 4)} if r < 0.5 else dict(arr_spec(rng, shape, chunks if r < 0.75 else None), kind="dask" if r < 0.9 else "np")
        else:
            r = rng.random()
            if r < 0.45:
                other = dict(arr_spec(rng, trailing(rng, shape, rng.random() < 0.3)), kind="dask" if rng.random() < 0.8 else "np")
            elif r < 0.8:
                other = dict(arr_spec(rng, with_ones(rng, shape)), kind="dask")
            else:
                other = dict(arr_spec(rng, []), kind="dask")  # 0-d dask operand
        ops = [full, other] if rng.random() < 0.6 else [other, full]
    elif oppat == "broadcasting" and where in ("full", "full-otherchunks", "np-full") or (oppat == "broadcasting" and out != "none"):
        # the result shape comes from where= / out=: the only operand may be smaller
        ops = [dict(arr_spec(rng, trailing(rng, shape, False) if rng.random() < 0.6 else with_ones(rng, shape)), kind="dask")]
    case["fn"] = fn
    case["operands"] = ops
    case["style"] = rng.choice(["np", "da"]) if any(o["kind"] == "dask" for o in ops) or out != "none" else "da"
    # where=
    w = None
    if where in ("full", "np-full"):
        w = mask_spec(rng, shape, chunks)
    elif where == "full-otherchunks":
        w = mask_spec(rng, shape)
    elif where in ("trail", "np-trail"):
        w = mask_spec(rng, trailing(rng, shape, False))
    elif where == "trail-ones":
        w = mask_spec(rng, trailing(rng, shape, True))
    elif where == "ones":
        w = mask_spec(rng, with_ones(rng, shape))
    elif where in ("0d-dask", "0d-np"):
        w = {"shape": [], "chunks": [], "value": rng.random() < 0.6}
    elif where in ("py-true", "py-false"):
        w = {"value": where == "py-true", "py": True}
    if w is not None:
        w["form"] = "py" if w.get("py") else ("np" if where.startswith("np") or where == "0d-np" else "dask")
        w.pop("py", None)
    case["where"] = w
    # out=
    o = None
    if out != "none":
        o = dict(arr_spec(rng, shape, chunks if rng.random() < 0.5 else None), dtype="int64" if out == "same" else "float64",
                 make=rng.choice(["from_array", "from_array", "zeros", "derived"]))
    case["out"] = o
    # triggers (shapes followed with NumPy)
    with np.errstate(all="ignore"), warnings.catch_warnings():
        warnings.simplefilter("ignore")  # NumPy: 'where' used without 'out'
        cur = build(case, None, False, upto=0)[0]
    trigs = []
    t = gen_trigger(rng, trig, list(cur.shape), chunks)
    if t is None:
        t = gen_trigger(rng, "slice" if trig != "slice" else "int", list(cur.shape), chunks) or {"op": "unary", "fn": "negative"}
    trigs.append(t)
    cur = apply_trigger(t, cur, None, False)
    if rng.random() < 0.45 and cur.ndim and cur.size:
        kinds = [k for k in TRIGGERS if not (k == "take" and t["op"] == "broadcast_to")]  # registered: take-through-broadcast
        for _ in range(6):
            t2 = gen_trigger(rng, rng.choice(kinds), list(cur.shape))
            if t2 is not None:
                trigs.append(t2)
                break
    case["triggers"] = trigs
    return case


# --------------------------------------------------------------------------- execution

def build(case, da, da_mode, upto=None):
    """(result after the triggers, defined-mask after the triggers [NumPy mode only]).  upto: number of triggers applied."""
    m = da if da_mode else np

    def arr(spec, dtype="int64"):
        a = data_of(spec, dtype)
        if da_mode:
            return da.from_array(a, chunks=tuple(tuple(c) for c in spec["chunks"]))
        return a

    ops = []
    for s in case["operands"]:
        if s["kind"] == "scalar":
            ops.append(s["v"])
        elif s["kind"] == "np":
            ops.append(data_of(s))
        else:
            ops.append(arr(s))
    kw = {}
    w = case.get("where")
    wnp = None
    if w is not None:
        if w["form"] == "py":
            wnp = np.array(bool(w["value"]))
            kw["where"] = bool(w["value"])
        else:
            wnp = mask_of(w)
            if da_mode and w["form"] == "dask":
                kw["where"] = da.from_array(wnp, chunks=tuple(tuple(c) for c in w["chunks"]))
            else:
                kw["where"] = wnp
    o = case.get("out")
    out = None
    if o is not None:
        if not da_mode:
            out = np.zeros(tuple(o["shape"]), dtype=o["dtype"]) if o["make"] == "zeros" else data_of(o, o["dtype"])
        elif o["make"] == "zeros":
            out = da.zeros(tuple(o["shape"]), chunks=tuple(tuple(c) for c in o["chunks"]), dtype=o["dtype"])
        elif o["make"] == "derived":
            out = arr(o, o["dtype"]) * 1
        else:
            out = arr(o, o["dtype"])
        kw["out"] = out
    f = getattr(np if (not da_mode or case.get("style") == "np") else da, case["fn"])
    res = f(*ops, **kw)
    y = out if out is not None else res
    defined = None
    if not da_mode:
        defined = np.ones(y.shape, dtype=bool) if (out is not None or wnp is None) else np.broadcast_to(wnp, y.shape).copy()
    trigs = case.get("triggers", [])
    for t in trigs[: len(trigs) if upto is None else upto]:
        y = apply_trigger(t, y, da, da_mode)
        if defined is not None:
            defined = np.asarray(apply_trigger(t, defined, None, False, defined=True))
    return y, defined


def same_on(got, want, defined):
    got = np.asarray(got)
    want = np.asarray(want)
    if got.shape != want.shape:
        return False
    if defined is None or defined.shape != want.shape:
        return bool(np.array_equal(got, want))
    return bool(np.array_equal(got[defined], want[defined]))


def listed(a):
    a = np.asarray(a)
    return a.tolist() if a.size <= 64 else list(a.shape)


def optimize_expr(e):
    from dask_array._materialize import _lower

    return _lower(e, optimize_graph=True).fuse()


def evaluate(case, mode="raw", notes=None):
    """None when the property holds on this case, else (what, detail dict).  ("refusal", …) is not a failure."""
    import dask
    import dask_array as da

    notes = notes if notes is not None else {}
    with warnings.catch_warnings():
        warnings.simplefilter("ignore")
        try:
            with np.errstate(all="ignore"):
                want, defined = build(case, None, False)
        except Exception as e:  # NumPy refuses the script: nothing to decide
            return ("refusal", {"who": "numpy", "error": repr(e)[:160]})
        want = np.asarray(want)
        T.clear_caches()
        try:
            z, _ = build(case, da, True)
        except REFUSALS as e:
            return ("refusal", {"who": "dask-at-call", "error": repr(e)[:160]})
        if mode == "numpy":
            try:
                with dask.config.set({"array.optimize-graph": True}):
                    got = np.asarray(z.compute(scheduler="sync"))
            except Exception as e:  # noqa: BLE001
                return ("compute-raises", {"error": repr(e)[:300]})
            if got.shape != want.shape:
                return ("shape", {"got": list(got.shape), "want": list(want.shape)})
            if not same_on(got, want, defined):
                return ("value", {"got": listed(got), "want": listed(want), "compared_positions": listed(defined)})
            o = case.get("out")
            if (o is None or o["dtype"] == "int64") and bool(defined.all()) and got.dtype != want.dtype:
                return ("dtype", {"got": str(got.dtype), "want": str(want.dtype)})
            return None
        # ---- mode "raw": the C08 statement
        try:
            base = raw_eval(z.expr)
        except Exception as e:  # noqa: BLE001
            return ("refusal", {"who": "raw-form", "error": repr(e)[:160]})
        if not same_on(base, want, defined):
            notes["raw_differs_from_numpy"] = notes.get("raw_differs_from_numpy", 0) + 1
            if base.shape != want.shape:
                defined = None
        T.clear_caches()
        old = signal.signal(signal.SIGALRM, _alarm)
        signal.alarm(WATCHDOG_S)
        try:
            e1 = optimize_expr(z.expr)
            with T.trace_objects() as recs2:
                e2 = optimize_expr(e1)
            e3 = optimize_expr(e2) if e2._name != e1._name else e2
            s1 = z.expr.simplify()
            s2 = s1.simplify()
            l1 = s1.lower_completely()
            l2 = l1.lower_completely()
            signal.alarm(0)
        except Timeout:
            return ("watchdog-timeout", {"seconds": WATCHDOG_S})
        except Exception as e:  # noqa: BLE001
            signal.alarm(0)
            return ("optimize-raises:" + type(e).__name__, {"error": repr(e)[:300]})
        finally:
            signal.signal(signal.SIGALRM, old)
        if e2._name != e1._name:
            rules2 = "+".join(sorted({r["rule"] for r in recs2 if r["phase"] == "simplify"})) or "lower-only"
            return ("optimize-not-idempotent:" + rules2 if e3._name == e2._name else "optimize-not-converging",
                    {"first": e1._name, "second": e2._name, "rules_in_second_pass": rules2})
        if s2._name != s1._name:
            return ("simplify-not-idempotent", {"first": s1._name, "second": s2._name})
        if l2._name != l1._name:
            return ("lower-not-idempotent", {"first": l1._name, "second": l2._name})
        try:
            shp1, shp0 = tuple(e1.shape), tuple(z.shape)
        except Exception:  # noqa: BLE001
            shp1 = shp0 = ()
        if shp1 != shp0:
            return ("optimize-changes-shape", {"advertised": [int(d) for d in shp0], "optimized": [int(d) for d in shp1]})
        T.clear_caches()
        try:
            z2, _ = build(case, da, True)
        except Exception as e:  # noqa: BLE001
            return ("rebuild-raises:" + type(e).__name__, {"error": repr(e)[:300]})
        try:
            with dask.config.set({"array.optimize-graph": True}):
                got = np.asarray(z2.compute(scheduler="sync"))
        except Exception as e:  # noqa: BLE001
            return ("optimized-compute-raises:" + type(e).__name__, {"error": repr(e)[:300]})
        if not same_on(got, base, defined):
            return ("optimized-differs", {"optimized": listed(got), "raw_form": listed(base), "numpy": listed(want),
                                          "compared_positions": "all" if defined is None or bool(defined.all()) else listed(defined)})
    return None


def signature(mode, what):
    return ("whereout:" if mode == "raw" else "whereout:numpy:") + what


ENFORCE_TEXTS = ("Inferred dtype from function", "'NoneType' object has no attribute 'dtype'")


def refine(case, what, detail):
    """Narrow classes with their own signature.  where=<anything but True> with out= of a WIDER dtype: the node declares the
    ufunc's result dtype while its blocks are copies of out's blocks (registered: `where=+out=:declared-dtype-differs-from-
    computed`); as soon as one operand of the node is 0-d (a 0-d dask operand, or every operand after an integer index was
    pushed into the node) Elemwise wraps the block function in _enforce_dtype, which refuses the float64 block
    ("Inferred dtype … was 'int64' but got 'float64'"; through compute_meta returning None also "'NoneType' object has
    no attribute 'dtype'")."""
    o = case.get("out")
    if ("raises" in what and o is not None and o["dtype"] != "int64" and case.get("where") is not None
            and any(t in detail.get("error", "") for t in ENFORCE_TEXTS)):
        return "where+wider-out:enforce-dtype-raises" + (":after-pushdown" if what.startswith("optimize") else "")
    return what


def program_text(case):
    def a(s):
        if s["kind"] == "scalar":
            return repr(s["v"])
        return f"{'np' if s['kind'] == 'np' else 'da'}<{s['shape']}{'' if s['kind'] == 'np' else ' chunks=' + str(s['chunks'])}>"

    w = case.get("where")
    o = case.get("out")
    kw = ""
    if w is not None:
        kw += ", where=" + (repr(bool(w["value"])) if w["form"] == "py" else f"{w['form']}<{w['shape']}>")
    if o is not None:
        kw += f", out=o<{o['shape']} {o['dtype']} {o['make']}>"
    return f"{case.get('style', 'da')}.{case['fn']}({', '.join(a(s) for s in case['operands'])}{kw}); then " + " ; ".join(
        t["op"] + "(" + ", ".join(f"{k}={v}" for k, v in t.items() if k not in ("op", "sib")) + ")" for t in case.get("triggers", []))


def shrink(case, mode, what):
    def fails(c):
        try:
            r = evaluate(c, mode)
        except Exception:  # noqa: BLE001
            return False
        return r is not None and refine(c, r[0], r[1]) == what

    cur = copy.deepcopy(case)
    trigs = cur.get("triggers", [])
    if len(trigs) > 1:
        for keep in ([trigs[0]], [trigs[1]]):
            c = dict(cur, triggers=keep)
            if fails(c):
                cur = c
                break
    if cur.get("out") is not None:
        for c in (dict(cur, out=None, okind="none"), dict(cur, out=dict(cur["out"], make="from_array"))):
            if c != cur and fails(c):
                cur = c
                break
    ops = cur["operands"]
    if len(ops) == 2:
        for j in (0, 1):
            if ops[j]["kind"] != "scalar" and ops[1 - j]["kind"] != "scalar" and list(ops[1 - j]["shape"]) == list(cur["shape"]):
                c = dict(cur, operands=[o if i != j else {"kind": "scalar", "v": 1} for i, o in enumerate(ops)])
                if fails(c):
                    cur = c
                    break
    if cur.get("style") == "np":
        c = dict(cur, style="da")
        if fails(c):
            cur = c
    return cur


def check_case(ctx, case, mode="raw", do_shrink=True, seen=None):
    case = {k: v for k, v in case.items() if k not in ("failure", "program", "mode")}
    notes = {}
    try:
        r = evaluate(case, mode, notes)
    except Exception as e:  # a harness error must not pass silently
        ctx.notes["whereout.harness_error"] = repr(e)[:200]
        ctx.extra.setdefault("whereout_harness_error_case", case)
        return True
    for k, v in notes.items():
        ctx.notes["whereout." + k] = ctx.notes.get("whereout." + k, 0) + v
        ctx.extra.setdefault("whereout_first_" + k, dict(case, program=program_text(case)))
    if r is None:
        return True
    what, detail = r
    if what == "refusal":
        key = f"whereout.refusal.{detail['who']}.{detail['error'].split('(')[0]}"
        ctx.notes[key] = ctx.notes.get(key, 0) + 1
        ctx.extra.setdefault("whereout_first_" + key.split(".", 1)[1], dict(case, program=program_text(case), error=detail["error"]))
        return True
    what = refine(case, what, detail)
    sig = signature(mode, what)
    if seen is not None:
        if sig in seen:
            ctx.notes["whereout.further_failing." + sig] = ctx.notes.get("whereout.further_failing." + sig, 0) + 1
            return False
        seen.add(sig)
    small = case
    if do_shrink:
        try:
            small = shrink(case, mode, what)
            r2 = evaluate(small, mode)
            if r2 is not None and refine(small, r2[0], r2[1]) == what:
                detail = r2[1]
            else:
                small = case
        except Exception:  # noqa: BLE001
            small = case
    out = dict(small, mode=mode, program=program_text(small), failure=dict(detail, what=what))
    if mode == "numpy":
        out["ufunc_scenario"] = 1  # C11's replay dispatch hands such cases to c11_ufunc.check_case
    ctx.fail(sig, out,
             "a ufunc called with where= / out= followed by a consumer the optimizer rewrites through the Elemwise: "
             + ("optimization raises / is not idempotent / changes the value of a program whose raw form computes rewrite-free"
                if mode == "raw" else "the computed result differs from NumPy's for the same calls"))
    return False


# Deterministic probes of the class found on the unchanged tree (reported first, so the signature is produced in every run
# while the defect exists; the grid reaches it in most runs, not in all).
PROBES = {
    # x = from_array(3x3 int64); o = from_array(3x3 float64); da.multiply(3, x, where=np.array([…3 bools…]), out=o); o[2, 2]
    # raw form computes; the integer index pushed into the node makes every operand 0-d -> _enforce_dtype refuses the block
    "raw": {"whereout": 1, "shape": [3, 3], "wkind": "np-trail", "okind": "wider", "tkind": "int", "oppat": "plain", "fn": "multiply",
            "operands": [{"kind": "scalar", "v": 3}, {"shape": [3, 3], "chunks": [[2, 1], [2, 1]], "p": [1, 5, 7], "kind": "dask"}],
            "style": "da", "where": {"shape": [3], "chunks": [[2, 1]], "p": [7, 4, 5], "m": 3, "form": "np"},
            "out": {"shape": [3, 3], "chunks": [[2, 1], [2, 1]], "p": [7, 5, 7], "dtype": "float64", "make": "from_array"},
            "triggers": [{"op": "getitem", "index": [2, 2]}]},
    # da.add(<0-d dask>, x, where=<dask mask>, out=<float64 o>); o.T : cannot be computed at all (NumPy: fine)
    "numpy": {"whereout": 1, "shape": [3, 3], "wkind": "full", "okind": "wider", "tkind": "T", "oppat": "broadcasting", "fn": "add",
              "operands": [{"shape": [], "chunks": [], "p": [5, 2, 7], "kind": "dask"},
                           {"shape": [3, 3], "chunks": [[2, 1], [2, 1]], "p": [1, 5, 7], "kind": "dask"}],
              "style": "da", "where": {"shape": [3, 3], "chunks": [[2, 1], [2, 1]], "p": [7, 4, 5], "m": 3, "form": "dask"},
              "out": {"shape": [3, 3], "chunks": [[2, 1], [2, 1]], "p": [7, 5, 7], "dtype": "float64", "make": "from_array"},
              "triggers": [{"op": "T"}]},
}


def search(ctx, mode="raw", budget=None):
    """Walk where kind × trigger kind × operand pattern completely (every run, every seed)."""
    import random

    # a child generator: the streams that follow in the owning check draw what they drew before
    st = ctx.rng.getstate()
    rng = random.Random(ctx.rng.getrandbits(64))
    ctx.rng.setstate(st)
    t0 = time.time()
    budget = budget if budget is not None else ctx.scale(25, 200)  # safety cap only
    passes = ctx.scale(1, 8)
    seen = set()
    done = 0
    ctx.count(("whereout", mode, "probe"))
    check_case(ctx, PROBES[mode], mode, do_shrink=False, seen=seen)
    movers = ("T", "transpose", "swapaxes", "moveaxis")
    stopped = False
    for pno in range(passes):
        # quick tier: every (where kind, trigger kind) once, the operand pattern alternating over the shuffled cells;
        # the axis-moving triggers with BOTH operand patterns.  Thorough tier: the complete grid, several times.
        pairs = [(w, t) for w in WHERES for t in TRIGGERS]
        rng.shuffle(pairs)
        if ctx.scale(True, False):
            cells = [(w, t, OPPATS[(j + pno) % 2]) for j, (w, t) in enumerate(pairs)]
            cells += [(w, t, OPPATS[1 - OPPATS.index(p)]) for (w, t, p) in cells if t in movers]
        else:
            cells = [(w, t, p) for (w, t) in pairs for p in OPPATS]
        # the axis-moving triggers first (the budget cap, if it ever bites, cuts the others)
        cells.sort(key=lambda c: c[1] not in movers)
        for i, (w, t, p) in enumerate(cells):
            if time.time() - t0 > budget:
                stopped = True
                break
            case = gen_case(rng, w, t, p, out=OUTS[(i + done) % 3] if rng.random() < 0.5 else None)
            ctx.count(("whereout", mode, w, t, p, case["okind"], len(case["triggers"])))
            if done < 2:
                ctx.sample(dict(case, program=program_text(case)))
            done += 1
            check_case(ctx, case, mode, do_shrink=True, seen=seen)
        if stopped:
            ctx.notes[f"whereout.{mode}.stopped_on_budget_after"] = done
            break
    ctx.notes[f"whereout.{mode}.cases"] = done
    ctx.notes[f"whereout.{mode}.seconds"] = round(time.time() - t0, 1)
    ctx.notes["whereout.grid"] = f"{len(WHERES)} where kinds x {len(TRIGGERS)} trigger kinds ({len(OPPATS)} operand patterns): {len(cells)} cells per pass"
