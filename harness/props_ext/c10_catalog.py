"""C10 catalogue: the fingerprint executor driven over a wide catalogue of public operations.

A case is a JSON dict
  {"kind": "cat", "op": <name in OPS>, "kw": {...}, "src": [<source spec>...], "pre": <PRE>, "sib": <SIB>,
   "optimize": bool, "orders": int, "oseed": int}
source spec: {"shape", "chunks", "dtype", "dseed", "nan": fraction, "ties": bool}

For every case (everything replays from the dict alone):
  * the user's NumPy arrays are fingerprinted before / after construction, every execution, every compute;
  * roots = [outputs, a sibling consumer of the same input, the input, the raw from_array collection]; two graphs
    are executed: the per-root graphs merged (every root lowered on its own) and the JOINT graph dask.compute(*roots)
    hands to the scheduler (joint optimization + finalize tasks), in FIFO, LIFO and seeded random topological orders;
    every dependency is fingerprinted before/after every task and EVERY value is re-fingerprinted at the end of the
    execution (a value may never change after the task that made it returned);
  * results are compared bytewise across the orders of one graph, with two `sync` computes and the 4-thread scheduler
    (a difference BETWEEN the two lowerings is only noted: C02's business);
  * afterwards the values of the input collections in the last compute (= x.compute() now) and a FRESH from_array
    of identical data (which dedups to the same expression, i.e. the same blocks held in the graph) must be the
    pristine data.
Signatures: `mutates-input:<op>` and `schedule-dependent:<op>` (see run_case).
NumPy is evaluated on copies as a sanity oracle; a value mismatch on which all schedules agree is only noted
(C01's business).
"""
from __future__ import annotations

import random
import warnings

import numpy as np

from harness import graphs

try:  # the moving-window kernels are reachable only with bottleneck
    import bottleneck as bn
except Exception:  # pragma: no cover
    bn = None


# ------------------------------------------------------------------------------------------- data

def source_array(spec):
    """deterministic data of a source spec (independent of everything but the spec)"""
    r = np.random.default_rng(spec["dseed"])
    shape = tuple(spec["shape"])
    dt = np.dtype(spec["dtype"])
    if dt.kind == "b":
        a = r.random(shape) < 0.5
    elif dt.kind in "iu":
        if spec.get("perm"):
            # distinct POSITIONS of an axis of length perm (signed dtypes: about half spelled negatively, p - n)
            n = int(spec["perm"])
            size = int(np.prod(shape, dtype=int))
            pos = r.permutation(n)[:size]
            if len(pos) < size:
                pos = np.concatenate([pos, r.integers(0, max(n, 1), size=size - len(pos))])
            pos = pos.reshape(shape)
            if dt.kind == "i":
                pos = np.where(r.random(shape) < 0.5, pos - n, pos)
            a = pos.astype(dt)
        else:
            if spec.get("range"):
                lo, hi = spec["range"]  # half-open, e.g. [-n, n) for indices into an axis of length n
            else:
                lo, hi = (0, 6) if spec.get("ties") else ((0, 200) if dt.kind == "u" else (-99, 100))
            a = r.integers(lo, hi, size=shape).astype(dt)
    elif dt.kind == "c":
        a = (np.round(r.normal(size=shape) * 8, 3) + 1j * np.round(r.normal(size=shape) * 8, 3)).astype(dt)
    else:
        if spec.get("ties"):
            a = r.integers(-3, 4, size=shape).astype(dt)
        else:
            a = np.round(r.normal(size=shape) * 10, 3).astype(dt)
        if spec.get("pos"):
            a = np.abs(a) + dt.type(0.5)
        frac = spec.get("nan", 0.0)
        if frac and a.size:
            m = r.random(shape) < frac
            a[m] = np.nan
    if spec.get("sorted") and a.ndim == 1:
        a = np.sort(a)
    return np.ascontiguousarray(a)


def compose(rng, n, limit=None, parts_min=2):
    """random composition of n into positive parts each <= limit, with >= parts_min parts when possible"""
    limit = n if limit is None else max(1, limit)
    for _ in range(50):
        out = []
        left = n
        while left > 0:
            c = rng.randint(1, min(limit, left))
            out.append(c)
            left -= c
        if len(out) >= min(parts_min, n):
            return out
    return [1] * n


PATTERNS = ("one", "ones", "first1", "last1", "ragged", "regular", "zero")


def chunk_pattern(rng, n, pat, limit=None):
    if n <= 1 or pat == "one":
        return [n] if (limit is None or n <= limit or pat == "one") else compose(rng, n, limit)
    if pat == "ones":
        return [1] * n
    if pat == "first1":
        return [1] + compose(rng, n - 1, limit, parts_min=1 if n <= 2 else rng.randint(1, 2))
    if pat == "last1":
        return compose(rng, n - 1, limit, parts_min=1 if n <= 2 else rng.randint(1, 2)) + [1]
    if pat == "regular":
        k = rng.randint(1, max(1, min(limit or n, n // 2)))
        return [k] * (n // k) + ([n % k] if n % k else [])
    if pat == "zero":
        c = compose(rng, n, limit)
        c.insert(rng.randrange(len(c) + 1), 0)
        return c
    return compose(rng, n, limit)


def mk_src(rng, shape, chunks, dtype="f8", nan=0.0, ties=False, **extra):
    d = {"shape": list(shape), "chunks": [list(c) for c in chunks], "dtype": dtype, "dseed": rng.randrange(1 << 31),
         "nan": nan, "ties": ties}
    d.update(extra)
    return d


def rand_chunks(rng, shape, pats=("one", "ragged", "regular", "first1", "last1", "ones")):
    return [chunk_pattern(rng, n, rng.choice(pats)) for n in shape]


# --------------------------------------------------------------------------------------- executor

def execute(tasks, rng=None, order="random", allowed=None):
    """graphs.execute plus a final sweep: (values, mutations) where mutations lists
    (task_key, value_key, kind), kind 'dep' (changed while task_key ran, task_key depends on it) or
    'late' (a value whose fingerprint at the end of the execution differs from the one it had when the
    task that made it returned; task_key None).  `allowed(value)` exempts values (store targets)."""
    deps = graphs.dependencies(tasks)
    indeg = {k: len([d for d in ds if d in tasks]) for k, ds in deps.items()}
    rdeps = {k: [] for k in tasks}
    for k, ds in deps.items():
        for d in ds:
            if d in rdeps:
                rdeps[d].append(k)
    ready = sorted((k for k, n in indeg.items() if n == 0), key=repr)
    values, fps, born, mutations = {}, {}, {}, []
    flagged = set()
    while ready:
        if rng is not None and order == "random":
            i = rng.randrange(len(ready))
        elif order == "lifo":
            i = len(ready) - 1
        else:
            i = 0
        k = ready.pop(i)
        dvals = {d: values[d] for d in deps[k]}
        before = {d: fps[d] for d in dvals}
        values[k] = tasks[k](dvals)
        for d, v in dvals.items():
            after = graphs.fingerprint(v)
            if after != before[d] and not (allowed is not None and allowed(v)):
                mutations.append((k, d, "dep"))
                flagged.add(d)
            fps[d] = after
        fps[k] = born[k] = graphs.fingerprint(values[k])
        for r in rdeps[k]:
            indeg[r] -= 1
            if indeg[r] == 0:
                ready.append(r)
    if len(values) != len(tasks):
        raise RuntimeError("graph has a cycle or missing dependency; executed %d of %d" % (len(values), len(tasks)))
    for k, v in values.items():
        if k not in flagged and graphs.fingerprint(v) != born[k] and not (allowed is not None and allowed(v)):
            mutations.append((None, k, "late"))
    return values, mutations


def same(a, b):
    a = np.asarray(a)
    b = np.asarray(b)
    return a.shape == b.shape and a.dtype == b.dtype and graphs.fingerprint(a) == graphs.fingerprint(b)


def close(got, want):
    got = np.asarray(got)
    want = np.asarray(want)
    if got.shape != want.shape:
        return False
    if got.dtype.kind in "iub" and want.dtype.kind in "iub":
        return bool(np.array_equal(got, want))
    try:
        tol = 2e-3 if "float32" in (str(got.dtype), str(want.dtype)) or "complex64" in (str(got.dtype), str(want.dtype)) else 1e-7
        return bool(np.allclose(got, want, rtol=tol, atol=tol * 1e-2, equal_nan=True))
    except Exception:
        return True


def head(a, n=8):
    return np.asarray(a).ravel()[:n].tolist()


# ------------------------------------------------------------------------------------ construction

PRES = ("none", "ident", "add0", "slice", "merge_split", "persist")
SIBS = ("cumsum", "neg", "none")


def _ident(b):
    return b


def build_sources(case):
    """user arrays (the objects handed to from_array), pristine copies of the LOGICAL data"""
    user, pristine = [], []
    for spec in case["src"]:
        data = source_array(spec)
        pristine.append(data.copy())
        if case["pre"] == "slice" and data.ndim >= 1:
            pad = np.zeros((1,) + data.shape[1:], dtype=data.dtype)
            data = np.ascontiguousarray(np.concatenate([pad, data], axis=0))
        user.append(data)
    return user, pristine


def raw_collection(da, spec, data, pre):
    ch = [tuple(c) for c in spec["chunks"]]
    if pre == "slice" and data.ndim >= 1:
        ch[0] = (ch[0][0] + 1,) + tuple(ch[0][1:])
    return da.from_array(data, chunks=tuple(ch))


def apply_pre(da, x, spec, pre):
    if pre == "ident":
        return x.map_blocks(_ident, dtype=x.dtype)
    if pre == "add0":
        return x + np.zeros((), dtype=x.dtype) if x.dtype.kind != "b" else x | False
    if pre == "slice" and x.ndim >= 1:
        return x[1:]
    if pre == "merge_split" and x.ndim >= 1:
        return x.rechunk(tuple(-1 for _ in x.shape)).rechunk(tuple(tuple(c) for c in spec["chunks"]))
    if pre == "persist":
        return x.persist(scheduler="sync")
    return x


def sibling(da, x, sib):
    if x.ndim == 0 or sib == "none":
        return None
    if sib == "cumsum":
        return x.cumsum(axis=x.ndim - 1)
    return ~x if x.dtype.kind == "b" else -x


def flatten_outputs(da, out):
    if isinstance(out, da.Array):
        return [out]
    if isinstance(out, (tuple, list)):
        r = []
        for o in out:
            r += flatten_outputs(da, o)
        return r
    return []


# ---------------------------------------------------------------------------------------- run_case

MUTATION_KINDS = ("dependency-mutated", "value-changed-after-creation", "source-mutated", "source-collection-changed")
OWNERSHIP_KINDS = ("result-aliases-held-data",)


def snapshot(v):
    """private copy of a result (a result may BE a block held in the graph: comparisons must not follow later writes)"""
    if isinstance(v, np.ndarray):
        return v.copy()
    if isinstance(v, (list, tuple)):
        return type(v)(snapshot(e) for e in v)
    return v


def scribble(arrays):
    """what a user may do with arrays compute() RETURNED: overwrite them in place.  Returns how many were overwritten."""
    n = 0
    for g in arrays:
        if isinstance(g, np.ndarray) and g.size and g.flags.writeable:
            try:
                if g.dtype.kind == "b":
                    g[...] = ~np.asarray(g)
                elif g.dtype.kind in "iufc":
                    g[...] = 77
                else:
                    continue
                n += 1
            except Exception:
                pass
    return n


def held_arrays(*graphs_):
    """NumPy arrays stored as DATA in graphs (persisted blocks, from_array blocks)"""
    out = []
    for dsk in graphs_:
        for v in dsk.values():
            v = getattr(v, "value", v)
            if isinstance(v, np.ndarray) and v.size:
                out.append(v)
    return out
SCHEDULE_KINDS = ("order-dependent-outcome", "order-dependent-result", "recompute-differs", "threads-differ", "store-target-wrong")


def joint_graph(roots):
    """the graph dask.compute(*roots) hands to the scheduler (joint optimization + finalize tasks) and its output keys"""
    from dask._expr import FinalizeCompute
    from dask.base import collections_to_expr
    from dask.core import flatten

    expr = FinalizeCompute(collections_to_expr(roots, True)).optimize()
    return dict(expr.__dask_graph__()), list(flatten(expr.__dask_keys__()))


def run_case(ctx, case, count=True):
    """Returns list of (signature, detail) — empty when the property holds — or None when skipped.
    Signatures: `mutates-input:<op>` (a task changed a dependency / a value changed after its creation / the user's
    array or the data behind the from_array collection changed) and `schedule-dependent:<op>` (results differ between
    topological orders, between two computes, or between serial and threaded execution, without an observed mutation)."""
    import dask
    import dask_array as da

    from harness.props_ext.c10_ops import OPS

    op = case["op"]
    entry = OPS[op]
    note = lambda k, n=1: ctx.notes.__setitem__(k, ctx.notes.get(k, 0) + n)
    raw = []
    culprits = set()

    def fail(kind, detail):
        raw.append((kind, detail))

    def culprit(key):
        name = key[0] if isinstance(key, tuple) else key
        culprits.add(str(name).split("-")[0])

    def collapse():
        out = []
        for name, kinds in (("result-aliased", OWNERSHIP_KINDS), ("mutates-input", MUTATION_KINDS), ("schedule-dependent", SCHEDULE_KINDS)):
            ds = []
            for k in kinds:
                d = next((d for kk, d in raw if kk == k), None)
                if d is not None:
                    ds.append(f"[{k}] {d}")
            if ds and name == "result-aliased":
                # the finalizer's business, whatever the operation: one signature
                out.append(("result-aliased:compute", " ;; ".join(ds)[:900]))
                continue
            if ds and not (name == "schedule-dependent" and out):
                who = op
                # every mutating task belongs to the sibling consumer (x.cumsum / -x), not to the operation of the case
                if name == "mutates-input" and culprits and case["sib"] != "none" and culprits <= {case["sib"], "cumsum", "neg", "invert"} \
                        and op not in ("cumsum", "cumsum_method", "negative"):
                    who = f"sibling.{sorted(culprits)[0]}"
                out.append((f"{name}:{who}", " ;; ".join(ds)[:900]))
        return out

    user, pristine = build_sources(case)
    ufp = [(graphs.fingerprint(u), u.flags.writeable) for u in user]
    ucopy = [u.copy() for u in user]

    def users_changed(when):
        for i, u in enumerate(user):
            if (graphs.fingerprint(u), u.flags.writeable) != ufp[i]:
                fail("source-mutated", f"the NumPy array handed to from_array (source {i}) changed {when}: "
                     f"{head(ucopy[i])} -> {head(u)}")
                u.flags.writeable = True
                u[...] = ucopy[i]

    with dask.config.set({"array.optimize-graph": case["optimize"]}), warnings.catch_warnings():
        warnings.simplefilter("ignore")
        try:
            X = [raw_collection(da, s, u, case["pre"]) for s, u in zip(case["src"], user)]
            A = [apply_pre(da, x, s, case["pre"]) for x, s in zip(X, case["src"])]
            # snapshots: an operation may REBIND the collections it is given (out=, +=, setitem)
            X0 = [x.copy() for x in X]
            A0 = [a.copy() for a in A]
            sib = sibling(da, A0[0], case["sib"])
            extra = {}
            outs = flatten_outputs(da, entry["da"](da, list(A), case["kw"], extra))
            if not outs:
                note("cat.no_array_output")
                return None
        except NotImplementedError:
            note("cat.refused_at_construction")
            return None
        except Exception as e:
            note("cat.construction_raised")
            ex = ctx.notes.setdefault("cat.construction_raised_examples", [])
            if len(ex) < 6:
                ex.append(f"{op} {case['kw']}: {type(e).__name__}: {str(e)[:90]}")
            users_changed("while the operation was built (it raised)")
            return collapse() or None
        users_changed("while the graph was built")
        allowed = extra.get("allowed")
        roots = outs + ([sib] if sib is not None else []) + A0 + X0
        nout = len(outs)
        try:
            dsk = {}
            held = []  # data held in the graphs (per root: a persisted collection and its from_array twin share key names)
            for r in roots:
                g = dict(r.__dask_graph__())
                held += held_arrays(g)
                dsk.update(g)
            tasks = graphs.to_tasks(dsk)
            missing, cycle = graphs.check_closed_acyclic(tasks)
            jdsk, jkeys = joint_graph(roots)
            held += held_arrays(jdsk)
            jtasks = graphs.to_tasks(jdsk)
            jmissing, jcycle = graphs.check_closed_acyclic(jtasks)
        except Exception as e:
            note("cat.graph_build_raised")
            ex = ctx.notes.setdefault("cat.graph_build_raised_examples", [])
            if len(ex) < 6:
                ex.append(f"{op} {case['kw']}: {type(e).__name__}: {str(e)[:90]}")
            return collapse() or None
        if missing or cycle or jmissing or jcycle:
            note("cat.not_closed_or_cyclic(C04)")
            return collapse() or None
        users_changed("while the graph was materialized")

        # per-root graphs merged (every root lowered on its own) and the joint graph of dask.compute(*roots)
        orders = [("merged", "fifo", None), ("joint", "lifo", None)]
        orders += [("joint" if i % 2 == 0 else "merged", "random", case["oseed"] * 1000 + i) for i in range(case["orders"])]
        refs = {"merged": None, "joint": None}
        for which, oname, oseed in orders:
            tag = f"{which} graph, order {oname}/{oseed}"
            try:
                values, muts = execute(tasks if which == "merged" else jtasks, rng=random.Random(oseed) if oseed is not None else None,
                                       order=oname, allowed=allowed)
                res = [graphs.assemble(r, values) for r in roots] if which == "merged" else [values[k] for k in jkeys]
                outcome = ("ok", [snapshot(v) for v in res])
            except Exception as e:
                muts = []
                outcome = ("raise", f"{type(e).__name__}: {str(e)[:160]}")
            for tk, dk, kind in muts[:3]:
                if kind == "dep":
                    culprit(tk)
                    fail("dependency-mutated", f"{tag}: task {tk!r} changed the value of its dependency {dk!r}")
                else:
                    fail("value-changed-after-creation", f"{tag}: the value of {dk!r} changed after the task that made it returned")
            users_changed(f"during serial execution ({tag})")
            ref = refs[which]
            if ref is None:
                refs[which] = (tag, outcome)
            elif outcome[0] != ref[1][0]:
                fail("order-dependent-outcome", f"{ref[0]} -> {ref[1][0]} {ref[1][1] if ref[1][0] == 'raise' else ''}; {tag} -> {outcome[0]} {outcome[1] if outcome[0] == 'raise' else ''}")
            elif outcome[0] == "ok":
                for i, (a, b) in enumerate(zip(ref[1][1], outcome[1])):
                    if not same(a, b):
                        fail("order-dependent-result", f"root {i} ({'output' if i < nout else 'input/sibling'}): {ref[0]} vs {tag}: {head(a)} vs {head(b)}")
            if count:
                ctx.count()
        # the two graphs are DIFFERENT lowerings of the same arrays: one raising / rounding differently is not
        # schedule dependence (C02's business) -> noted; the stock schedulers run the joint graph
        m, j = refs["merged"][1], refs["joint"][1]
        if m[0] != j[0]:
            note("cat.per_root_vs_joint_graph_outcome_differs(C02)")
            ex = ctx.notes.setdefault("cat.per_root_vs_joint_examples", [])
            if len(ex) < 4:
                ex.append(f"{op} {case['kw']} {[s['chunks'] for s in case['src']]}: merged {m[0]} {m[1] if m[0] == 'raise' else ''} / joint {j[0]} {j[1] if j[0] == 'raise' else ''}")
        elif m[0] == "ok" and not all(same(a, b) or close(a, b) for a, b in zip(m[1], j[1])):
            note("cat.per_root_vs_joint_graph_values_differ(C02)")
            ex = ctx.notes.setdefault("cat.per_root_vs_joint_examples", [])
            if len(ex) < 4:
                ex.append(f"{op} {case['kw']} {[s['chunks'] for s in case['src']]}: values differ between the two lowerings")
        ref = j
        if ref[0] == "raise":
            note("cat.all_orders_raise")
            ex = ctx.notes.setdefault("cat.all_orders_raise_examples", [])
            if len(ex) < 6:
                ex.append(f"{op} {case['kw']} {[s['chunks'] for s in case['src']]}: {ref[1][:90]}")
            return collapse()
        # the stock schedulers, twice each: a second compute of the same graph must equal the first
        # RESULT OWNERSHIP: every array a compute returned is then overwritten in place (the user's right); the next
        # compute, the sources and the data held in the graphs (persisted blocks) must not notice
        last = None
        aliased = []
        scribbled = ""
        mark = None
        owned_broken = False
        for sched, kw, sig, reps in (("sync", {}, "recompute-differs", 2), ("threads", {"num_workers": 4}, "threads-differ", case.get("threads", 1))):
            for rep in range(reps):
                try:
                    got = dask.compute(*roots, scheduler=sched, **kw)
                except Exception as e:
                    fail("order-dependent-outcome", f"instrumented orders succeed, compute(scheduler={sched!r}) run {rep} raises {type(e).__name__}: {str(e)[:160]}")
                    break
                users_changed(f"during compute(scheduler={sched!r})")
                for i, (a, b) in enumerate(zip(ref[1], got)):
                    if not same(a, b):
                        fail(sig, f"root {i} ({'output' if i < nout else 'input/sibling'}): first serial execution vs compute({sched}) run {rep}{scribbled}: {head(a)} vs {head(b)}")
                last = [snapshot(g) for g in got]
                for i, g in enumerate(got):
                    if isinstance(g, np.ndarray) and g.size and g.flags.writeable and not (allowed is not None and allowed(g)):
                        if any(np.may_share_memory(g, h) and np.shares_memory(g, h) for h in held + user):
                            aliased.append((i, sched))
                if mark is None:
                    mark = len(raw)
                if scribble([g for g in got if not (allowed is not None and allowed(g))]):
                    scribbled = " (after the arrays returned by the previous compute were overwritten in place)"
                    note("cat.results_overwritten")
                users_changed(f"when the arrays returned by compute(scheduler={sched!r}) were overwritten in place (a result aliases the user's array)")
                if count:
                    ctx.count()
        if aliased:
            note("cat.result_aliases_held_data")
            try:
                again = dask.compute(*roots, scheduler="sync")
                for i, (a, b) in enumerate(zip(ref[1], again)):
                    if not same(a, b):
                        # what the overwritten blocks did to later computes / to the sources is a consequence: one failure
                        del raw[mark:]
                        owned_broken = True
                        fail("result-aliases-held-data", f"root {aliased[0][0]} returned by compute({aliased[0][1]}) is writeable and shares memory with data held in the graph "
                             f"(persisted / source block); after overwriting the returned arrays in place, root {i} computes to {head(b)} instead of {head(a)}")
                        break
            except Exception as e:
                fail("result-aliases-held-data", f"recompute after overwriting returned arrays raises {type(e).__name__}: {str(e)[:120]}")
        # the source afterwards
        # (the input collections A0 / X0 are roots: their values in the LAST compute are what x.compute() returns now)
        nsrc = len(X0)
        for i, (x, a, p, s) in enumerate(zip(X0, A0, pristine, case["src"])):
            try:
                if last is not None:
                    after, rawv = last[len(roots) - 2 * nsrc + i], last[len(roots) - nsrc + i]
                else:
                    after, rawv = a.compute(scheduler="sync"), x.compute(scheduler="sync")
                fresh = raw_collection(da, s, ucopy[i].copy(), case["pre"]).compute(scheduler="sync")
            except Exception as e:
                fail("order-dependent-outcome", f"computing source {i} afterwards raises {type(e).__name__}: {str(e)[:160]}")
                continue
            if owned_broken:
                continue
            # (the `add0` wrapper turns -0.0 into 0.0, as NumPy's own `p + 0` does: compare with that)
            if not same(after, p + 0 if case["pre"] == "add0" and p.dtype.kind in "fc" else p):
                fail("source-collection-changed", f"source {i}: x.compute() after the computation no longer returns the source data: {head(p)} -> {head(after)}")
            elif not same(rawv, ucopy[i]):
                fail("source-collection-changed", f"source {i}: from_array(...).compute() after the computation no longer returns the data: {head(ucopy[i])} -> {head(rawv)}")
            elif not same(fresh, ucopy[i]):
                fail("source-collection-changed", f"source {i}: a FRESH from_array of identical data computes to {head(fresh)} instead of {head(ucopy[i])}")
        users_changed("by the end of the case")
        # store-like operations: the targets must hold what NumPy says (checked by the op itself)
        post = extra.get("post")
        if post is not None:
            for kind, detail in post(pristine) or []:
                fail(kind, detail)
        # NumPy sanity oracle (notes only)
        npf = entry.get("np")
        if npf is not None:
            try:
                with np.errstate(all="ignore"):
                    want = npf([p.copy() for p in pristine], case["kw"])
                want = list(want) if isinstance(want, (tuple, list)) else [want]
                for g, w in zip(ref[1][:nout], want):
                    if w is not None and not close(g, w):
                        note("cat.numpy_mismatch_with_all_orders_agreeing(C01)")
                        ex = ctx.notes.setdefault("cat.numpy_mismatch_examples", [])
                        if len(ex) < 6:
                            ex.append({"op": op, "kw": case["kw"], "src": case["src"], "pre": case["pre"], "got": head(g), "numpy": head(w)})
                        break
                else:
                    note("cat.numpy_agrees")
            except Exception as e:
                note("cat.numpy_oracle_raised")
                ex = ctx.notes.setdefault("cat.numpy_oracle_raised_examples", [])
                if len(ex) < 6:
                    ex.append(f"{op} {case['kw']}: {type(e).__name__}: {str(e)[:80]}")
        if count:
            ctx.count(("cat", op, case["pre"], case["optimize"]), n=0)
            ctx.count(("cat-kw", op, tuple(sorted((k, repr(v)) for k, v in case["kw"].items() if isinstance(v, (bool, str, type(None))))),
                       tuple(chunk_class(c) for s in case["src"] for c in s["chunks"])), n=0)
            note("cat.tasks_executed", (len(tasks) + len(jtasks)) * len(orders) // 2)
            note("cat.cases")
    return collapse()


def chunk_class(c):
    if len(c) == 1:
        return "one"
    z = "z" if 0 in c else ""
    if all(v == 1 for v in c):
        return "ones"
    return ("f1" if c[0] == 1 else "") + ("l1" if c[-1] == 1 else "") + z or "multi"


def report(ctx, case, fails):
    seen = set()
    for sig, detail in fails:
        if sig not in seen:
            seen.add(sig)
            ctx.fail(sig, case, detail)
