"""History-independence oracle shared by C14 / C15 / C16.

A result that depends only on its arguments and on the configuration in force must be the same whether the call is
the FIRST of its kind in a brand-new interpreter or comes after other calls under other configurations.  `run_fresh`
evaluates `harness.props.<module>.<func>(payload)` in a new interpreter (same environment, so a private copy given by
VERIF_REPO is honoured) and returns its JSON result; the caller compares it with what it saw in its own process.
One interpreter per batch (about 1 s), not per case.
"""
from __future__ import annotations

import json
import os
import subprocess
import sys
from pathlib import Path

VERIF = Path(__file__).resolve().parents[2]


def run_fresh(module: str, func: str, payload, timeout: float = 300.0):
    code = (
        "import sys, json, warnings\n"
        "warnings.simplefilter('ignore')\n"
        f"from harness.props import {module} as M\n"
        f"out = M.{func}(json.load(sys.stdin))\n"
        "sys.stdout.write('\\n@@FRESH@@' + json.dumps(out))\n"
    )
    p = subprocess.run([sys.executable, "-c", code], input=json.dumps(payload), capture_output=True, text=True,
                       cwd=str(VERIF), env=dict(os.environ), timeout=timeout)
    if p.returncode != 0 or "@@FRESH@@" not in p.stdout:
        raise RuntimeError(f"fresh interpreter failed ({p.returncode}): {p.stderr[-800:]}")
    return json.loads(p.stdout.rsplit("@@FRESH@@", 1)[1])
