"""C01 (values) / C03 (per-block shapes) — `reshape`: correspondence of the Lean model of the reshape planner
(lean/DaskArrayModel/Model/Reshape.lean; driver family `rsh.*`, Drv/Reshape.lean) with the implementation
(`dask_array/manipulation/_reshape.py`), and an end-to-end failing-input search on the public reshape API
with NumPy as the oracle.

Three parts, all driven by `ctx.rng`:

(1) CORRESPONDENCE, model vs the REAL functions on the same generated inputs (`ctx.correspond`):
    * family `reshape_rechunk`: `rsh.plan` / `rsh.plan_noexp` vs `reshape_rechunk(inshape, outshape, inchunks[, True])[:2]`
      (exceptions -> `err <Class>`), on a small stream (rank 0..5, 0/1-length axes, uneven chunks, zero-width
      chunks at function level only, structured merges/splits, random factorizations, size-mismatched and
      otherwise rejected output shapes) and a large stream (dims 10..100, rank <= 4) in which
      `_smooth_chunks` really splits;
    * family `reshape_helpers`: `rsh.expand`, `rsh.contract`, `rsh.smooth` vs `expand_tuple`, `contract_tuple`,
      `_smooth_chunks(ileft, ii, max_in_chunk, list(chunks))` (planner-shaped lists plus arbitrary ones);
    * family `reshape_layer`: `rsh.block` (the element map of the blockwise plan: output element -> output block
      number, flat position in the block, input multi-index) vs the same three numbers READ OFF THE REAL LAYER
      (`Reshape(x.expr, outshape)._lower()._layer()`: key order, the input key inside each Task, the shape
      argument of each Task, `lowered.array.chunks`, `lowered.chunks`).
    A mismatch is a model / implementation disagreement, never by itself a violation.  Every disagreement of
    the first and third family whose input is a valid chunking (and every real plan that is not a well-formed
    blockwise plan: axis sums, block counts, per-block sizes) is LIFTED to API level (targeted search): the same
    (shape, chunks, newshape) through the public `reshape` against NumPy, values and per-block shapes;
    `ctx.fail` only if the real result is wrong.

(2) END-TO-END SEARCH on the real public API, NumPy as oracle, integer data (`np.arange`), exact comparison,
    every case under `array.optimize-graph` True and False, `scheduler="sync"`:
    a. `x.reshape(newshape)`, `x.reshape(*newshape)`, `da.reshape(x, newshape)`, `x.ravel()`, `x.flatten()`,
       `da.ravel(x)`, `merge_chunks=False`; newshape from merges / splits / mixtures / inserted 1s / full
       flatten / random factorizations of the size;
    b. one entry of newshape replaced by -1;
    c. reshape of a slice, of a transpose, of `x + 1`, of a rechunk;
    d. reshape followed by a slice (slice objects only), `.sum(axis=k)`, `.sum()`, `.T`, an elementwise op,
       a second reshape;
    e. per-block: every key of the reshaped array's real graph is materialized; the value at key
       `(y.name, *bid)` must have the shape `.chunks` advertises and equal the NumPy slice of the expected
       result; every key of `__dask_keys__()` must be present.
    `NotImplementedError` while BUILDING a reshape is the documented refusal (counted, never a failure);
    `ValueError` while building when NumPy rejects the new shape too is agreement.  Anything else that raises,
    a wrong shape / dtype kind / value, or a block that differs from `.chunks` is reported with the concrete
    input (`reshape:raises:<Class>`, `reshape:value-mismatch`, `reshape:shape-mismatch`, `reshape:block-shape`,
    `reshape:block-values`, `reshape:missing-key`, `reshape:accepts-size-mismatch`).

    The random stream stays on positive-length axes with positive chunks, plus zero-size arrays held in ONE
    block (fast path).  It never generates sliding-window reductions, integer indices into a reshape result
    (known finding `reshape-int-slice-pushdown`), empty slices of a reshape result (pushdown would build a
    multi-block zero-size reshape), zero-width chunks, multi-block zero-size inputs, or a one-element slice of
    a reshape result that has more than twice as many axes as the operand (pushdown builds `Reshape` on an
    all-length-1 operand): those are the defect classes of NEW_FINDINGS, each reproduced by ONE deterministic
    probe (`probe_findings`) and by nothing else.

(3) `ctx.count` per explored case: (call variant, operand, consumer, rank in, rank out, kind of regrouping,
    optimize flag), `None` for single-block inputs.

`replay(ctx, case)` re-runs one failure from its case dict alone (`"reshape": True`).
"""
from __future__ import annotations

import itertools
import warnings

import numpy as np

from harness import graphs as G

NEW_FINDINGS = (
    "reshape-zero-size:raises-TypeError",
    "reshape-zero-size:missing-dependency",
    "resolved-zero-chunk:reshape",
    "reshape-slice-pushdown:unit-operand:IndexError",
)

_PROBES = (
    # (signature, case, what)
    (NEW_FINDINGS[0],
     {"shape": [2, 0], "chunks": [[1, 1], [0]], "newshape": [0], "call": "method-args"},
     "da.from_array(np.zeros((2,0)), chunks=((1,1),(0,))).reshape(0): multi-block zero-size array whose zero axis "
     "does not line up raises at construction; NumPy returns shape (0,)"),
    (NEW_FINDINGS[1],
     {"shape": [0, 6], "chunks": [[0], [2, 4]], "newshape": [2, 3, 0, 6], "call": "method-args"},
     "da.from_array(np.zeros((0,6)), chunks=((0,),(2,4))).reshape(2,3,0,6).compute(): multi-block zero-size array, "
     "input and output block counts differ ('Missing dependency'); NumPy returns shape (2,3,0,6)"),
    (NEW_FINDINGS[2],
     {"shape": [2, 3], "chunks": [[2, 0], [3]], "newshape": [6], "call": "method-args"},
     "da.from_array(np.arange(6).reshape(2,3), chunks=((2,0),(3,))).reshape(6).compute(): a zero-width chunk "
     "makes the reshape raise; NumPy returns arange(6)"),
    (NEW_FINDINGS[3],
     {"shape": [2], "chunks": [[1, 1]], "newshape": [2, 1, 1], "call": "method-args", "post": ["slice", [[0, 1, None]]]},
     "da.from_array(np.arange(2), chunks=1).reshape(2,1,1)[0:1].compute(): the slice is pushed through the reshape and "
     "`Reshape` is built directly (no one-block fast path) on an operand whose axes all have length 1 with more than twice "
     "as many output axes: reshape_rechunk((1,), (1,1,1), ((1,),)) indexes `inshape[-2]` -> IndexError under optimization "
     "(fine with array.optimize-graph=False); NumPy returns [[[0]]]"),
)


# --------------------------------------------------------------------------------------------- tokens

def fl(l):
    l = list(l)
    return "_" if not l else ",".join(str(int(v)) for v in l)


def fll(ll):
    ll = list(ll)
    return "-" if not ll else ";".join(fl(l) for l in ll)


def _fslots(r):
    r = list(r)
    return "-" if not r else ";".join("N" if t is None else fl(t) for t in r)


def _pl(tok):
    return [] if tok == "_" else [int(v) for v in tok.split(",")]


def _pll(tok):
    return [] if tok == "-" else [_pl(t) for t in tok.split(";")]


def _prod(l):
    p = 1
    for v in l:
        p *= int(v)
    return p


def _note(ctx, k, n=1):
    ctx.notes["rsh." + k] = ctx.notes.get("rsh." + k, 0) + n


# ----------------------------------------------------------------------------------------- generators

def _rand_chunks(rng, n, zero=0.0):
    """A chunking of an axis of length n; with probability-like weight `zero` zero-width chunks are sprinkled in
    (function-level correspondence only)."""
    if n == 0:
        return (0,) if rng.random() >= zero else (0, 0)
    out = []
    r = n
    while r > 0:
        c = rng.randint(1, max(1, min(r, rng.choice([1, 2, 3, r]))))
        out.append(c)
        r -= c
        if rng.random() < zero:
            out.append(0)
    return tuple(out)


def _styled_chunks(rng, n):
    """Positive chunks of a positive axis in the styles users write: one chunk, all ones, uniform, ragged."""
    k = rng.random()
    if k < 0.22:
        return (n,)
    if k < 0.37:
        return (1,) * n
    if k < 0.60:
        c = rng.randint(1, n)
        q, r = divmod(n, c)
        return (c,) * q + ((r,) if r else ())
    return _rand_chunks(rng, n)


def _divisors(n):
    return [d for d in range(1, n + 1) if n % d == 0]


def _factor_shape(rng, n, k):
    """A random factorization of n (> 0) into k factors."""
    out = []
    for _ in range(k - 1):
        divs = _divisors(n)
        proper = divs[1:-1]
        d = rng.choice(proper) if proper and rng.random() < 0.7 else rng.choice(divs)
        out.append(d)
        n //= d
    out.append(n)
    rng.shuffle(out)
    return out


def _structured_out(rng, inshape, ones=0.15, maxgroup=3):
    """An output shape made of kept axes, merged groups of axes and split axes (plus inserted 1s)."""
    out = []
    i = 0
    rank = len(inshape)
    while i < rank:
        r = rng.random()
        if r < 0.3:
            out.append(inshape[i])
            i += 1
        elif r < 0.6:
            k = rng.randint(2, maxgroup)
            out.append(_prod(inshape[i:i + k]))
            i += k
        else:
            d = inshape[i]
            if d > 0:
                out += _factor_shape(rng, d, rng.randint(2, maxgroup))
            else:
                out.append(0)
            i += 1
        if rng.random() < ones:
            out.append(1)
    if rng.random() < ones:
        out.insert(0, 1)
    return out


def gen_plan_small(rng):
    """(inshape, outshape, inchunks) for the function-level correspondence: rank 0..5, 0/1-length axes, uneven and
    zero-width chunks, accepted and rejected output shapes."""
    rank = rng.randint(0, 5)
    inshape = [rng.choice([0, 1, 1, 2, 2, 3, 4, 5, 6, 8, 12]) if rng.random() < 0.9 else rng.randint(1, 30) for _ in range(rank)]
    if rng.random() < 0.8:
        inshape = [d if d else rng.choice([1, 2, 3]) for d in inshape]
    zero = 0.1 if rng.random() < 0.15 else 0.0
    inchunks = [_rand_chunks(rng, d, zero) if rng.random() < 0.7 else (_styled_chunks(rng, d) if d else (0,)) for d in inshape]
    mode = rng.random()
    if mode < 0.6:
        outshape = _structured_out(rng, inshape)
    elif mode < 0.85:
        n = _prod(inshape)
        if n > 0:
            outshape = _factor_shape(rng, n, rng.randint(1, 4))
        else:
            outshape = [rng.choice([0, 1, 2, 3]) for _ in range(rng.randint(1, 4))]
    else:
        outshape = [rng.choice([0, 1, 2, 3, 4, 6]) for _ in range(rng.randint(0, 4))]
    return tuple(inshape), tuple(outshape), tuple(inchunks)


def gen_plan_large(rng):
    """Larger axes (up to 100, rank <= 4) so that the smoothing step of the planner really splits chunks."""
    rank = rng.randint(1, 4)
    inshape = [rng.choice([1, 2, 3, 4, 6, 8, 10, 12, 16, 20, 24, 30, 36, 48, 60, 100]) for _ in range(rank)]
    inchunks = [_styled_chunks(rng, d) for d in inshape]
    out = []
    i = 0
    while i < rank:
        r = rng.random()
        if r < 0.2:
            out.append(inshape[i])
            i += 1
        elif r < 0.6:
            k = rng.randint(2, 4)
            out.append(_prod(inshape[i:i + k]))
            i += k
        else:
            out += _factor_shape(rng, inshape[i], rng.randint(2, 4))
            i += 1
    return tuple(inshape), tuple(out), tuple(inchunks)


def regroup_kind(i, o):
    """What the right-to-left walk of the planner does for inshape -> outshape, without looking at chunks."""
    i, o = [int(v) for v in i], [int(v) for v in o]
    if i == o:
        return "identity"
    if _prod(i) != _prod(o):
        return "size-mismatch"
    if 0 in i or 0 in o:
        return "zero-size"
    ii, oi = len(i) - 1, len(o) - 1
    kinds = set()
    while ii >= 0 or oi >= 0:
        din = i[ii] if ii >= 0 else 1
        dout = o[oi] if oi >= 0 else 1
        if din == dout:
            if ii < 0:
                kinds.add("add1")
            elif oi < 0:
                kinds.add("drop1")
            ii -= 1
            oi -= 1
        elif din == 1:
            kinds.add("drop1")
            ii -= 1
        elif dout == 1:
            kinds.add("add1")
            oi -= 1
        elif din < dout:
            left = ii - 1
            while left >= 0 and _prod(i[left:ii + 1]) < dout:
                left -= 1
            if left < 0 or _prod(i[left:ii + 1]) != dout:
                return "unsupported"
            kinds.add("merge")
            oi -= 1
            ii = left - 1
        else:
            left = oi - 1
            while left >= 0 and _prod(o[left:oi + 1]) < din:
                left -= 1
            if left < 0 or _prod(o[left:oi + 1]) != din:
                return "unsupported"
            kinds.add("split")
            ii -= 1
            oi = left - 1
    return "+".join(sorted(kinds)) or "identity"


def _branch_key(req, model):
    t = req.split()
    cmd = t[0]
    cls = model if model.startswith("err") else model.split(" ", 1)[0]
    try:
        if cmd in ("rsh.plan", "rsh.plan_noexp", "rsh.block"):
            i, o = _pl(t[1]), _pl(t[2])
            multi = any(len(c) > 1 for c in _pll(t[3]))
            return (cmd, cls, len(i), len(o), regroup_kind(i, o), multi)
        if cmd in ("rsh.expand", "rsh.contract"):
            return (cmd, cls, min(len(_pl(t[1])), 4), min(int(t[2]), 5))
        if cmd == "rsh.smooth":
            ll = _pll(t[4])
            return (cmd, cls, int(t[1]), int(t[2]), len(ll), model != "ok " + t[4])
    except Exception:  # noqa: BLE001 - a key for the evidence only
        pass
    return (cmd, cls)


# --------------------------------------------------------------------------- (1) correspondence: plans

def _impl_plan(i, o, c, noexp=False):
    from dask_array.manipulation._reshape import reshape_rechunk

    try:
        a, b = reshape_rechunk(i, o, c, noexp)[:2]
        return "ok " + _fslots(a) + " " + _fslots(b), (a, b)
    except Exception as e:  # noqa: BLE001 - mapped to the protocol's error token
        return "err " + type(e).__name__, None


def _valid_positive(i, o, c):
    """The input is something the public API can be given by the random stream: equal sizes, chunks summing to the
    axes, all positive."""
    return (
        len(i) == len(c) and _prod(i) == _prod(o) and all(d > 0 for d in i) and all(d > 0 for d in o)
        and all(sum(ck) == d and all(v > 0 for v in ck) for ck, d in zip(c, i))
    )


def _plan_well_formed(i, o, plan):
    """Spec-level sanity of a real plan (independent of the model): slots filled, axis sums, equal block counts,
    equal per-block sizes in row-major block order."""
    ic, oc = plan
    if any(s is None for s in ic) or any(s is None for s in oc):
        return False
    if [sum(s) for s in ic] != list(i) or [sum(s) for s in oc] != list(o):
        return False
    nb_i = _prod(len(s) for s in ic)
    nb_o = _prod(len(s) for s in oc)
    if nb_i != nb_o:
        return False
    if nb_i > 4000:
        return True
    return all(_prod(a) == _prod(b) for a, b in zip(itertools.product(*ic), itertools.product(*oc)))


def _plan_pairs(ctx):
    rng = ctx.rng
    pairs = []
    triples = {}
    lift = []
    n_small = ctx.scale(700, 7000)
    n_large = ctx.scale(350, 3500)
    for k in range(n_small + n_large):
        i, o, c = gen_plan_small(rng) if k < n_small else gen_plan_large(rng)
        args = f"{fl(i)} {fl(o)} {fll(c)}"
        out, plan = _impl_plan(i, o, c)
        pairs.append((f"rsh.plan {args}", out))
        triples[f"rsh.plan {args}"] = (i, o, c)
        if k < n_small or k % 3 == 0:
            pairs.append((f"rsh.plan_noexp {args}", _impl_plan(i, o, c, True)[0]))
            triples[f"rsh.plan_noexp {args}"] = (i, o, c)
        if _valid_positive(i, o, c):
            if plan is not None:
                _note(ctx, "plans_accepted_valid_inputs")
                if any(0 in s for s in plan[0] + plan[1] if s is not None):
                    _note(ctx, "plans_with_zero_width_result_chunk")
                if not _plan_well_formed(i, o, plan):
                    _note(ctx, "real_plans_not_well_formed")
                    lift.append((i, o, c, "real plan is not a well-formed blockwise plan"))
            elif not out.startswith("err NotImplementedError"):
                if all(len(ck) == 1 for ck in c):
                    # e.g. (1,) -> (1, 1, 1): IndexError from `inshape[ii]`.  `reshape()` never sends a one-block array to
                    # the planner; slice pushdown does (documented class NEW_FINDINGS[3], probed separately)
                    _note(ctx, "real_planner_raises_on_one_block_input")
                else:
                    _note(ctx, "real_planner_raises_on_valid_input")
                    lift.append((i, o, c, f"real planner: {out}"))
    return pairs, triples, lift


def _targeted(ctx, lift, ndis):
    """Lift planner-level findings to the public API: same (shape, chunks, newshape) vs NumPy."""
    done = set()
    wrong = 0
    for i, o, c, why in lift:
        key = (i, o, c)
        if key in done or len(done) >= ctx.scale(40, 200) or _prod(i) > 20000:
            continue
        done.add(key)
        for opt in (True, False):
            case = _mk_case(i, c, o, call="method-tuple", optimize=opt, blocks=True)
            case["lifted_from"] = why
            res = check_case(case)
            ctx.count(("lifted", len(i), len(o), regroup_kind(i, o), opt))
            if res["status"] == "fail":
                wrong += 1
                ctx.fail(res["sig"], case, f"{why}; at API level: {res['what']}")
    if ndis or lift:
        msg = (
            f"reshape: {ndis} plan disagreements / {len(lift)} planner-level findings -> {len(done)} distinct valid inputs "
            f"re-run through the public reshape (optimized and unoptimized, values and per-block shapes) against NumPy: "
            f"{wrong} wrong"
        )
        prev = ctx.notes.get("targeted_search")
        ctx.notes["targeted_search"] = (prev + "; " if prev else "") + msg


# ------------------------------------------------------------------------- (1) correspondence: helpers

def _gen_smooth(rng):
    """(ileft, ii, max_in_chunk, list of tuples) shaped like what the planner feeds `_smooth_chunks`, or arbitrary."""
    if rng.random() < 0.8:
        ones_front = rng.choice([0, 0, 1, 1, 2])
        later = rng.randint(1, 3)
        big = rng.random() < 0.5
        dims = [10, 12, 16, 20, 24, 30, 48, 60, 100] if big else [1, 2, 3, 4, 5, 6, 8, 12]
        ll = [(1,) * rng.randint(1, 5) for _ in range(ones_front)]
        ll.append(_styled_chunks(rng, rng.choice(dims)))
        ll += [(rng.choice(dims),) for _ in range(later)]
        pre = rng.randint(0, 2)
        post = rng.randint(0, 1)
        ileft = pre
        ii = pre + len(ll) - 1
        ll = [_styled_chunks(rng, rng.choice(dims)) for _ in range(pre)] + ll + [_styled_chunks(rng, rng.choice(dims)) for _ in range(post)]
        cur = _prod(max(t) for t in ll[ileft:ii + 1])
        r = rng.random()
        if r < 0.15:
            mx = cur
        elif r < 0.75:
            mx = max(1, cur // rng.choice([2, 3, 4, 5, 8, 10, 16, 50]))
        else:
            mx = rng.randint(1, max(1, 2 * cur))
        return ileft, ii, mx, ll
    n = rng.randint(1, 4)
    ll = [tuple(rng.randint(1, 9) for _ in range(rng.randint(1, 4))) if rng.random() < 0.7 else (1,) * rng.randint(1, 4) for _ in range(n)]
    ileft = rng.randint(0, n - 1)
    ii = rng.randint(ileft, n - 1)
    return ileft, ii, rng.randint(1, 40), ll


def _helper_pairs(ctx):
    from dask_array.manipulation._reshape import _smooth_chunks, contract_tuple, expand_tuple

    rng = ctx.rng
    pairs = []

    def call(fn, *a):
        try:
            return fn(*a), None
        except Exception as e:  # noqa: BLE001
            return None, "err " + type(e).__name__

    for _ in range(ctx.scale(400, 4000)):
        if rng.random() < 0.5:
            c = [rng.randint(0, 20) for _ in range(rng.randint(0, 5))]
        else:
            c = [rng.choice([1, 2, 3, 7, 10, 24, 60, 100]) for _ in range(rng.randint(1, 5))]
        f = rng.randint(0, 8) if rng.random() < 0.8 else rng.choice([10, 12, 25, 64])
        r, e = call(expand_tuple, tuple(c), f)
        pairs.append((f"rsh.expand {fl(c)} {f}", e or "ok " + fl(r)))
        if rng.random() < 0.6 and f > 0:
            # make the total divisible so that the non-assertion path is the common one
            c = [v * f if rng.random() < 0.5 else v for v in c]
            s = sum(c) % f
            if s and c:
                c[-1] += f - s
        r, e = call(contract_tuple, tuple(c), f)
        pairs.append((f"rsh.contract {fl(c)} {f}", e or "ok " + fl(r)))
    for _ in range(ctx.scale(500, 5000)):
        ileft, ii, mx, ll = _gen_smooth(rng)
        r, e = call(_smooth_chunks, ileft, ii, mx, list(ll))
        pairs.append((f"rsh.smooth {ileft} {ii} {mx} {fll(ll)}", e or "ok " + _fslots(r)))
    return pairs


# --------------------------------------------------------------------------- (1) correspondence: layer

def _gen_accepted(rng, maxsize=400):
    """(inshape, outshape, inchunks), all axes positive, that the real planner accepts."""
    from dask_array.manipulation._reshape import reshape_rechunk

    for _ in range(50):
        rank = rng.randint(1, 4)
        inshape = [rng.choice([1, 2, 2, 3, 3, 4, 5, 6, 8, 12]) for _ in range(rank)]
        if _prod(inshape) > maxsize:
            continue
        inchunks = tuple(_styled_chunks(rng, d) for d in inshape)
        outshape = _structured_out(rng, inshape) if rng.random() < 0.85 else _factor_shape(rng, _prod(inshape), rng.randint(1, 3))
        try:
            reshape_rechunk(tuple(inshape), tuple(outshape), inchunks)
        except Exception:  # noqa: BLE001 - refused inputs are the first family's business
            continue
        return tuple(inshape), tuple(outshape), inchunks
    return (4, 6), (24,), ((2, 2), (3, 3))


def _locate(chunks, idx):
    """(block id, position inside the block) of a multi-index under `chunks`."""
    bid, loc = [], []
    for ck, v in zip(chunks, idx):
        b, off = 0, 0
        while v >= off + ck[b]:
            off += ck[b]
            b += 1
        bid.append(b)
        loc.append(v - off)
    return tuple(bid), tuple(loc)


def _ravel(idx, shape):
    k = 0
    for v, d in zip(idx, shape):
        k = k * int(d) + int(v)
    return k


def _block_slices(chunks, bid):
    return tuple(slice(sum(ck[:b]), sum(ck[:b + 1])) for ck, b in zip(chunks, bid))


def _layer_pairs(ctx):
    import dask_array as da
    from dask_array.manipulation._reshape import Reshape

    rng = ctx.rng
    pairs = []
    for _ in range(ctx.scale(150, 1500)):
        i, o, c = _gen_accepted(rng)
        a = np.arange(_prod(i), dtype=np.int64).reshape(i)
        try:
            with warnings.catch_warnings():
                warnings.simplefilter("ignore")
                x = da.from_array(a, chunks=c)
                lowered = Reshape(x.expr, o)._lower()
                layer = lowered._layer()
                oc = tuple(tuple(int(v) for v in t) for t in lowered.chunks)
                ic = tuple(tuple(int(v) for v in t) for t in lowered.array.chunks)
                name = lowered._name
        except Exception:  # noqa: BLE001 - a refusal / crash at construction is the search's business
            _note(ctx, "layer_cases_skipped")
            continue
        for _ in range(4):
            idx = tuple(rng.randrange(d) for d in o)
            req = f"rsh.block {fl(i)} {fl(o)} {fll(c)} {fl(idx)}"
            try:
                bid, loc = _locate(oc, idx)
                k = _ravel(bid, [len(t) for t in oc])
                task = layer[(name, *bid)]
                in_key, shp = task.args[0].key, tuple(int(v) for v in task.args[1])
                block = a[_block_slices(ic, in_key[1:])]
                val = int(block.reshape(shp)[loc])
                f = _ravel(loc, shp)
                j = np.unravel_index(val, i) if i else ()
                impl = f"ok {k} {f} {fl(j)}"
            except Exception as e:  # noqa: BLE001
                impl = "err " + type(e).__name__
            pairs.append((req, impl))
    return pairs


# ------------------------------------------------------------------------------ (2) end-to-end search

def _mk_case(shape, chunks, newshape, call="method-tuple", optimize=True, pre=None, post=None, blocks=False):
    return {
        "reshape": True, "data": "arange", "shape": [int(d) for d in shape], "chunks": [[int(v) for v in c] for c in chunks],
        "pre": pre or ["none"], "call": call, "newshape": [int(d) for d in newshape], "post": post or ["none"],
        "optimize": bool(optimize), "blocks": bool(blocks),
        "variant": f"{(pre or ['none'])[0]}>{call}>{(post or ['none'])[0]}",
    }


def _slices(spec):
    return tuple(slice(*[None if v is None else int(v) for v in s]) for s in spec)


def _pre(case, x, is_dask):
    p = case["pre"]
    if p[0] == "none":
        return x
    if p[0] == "slice":
        return x[_slices(p[1])]
    if p[0] == "T":
        return x.T
    if p[0] == "add1":
        return x + 1
    if p[0] == "rechunk":
        return x.rechunk(tuple(tuple(c) for c in p[1])) if is_dask else x
    raise ValueError(f"unknown pre {p!r}")


def _call(case, x, mod, is_dask):
    ns = tuple(int(v) for v in case["newshape"])
    v = case["call"]
    if v == "method-tuple":
        return x.reshape(ns)
    if v == "method-args":
        return x.reshape(*ns)
    if v == "func":
        return mod.reshape(x, ns)
    if v == "ravel":
        return x.ravel()
    if v == "flatten":
        return x.flatten()
    if v == "mod.ravel":
        return mod.ravel(x)
    if v == "nomerge":
        return x.reshape(ns, merge_chunks=False) if is_dask else x.reshape(ns)
    raise ValueError(f"unknown call {v!r}")


def _post(case, y, is_dask):
    p = case["post"]
    if p[0] == "none":
        return y
    if p[0] == "slice":
        return y[_slices(p[1])]
    if p[0] == "sum":
        return y.sum() if p[1] is None else y.sum(axis=int(p[1]))
    if p[0] == "T":
        return y.T
    if p[0] == "elem":
        return y * 2 - 3
    if p[0] == "reshape":
        return y.reshape(tuple(int(v) for v in p[1]))
    raise ValueError(f"unknown post {p!r}")


def _known_class(x):
    """Is the operand of the reshape in one of the documented defect classes (NEW_FINDINGS)?"""
    try:
        chunks = x.chunks
    except Exception:  # noqa: BLE001
        return None
    if any(0 in c and sum(c) > 0 for c in chunks):
        return "resolved-zero-chunk:reshape"
    if any(sum(c) == 0 for c in chunks) and any(len(c) > 1 for c in chunks):
        return "reshape-zero-size"
    return None


def _known_consumer_class(case, y_np, z_np):
    """A slice of the reshape result that leaves ONE element, on a result with more than twice as many axes as the
    operand: the pushed-down `Reshape` gets an operand with all axes of length 1 and the planner walks off `inshape`."""
    if case["post"][0] == "slice" and z_np is not None and z_np.size == 1:
        operand_rank = len(case["shape"])
        if y_np.ndim > 2 * operand_rank:
            return NEW_FINDINGS[3]
    return None


def _fail(sig, what):
    return {"status": "fail", "sig": sig, "what": what}


def check_case(case, skip_known=True):
    """Run one case on the real code against NumPy.  Returns {"status": "ok" | "refused" | "agree-reject" |
    "skipped:<class>" | "fail", ...}."""
    import dask
    import dask_array as da

    shape = tuple(int(d) for d in case["shape"])
    a = np.arange(_prod(shape), dtype=np.int64).reshape(shape)
    np_exc = None
    y_np = z_np = None
    try:
        y_np = np.asarray(_call(case, _pre(case, a, False), np, False))
        z_np = np.asarray(_post(case, y_np, False))
    except Exception as e:  # noqa: BLE001 - NumPy rejects (size mismatch)
        np_exc = e
    with warnings.catch_warnings(), dask.config.set({"array.optimize-graph": bool(case["optimize"])}):
        warnings.simplefilter("ignore")
        try:
            x = _pre(case, da.from_array(a, chunks=tuple(tuple(c) for c in case["chunks"])), True)
            x.chunks  # noqa: B018 - lazily resolved
        except Exception as e:  # noqa: BLE001 - the operand itself cannot be built: not a reshape matter
            return {"status": "skipped:operand-" + type(e).__name__}
        known = _known_class(x) or (_known_consumer_class(case, y_np, z_np) if y_np is not None else None)
        if known and skip_known:
            return {"status": "skipped:" + known}
        try:
            y = _call(case, x, da, True)
            y.chunks  # noqa: B018
        except NotImplementedError:
            return {"status": "refused"}
        except ValueError as e:
            if np_exc is not None and y_np is None:
                return {"status": "agree-reject"}
            return _fail("reshape:raises:ValueError", f"building the reshape raised ValueError({str(e)[:120]!r}); NumPy accepts")
        except Exception as e:  # noqa: BLE001
            return _fail(f"reshape:raises:{type(e).__name__}", f"building the reshape raised {type(e).__name__}({str(e)[:120]!r})")
        if y_np is None:
            try:
                got = y.compute(scheduler="sync")
            except Exception as e:  # noqa: BLE001
                return _fail(f"reshape:raises:{type(e).__name__}",
                             f"NumPy rejects the new shape ({np_exc}); dask builds it and raises only at compute: {str(e)[:120]!r}")
            return _fail("reshape:accepts-size-mismatch",
                         f"NumPy rejects the new shape ({np_exc}); dask returns an array of shape {np.asarray(got).shape}")
        adv = tuple(int(sum(c)) for c in y.chunks)
        if adv != y_np.shape or tuple(y.shape) != y_np.shape:
            return _fail("reshape:shape-mismatch", f"advertised shape {adv} / {tuple(y.shape)}, NumPy {y_np.shape}")
        try:
            z = _post(case, y, True)
            z.chunks  # noqa: B018
        except NotImplementedError as e:
            if case["post"][0] == "reshape":
                return {"status": "refused"}
            return _fail("reshape:raises:NotImplementedError", f"consumer {case['post'][0]} of the reshape raised: {str(e)[:120]!r}")
        except Exception as e:  # noqa: BLE001
            return _fail(f"reshape:raises:{type(e).__name__}", f"consumer {case['post'][0]} of the reshape raised at build: {str(e)[:120]!r}")
        if z_np is None:
            return {"status": "skipped:numpy-consumer"}
        try:
            got = np.asarray(z.compute(scheduler="sync"))
        except Exception as e:  # noqa: BLE001
            return _fail(f"reshape:raises:{type(e).__name__}", f"compute raised {type(e).__name__}({str(e)[:160]!r})")
        if got.shape != z_np.shape:
            return _fail("reshape:shape-mismatch", f"computed shape {got.shape}, NumPy {z_np.shape}")
        if got.dtype.kind != z_np.dtype.kind:
            return _fail("reshape:dtype-mismatch", f"computed dtype {got.dtype}, NumPy {z_np.dtype}")
        if not np.array_equal(got, z_np):
            bad = np.argwhere(got != z_np)
            return _fail("reshape:value-mismatch", f"{len(bad)} of {got.size} elements differ; first at {bad[0].tolist()}: "
                                                   f"{got[tuple(bad[0])]} != {z_np[tuple(bad[0])]}")
        if case.get("blocks"):
            r = _check_blocks(y, y_np)
            if r is not None:
                return r
    return {"status": "ok"}


def _check_blocks(y, want):
    """C03 side: every key of the real graph is computed; the root blocks must be what `.chunks` says."""
    from dask.core import flatten

    try:
        values, _ = G.execute(G.to_tasks(y.__dask_graph__()))
    except Exception as e:  # noqa: BLE001
        return _fail(f"reshape:raises:{type(e).__name__}", f"materializing every key of the graph raised: {str(e)[:160]!r}")
    chunks = tuple(tuple(int(v) for v in c) for c in y.chunks)
    keys = list(flatten(y.__dask_keys__()))
    expected = [(y.name, *bid) for bid in itertools.product(*[range(len(c)) for c in chunks])]
    if sorted(keys, key=repr) != sorted(expected, key=repr):
        return _fail("reshape:missing-key", f"__dask_keys__ has {len(keys)} keys, .chunks implies {len(expected)}")
    for key in expected:
        if key not in values:
            return _fail("reshape:missing-key", f"output key with block id {key[1:]} is not in the materialized graph")
        v = np.asarray(values[key])
        bid = key[1:]
        exp_shape = tuple(c[b] for c, b in zip(chunks, bid))
        if tuple(v.shape) != exp_shape:
            return _fail("reshape:block-shape", f"block {bid} has shape {tuple(v.shape)}, .chunks says {exp_shape}")
        if not np.array_equal(v, want[_block_slices(chunks, bid)]):
            return _fail("reshape:block-values", f"block {bid} differs from the NumPy slice of the expected result")
    return None


def _rand_keep_slice(rng, d):
    """A slice of an axis of length d that keeps at least one element, as [start, stop, step]."""
    for _ in range(20):
        s = [rng.choice([None, None, 0, 1, 2, -2]), rng.choice([None, None, d, d - 1, -1]), rng.choice([None, None, 1, 2, 3, -1])]
        if len(range(*slice(*s).indices(d))) >= 1:
            return s
    return [None, None, None]


def _gen_newshape(rng, s):
    """A new shape for an array of (positive) shape s (rarely s itself)."""
    n = _prod(s)
    out = list(s)
    for _ in range(3):
        mode = rng.random()
        if mode < 0.60:
            out = _structured_out(rng, list(s), ones=0.1)
        elif mode < 0.72:
            out = [n]
        elif mode < 0.92:
            out = _factor_shape(rng, n, rng.randint(1, 4))
        else:
            out = [d for d in s if d != 1]
            for _ in range(rng.randint(1, 2)):
                out.insert(rng.randint(0, len(out)), 1)
        if len(out) > 7:
            out = [n]
        if out != list(s):
            break
    return out


def _gen_search_case(rng):
    big = rng.random() < 0.12
    while True:
        if big:
            shape = [rng.choice([2, 3, 4, 6, 8, 10, 12, 16, 20, 24, 30]) for _ in range(rng.randint(1, 3))]
            if _prod(shape) <= 4000:
                break
        else:
            shape = [rng.choice([1, 2, 2, 3, 3, 4, 4, 5, 6, 6, 8, 12]) for _ in range(rng.randint(1, 4))]
            if _prod(shape) <= 600:
                break
    chunks = [_styled_chunks(rng, d) for d in shape]
    # c. operand of the reshape
    r = rng.random()
    pre = ["none"]
    s = list(shape)
    if r < 0.12:
        spec = [_rand_keep_slice(rng, d) if rng.random() < 0.7 else [None, None, None] for d in shape]
        pre = ["slice", spec]
        s = [len(range(*slice(*sp).indices(d))) for sp, d in zip(spec, shape)]
    elif r < 0.20 and len(shape) >= 2:
        pre = ["T"]
        s = s[::-1]
    elif r < 0.27:
        pre = ["add1"]
    elif r < 0.35:
        pre = ["rechunk", [list(_styled_chunks(rng, d)) for d in shape]]
    # a. the call
    call = rng.choice(["method-tuple"] * 7 + ["method-args"] * 3 + ["func"] * 3 + ["nomerge"] * 3 + ["ravel", "flatten", "mod.ravel"])
    if call in ("ravel", "flatten", "mod.ravel"):
        concrete = [_prod(s)]
        newshape = list(concrete)
    else:
        concrete = _gen_newshape(rng, s)
        if call == "method-args" and not concrete:
            call = "method-tuple"
        newshape = list(concrete)
        # b. -1 inference
        if newshape and rng.random() < 0.22:
            newshape[rng.randrange(len(newshape))] = -1
    # d. consumer of the reshape
    post = ["none"]
    r = rng.random()
    if r < 0.13 and concrete:
        post = ["slice", [_rand_keep_slice(rng, d) if rng.random() < 0.7 else [None, None, None] for d in concrete[:rng.randint(1, len(concrete))]]]
    elif r < 0.22 and concrete:
        post = ["sum", rng.randrange(len(concrete))]
    elif r < 0.27:
        post = ["sum", None]
    elif r < 0.33 and len(concrete) >= 2:
        post = ["T"]
    elif r < 0.40:
        post = ["elem"]
    elif r < 0.52:
        post = ["reshape", _gen_newshape(rng, concrete)]
    case = _mk_case(shape, chunks, newshape, call=call, pre=pre, post=post)
    case["concrete_newshape"] = [int(v) for v in concrete]
    case["operand_shape"] = [int(v) for v in s]
    return case


def _gen_zero_size_case(rng):
    """Zero-size array held in one block (the only zero-size class outside the documented defects)."""
    rank = rng.randint(1, 3)
    shape = [rng.choice([0, 1, 2, 3]) for _ in range(rank)]
    shape[rng.randrange(rank)] = 0
    out = [rng.choice([0, 1, 2, 3, 5]) for _ in range(rng.randint(1, 4))]
    if 0 not in out:
        out[rng.randrange(len(out))] = 0
    case = _mk_case(shape, [[d] for d in shape], out, call=rng.choice(["method-tuple", "method-args", "func"]),
                    post=rng.choice([["none"], ["elem"], ["T"]]))
    case["concrete_newshape"] = list(out)
    case["operand_shape"] = list(shape)
    return case


def _gen_mismatch_case(rng):
    case = _gen_search_case(rng)
    case["pre"], case["post"] = ["none"], ["none"]
    case["call"] = rng.choice(["method-tuple", "method-args", "func", "nomerge"])
    ns = [d for d in case["concrete_newshape"]] or [1]
    k = rng.randrange(len(ns))
    ns[k] = ns[k] + rng.choice([1, 2]) if rng.random() < 0.5 else ns[k] * rng.choice([2, 3])
    if _prod(ns) == _prod(case["shape"]):
        ns[k] += 1
    case["newshape"] = case["concrete_newshape"] = ns
    case["operand_shape"] = list(case["shape"])
    case["variant"] = f"none>{case['call']}>none(size-mismatch)"
    return case


def _shrink(case, sig):
    """Drop what is not needed to keep the same failure signature (consumer, -1, call style)."""
    cur = dict(case)

    def same(c):
        try:
            r = check_case(c)
        except Exception:  # noqa: BLE001
            return False
        return r["status"] == "fail" and r["sig"] == sig

    for change in (
        {"post": ["none"]},
        {"newshape": list(case.get("concrete_newshape", case["newshape"]))},
        {"call": "method-tuple"},
        {"blocks": False},
    ):
        if change.get("call") and cur["call"] in ("ravel", "flatten", "mod.ravel", "nomerge"):
            continue
        c = {**cur, **change}
        c["variant"] = f"{c['pre'][0]}>{c['call']}>{c['post'][0]}"
        if c != cur and same(c):
            cur = c
    return cur


def _count_key(case):
    multi = any(len(c) > 1 for c in case["chunks"])
    if not multi:
        return None
    s, o = case.get("operand_shape", case["shape"]), case.get("concrete_newshape", case["newshape"])
    return ("e2e", case["call"], case["pre"][0], case["post"][0], len(s), len(o), regroup_kind(s, o),
            -1 in case["newshape"], case["optimize"], case["blocks"])


def _run_one(ctx, case, tag="search"):
    """One generated case under both optimize flags; returns the statuses."""
    out = []
    for opt in (True, False):
        c = {**case, "optimize": opt}
        res = check_case(c)
        st = res["status"]
        out.append(st)
        if st.startswith("skipped"):
            _note(ctx, st.replace("skipped:", "skipped_"))
            break
        ctx.count(_count_key(c))
        if st == "refused":
            _note(ctx, "refused_NotImplementedError")
        elif st == "agree-reject":
            _note(ctx, "rejected_like_numpy_ValueError")
        elif st == "fail":
            small, r2 = c, res
            if sum(1 for f in ctx.failures if f["sig"] == res["sig"]) < 3:  # minimise the first few of each class only
                small = _shrink(c, res["sig"])
                r2 = check_case(small)
                if r2["status"] != "fail":
                    small, r2 = c, res
            ctx.fail(r2["sig"], small, f"[{tag}] {small['variant']}: {r2['what']}")
        else:
            _note(ctx, "ok")
    return out


def _search(ctx):
    rng = ctx.rng
    n = ctx.scale(800, 8000)
    for k in range(n):
        case = _gen_search_case(rng)
        case["blocks"] = k % 3 == 0  # e. per-block shapes and values on a third of the cases
        _run_one(ctx, case)
        if k < 2:
            ctx.sample({kk: case[kk] for kk in ("shape", "chunks", "pre", "call", "newshape", "post", "variant")})
    for _ in range(ctx.scale(25, 250)):
        _run_one(ctx, _gen_zero_size_case(rng), "zero-size single block")
    for _ in range(ctx.scale(12, 120)):
        st = _run_one(ctx, _gen_mismatch_case(rng), "size mismatch")
        if "ok" in st:
            _note(ctx, "harness_mismatch_case_accepted_by_numpy")


# ----------------------------------------------------------------------------------- probes / replay

def probe_findings(ctx):
    """One deterministic minimal input per documented defect class; reported while it still reproduces."""
    for sig, base, what in _PROBES:
        for opt in (True, False):
            case = _mk_case(base["shape"], base["chunks"], base["newshape"], call=base["call"], optimize=opt, post=base.get("post"))
            case["probe"] = sig
            res = check_case(case, skip_known=False)
            ctx.count(("probe", sig, opt))
            if res["status"] == "fail":
                ctx.fail(sig, case, f"{what} [observed: {res['sig']}: {res['what']}]")
                break
        else:
            _note(ctx, "probe_not_reproduced:" + sig)


def replay(ctx, case):
    """Re-run one failure from its case dict alone."""
    case = dict(case)
    res = check_case(case, skip_known=not case.get("probe"))
    ctx.count(("replay", case.get("variant")))
    if res["status"] == "fail":
        ctx.fail(case.get("probe") or res["sig"], case, f"replayed: {res['what']}")
    return res


# --------------------------------------------------------------------------------------------- entry

class _Answers:
    """Answers of ONE driver batch, served to the three `ctx.correspond` calls (the model is a function of the
    request line, so a table is exact); one interpreter start-up instead of three."""

    def __init__(self, real, lines):
        lines = list(dict.fromkeys(lines))
        self.real = real
        try:
            outs = real.run(lines)
        except RuntimeError:  # a private interpreter driver can lose a race with a concurrent `lake build`: one retry
            outs = real.run(lines)
        self.table = dict(zip(lines, outs))

    def run(self, lines):
        lines = list(lines)
        missing = [l for l in dict.fromkeys(lines) if l not in self.table]
        if missing:
            self.table.update(zip(missing, self.real.run(missing)))
        return [self.table[l] for l in lines]


def run(ctx):
    probe_findings(ctx)
    plans, triples, lift = _plan_pairs(ctx)
    helpers = _helper_pairs(ctx)
    layer = _layer_pairs(ctx)
    real = ctx.driver
    ctx._driver = _Answers(real, [r for r, _ in plans + helpers + layer])
    try:
        n0 = len(ctx.disagreements)
        ctx.correspond("reshape_rechunk", plans, branch_key=_branch_key)
        ndis = len(ctx.disagreements) - n0
        for d in ctx.disagreements[n0:]:
            i, o, c = triples[d["request"]]
            d["input"] = {"inshape": list(i), "outshape": list(o), "inchunks": [list(t) for t in c]}
            if _valid_positive(i, o, c):
                lift.append((i, o, c, "model/implementation disagreement on the plan"))
        ctx.correspond("reshape_helpers", helpers, branch_key=_branch_key)
        n1 = len(ctx.disagreements)
        ctx.correspond("reshape_layer", layer, branch_key=_branch_key)
        ndis += len(ctx.disagreements) - n1
        for d in ctx.disagreements[n1:]:
            t = d["request"].split()
            i, o, c = tuple(_pl(t[1])), tuple(_pl(t[2])), tuple(tuple(ck) for ck in _pll(t[3]))
            lift.append((i, o, c, "model/implementation disagreement on the element map of the layer"))
    finally:
        ctx._driver = real
    _targeted(ctx, lift, ndis)
    _search(ctx)
    ctx.notes["rsh.rule"] = (
        "reshape: seeded (shape, chunks, newshape) with rank <= 4 in / <= 7 out, positive chunks, operand in {array, slice, "
        "transpose, x+1, rechunk}, call in {method, *args, da.reshape, ravel, flatten, da.ravel, merge_chunks=False}, optional "
        "-1, consumer in {none, slice, sum, T, elementwise, second reshape}; each optimized and unoptimized; distinct = "
        "(call, operand, consumer, rank in, rank out, regrouping kind, -1, optimize flag, block check); single-block inputs "
        "are trivial"
    )
    ctx.assumptions.append(
        "reshape search: positive-length axes with positive chunks, zero-size arrays only when held in one block; "
        "zero-width chunks and multi-block zero-size inputs are the documented classes " + ", ".join(NEW_FINDINGS)
        + " (one deterministic probe each); NotImplementedError while building a reshape is a documented refusal"
    )
