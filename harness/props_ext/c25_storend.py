"""C25 extension: the n-d behaviour of `store` and of the npy stack (driver family `stn.*`).

Code under test: `dask_array/io/_store.py` (`store` maps `load_store_chunk` over every block of every source; each call
fuses the block's index with the user's region, skips empty blocks and executes `out[index] = x`),
`dask_array/io/_to_npy_stack.py`, `dask_array/io/_from_npy_stack.py`.
Model: lean/DaskArrayModel/Model/StoreND.lean (`blockWrite`, `storeEvalOrder`, `storeMultiOrder`: fuse walk + NumPy
basic-index assignment with integer wrap-around, IndexError, broadcast check) and Model/NpyStack.lean (`toStack`,
`fromStack`); driver Drv/StoreND.lean.

(1) correspondence, all on REAL `da.store` / `da.to_npy_stack` / `da.from_npy_stack` calls:
    `stn.writes`  per block of a 0-3-d source the key `load_store_chunk` hands to the target's `__setitem__` (logged by a
                  recording target, the block identified by the values written) and the shape of the selection it names;
                  blocks of size 0 must not be written; whole-call `err <Class>` when the call raises
    `stn.eval`    the final content of a sentinel-filled NumPy target (blocks applied forward / reversed in the model:
                  the real result must equal both)
    `stn.multi`   2-3 (source, target, region) triples in ONE call: different targets, or one shared target with pairwise
                  disjoint regions
    `stn.stack`   the files `0.npy, 1.npy, ...` `to_npy_stack` leaves behind, the pickled `info`, and what `from_npy_stack`
                  advertises / computes; every axis, zero-length blocks, negative and too-large axes
    regions of every accepted form (None, `()`, slices with offsets / steps 1-3 / open stops / None starts, integer entries
    incl. negative ones, shorter than the rank, longer with trailing integers or slices of any step) and ~15 % refused or
    mismatching forms (negative start / stop / step: NotImplementedError; integers out of range, too many entries:
    IndexError; selection bigger than the source: silently accepted; smaller: ValueError unless every offending block has
    extent 1 and broadcasts into the empty selection).
(2) search, oracle NumPy (`expect = np.full(tshape, -1); expect[region] = src`), independent of the model, ONLY on
    in-contract inputs (`target[region].shape == source.shape`, fused slices non-negative with positive step): plain store,
    `return_stored=True` (returned arrays computed equal the sources), `compute=False` then compute (nothing written
    before), several sources / targets, NumPy and recording targets; `from_npy_stack(to_npy_stack(x))` equals x with the
    chunks along the axis preserved and every other axis collapsed.
"""
from __future__ import annotations

import os
import pickle
import shutil
import tempfile

import numpy as np

from harness import gen
from harness.core import err_name, f_list, f_ll
from harness.props.C25 import (SCRATCH, SENTINEL, RecTarget, block_indices, dec_region, enc_region, f_key, f_ridx,
                               partition_pairs)

FAM_WRITES = "stn.writes"
FAM_EVAL = "stn.eval"
FAM_MULTI = "stn.multi"
FAM_STACK = "stn.stack"

MAX_TARGET = 160  # elements of one target (the interpreted model visits every position of the target for every block)

FORMS = (["none"] * 8 + ["empty"] * 4 + ["slices"] * 28 + ["ints"] * 16 + ["short"] * 10 + ["long-int"] * 6 + ["long-slice"] * 10
         + ["neg"] * 5 + ["int-oob"] * 3 + ["too-many"] * 2 + ["bigger"] * 3 + ["smaller"] * 4 + ["none-misfit"] * 1)
REFUSED_FORMS = ("neg", "int-oob", "too-many", "bigger", "smaller", "none-misfit")


# --------------------------------------------------------------------------- generators

def _axis_chunks(rng, n, ones=False, coarse=False):
    if ones and n:
        return [1] * n
    if coarse and n:
        return list(gen.rand_chunks(rng, n, maxparts=2))
    if n == 0:
        return [0] * rng.choice([1, 1, 2])
    return list(gen.rand_chunks(rng, n, zeros=0.18, maxparts=4))


def _axis_region(rng, n, tight=False):
    """(target extent, slice) with exactly n positions selected: offsets, steps 1-3, exact / ragged / open / overshooting stops"""
    step = 1 if tight else rng.choice([1, 1, 1, 2, 2, 3])
    start = rng.randint(0, 1 if tight else 3)
    if n == 0:
        size = max(1, start + rng.randint(0, 2))
        stop = rng.choice([start, start, max(0, start - 1), 0])
        return size, slice(start if (start or rng.random() < 0.7) else None, stop, step if (step > 1 or rng.random() < 0.3) else None)
    last = start + (n - 1) * step  # last selected position
    style = rng.random()
    if style < 0.45:  # stop inside the target, anywhere between the last position and the next one
        stop = last + 1 + rng.randint(0, step - 1)
        size = stop + rng.randint(0, 0 if tight else 2)
    elif style < 0.75:  # open stop: the target ends before the next position
        size = last + 1 + rng.randint(0, step - 1)
        stop = None
    else:  # stop beyond the end of the target
        size = last + 1 + rng.randint(0, step - 1)
        stop = size + rng.randint(1, 3)
    return size, slice(start if (start or rng.random() < 0.7) else None, stop, step if (step > 1 or rng.random() < 0.3) else None)


def _int_entry(rng):
    m = rng.randint(1, 3)
    return m, rng.randint(-m, m - 1)


def _any_slice(rng, m):
    """trailing entry that is never fused: any step (also negative), any bounds"""
    step = rng.choice([None, 1, 2, -1, -1, -2])
    a = rng.choice([None, 0, 1, m - 1, -1])
    b = rng.choice([None, m, m - 1, 0, -1])
    return slice(a, b, step)


def gen_case(rng, form=None, max_rank=3):
    """one (source, target, region) triple: dict(shape, chunks, tshape, region (encoded), form)"""
    form = form or rng.choice(FORMS)
    for attempt in range(12):
        case = _gen_case(rng, form, max_rank, tight=attempt >= 4)
        if int(np.prod(case["tshape"], dtype=np.int64)) <= MAX_TARGET:
            return case
    return case if int(np.prod(case["tshape"], dtype=np.int64)) <= 4 * MAX_TARGET else gen_case(rng, "none", max_rank)


def _gen_case(rng, form, max_rank, tight):
    rank = rng.choice([r for r in (0, 1, 1, 1, 2, 2, 2, 3, 3) if r <= max_rank])
    if form in ("slices", "short", "neg", "bigger", "smaller") and rank == 0:
        rank = 1
    if form == "short" and rank == 1 and rng.random() < 0.7:
        rank = 2
    hi = 6 if rank < 3 else 4
    shape = [0 if rng.random() < 0.05 else rng.randint(1, hi) for _ in range(rank)]
    ones = form in ("bigger", "smaller", "long-slice") and rng.random() < 0.5
    if form in ("none", "empty", "none-misfit"):
        region = None if form != "empty" else ()
        tshape = list(shape)
        if form == "none-misfit" and rank:
            k = rng.randrange(rank)
            v = rng.random()
            if v < 0.4:
                tshape[k] += rng.randint(1, 2)  # larger target: the corner is written
            elif v < 0.7 and tshape[k] > 0:
                tshape[k] -= 1  # smaller target: clipped slices
            else:
                tshape = tshape[:-1] if rng.random() < 0.5 else tshape + [rng.randint(1, 2)]
        chunks = [_axis_chunks(rng, n, ones=rng.random() < 0.3 and form == "none-misfit") for n in shape]
        return {"shape": shape, "chunks": chunks, "tshape": tshape, "region": enc_region(region), "form": form}
    nfused = rank
    if form == "short":
        nfused = rng.randint(0 if rank > 1 and rng.random() < 0.3 else 1, rank - 1) if rank > 1 else 0
    p_int = {"ints": 0.45, "long-int": 0.15, "short": 0.2, "int-oob": 0.2}.get(form, 0.08)
    tshape, region = [], []
    for k in range(nfused):
        if rng.random() < p_int:
            m, i = _int_entry(rng)
            tshape.append(m)
            region.append(i)
        size, s = _axis_region(rng, shape[k], tight)
        tshape.append(size)
        region.append(s)
    if (form == "ints" and all(isinstance(r, slice) for r in region)) or (form == "short" and not region):
        m, i = _int_entry(rng)
        pos = rng.randint(0, len(region))
        tshape.insert(pos, m)
        region.insert(pos, i)
    for k in range(nfused, rank):  # short region: the remaining block slices are appended as they are
        tshape.append(shape[k])
    if form == "long-int" or (form in ("ints", "int-oob") and rng.random() < 0.4):
        for _ in range(rng.randint(1, 2)):
            m, i = _int_entry(rng)
            tshape.append(m)
            region.append(i)
    if form == "long-slice":
        for _ in range(rng.randint(1, 2)):
            if rng.random() < 0.25:
                m, i = _int_entry(rng)
                tshape.append(m)
                region.append(i)
            m = rng.randint(1, 3)
            if rank and shape[-1] and rng.random() < 0.35:
                m = shape[-1]
            tshape.append(m)
            region.append(_any_slice(rng, m))
    shape = list(shape)
    if form == "neg":
        ks = [k for k, r in enumerate(region) if isinstance(r, slice)][:nfused]
        k = rng.choice(ks)
        r, n = region[k], tshape[k]
        kind = rng.choice(["start", "stop", "step"])
        if kind == "start":
            region[k] = slice((r.start or 0) - n - rng.choice([0, 0, 1]), r.stop, r.step)
        elif kind == "stop" and r.stop is not None:
            region[k] = slice(r.start, min(r.stop, n) - n - 1, r.step)
        else:
            region[k] = slice(r.stop, r.start, -(r.step or 1))
    elif form == "int-oob":
        ks = [k for k, r in enumerate(region) if not isinstance(r, slice)]
        if not ks:
            pos = rng.randint(0, len(region))
            tshape.insert(pos, rng.randint(1, 3))
            region.insert(pos, 0)
            ks = [pos]
        k = rng.choice(ks)
        region[k] = rng.choice([tshape[k], tshape[k] + 1, -tshape[k] - 1])
    elif form == "too-many":
        if tshape and rng.random() < 0.6:
            tshape.pop()
        else:
            region.append(rng.choice([0, slice(None), slice(0, 1)]))
    elif form in ("bigger", "smaller"):
        k = rng.randrange(rank)
        d = rng.randint(1, 2)
        shape[k] = max(0, shape[k] - d) if form == "bigger" else shape[k] + d
    coarse = form == "smaller" and not ones and rng.random() < 0.6
    chunks = [_axis_chunks(rng, n, ones=ones and (k == rank - 1 or rng.random() < 0.5), coarse=coarse) for k, n in enumerate(shape)]
    return {"shape": shape, "chunks": chunks, "tshape": tshape, "region": enc_region(tuple(region)), "form": form}


def fused_supported(region, rank):
    """the slice entries `fuse_slice` fuses with a block slice (the first `rank` of them) have non-negative bounds and a
    positive step; everything else in the tuple is passed to NumPy as it is"""
    if not region:
        return True
    j = 0
    for r in region:
        if not isinstance(r, slice) or j == rank:
            continue
        j += 1
        if (r.start or 0) < 0 or (r.stop or 0) < 0 or (r.step if r.step is not None else 1) <= 0:
            return False
    return True


def in_contract(case):
    """documented precondition: `target[region].shape == source.shape`, in a form `fuse_slice` supports"""
    region = dec_region(case["region"])
    shape = tuple(case["shape"])
    if not fused_supported(region, len(shape)):
        return False
    try:
        probe = np.empty(tuple(case["tshape"]), dtype=np.int8)
        sel = probe if region is None else probe[region]
    except Exception:  # noqa: BLE001
        return False
    return tuple(np.shape(sel)) == shape


def source_values(case, base):
    shape = tuple(case["shape"])
    return (base + np.arange(int(np.prod(shape, dtype=np.int64)), dtype=np.int64)).reshape(shape)


def dask_source(case, base):
    import dask_array as da

    src = source_values(case, base)
    return src, da.from_array(src, chunks=tuple(tuple(c) for c in case["chunks"]))


def expected(case, base):
    exp = np.full(tuple(case["tshape"]), SENTINEL, dtype=np.int64)
    region = dec_region(case["region"])
    if region is None:
        exp[...] = source_values(case, base)
    else:
        exp[region] = source_values(case, base)
    return exp


def f_vals(a):
    a = np.asarray(a)
    return f_list(a.ravel().tolist())


def req_tail(case):
    return f"{f_list(case['tshape'])} {f_ridx(dec_region(case['region']))} {f_ll(case['chunks'])}"


def class_key(case):
    region = dec_region(case["region"]) or ()
    return (len(case["shape"]), case["form"], any(isinstance(r, slice) and (r.step or 1) not in (1,) for r in region),
            any(not isinstance(r, slice) for r in region), any(0 in c for c in case["chunks"]), 0 in case["shape"])


# --------------------------------------------------------------------------- real calls

def _regions_arg(regions, single):
    if single and len(regions) == 1:
        return regions[0]
    if all(r is None for r in regions):
        return None
    return list(regions)


def real_writes(case, base=100):
    """impl string of `stn.writes` from a real store into a recording target; also returns the target"""
    import dask_array as da

    src, x = dask_source(case, base)
    region = dec_region(case["region"])
    t = RecTarget(tuple(case["tshape"]))
    try:
        da.store(x, t, regions=region, lock=_fresh_lock(), scheduler="sync")
    except Exception as e:  # noqa: BLE001
        return err_name(e), None
    by_first = {}
    for key, first, vshape in t.wlog:
        by_first.setdefault(first, []).append((key, vshape))
    recs = []
    nonempty = 0
    for bid, index in block_indices(case["chunks"]):
        blk = src[index]
        if blk.size == 0:
            recs.append(f"{f_list(bid)}>skip")  # `x.size != 0` guard
            continue
        nonempty += 1
        hits = by_first.get(int(blk.flat[0]), [])
        if len(hits) != 1:
            return f"err Written{len(hits)}Times", t
        key, vshape = hits[0]
        if tuple(vshape) != blk.shape:
            return "err BlockShape", t
        recs.append(f"{f_list(bid)}>{f_key(key)}>{f_list(t.a[key].shape)}")
    if len(t.wlog) != nonempty:  # an empty block reached `__setitem__`, or something else was written
        return f"err {len(t.wlog)}WritesFor{nonempty}Blocks", t
    return "ok " + " ".join(recs), t


def real_eval(case, base):
    import dask_array as da

    _, x = dask_source(case, base)
    t = np.full(tuple(case["tshape"]), SENTINEL, dtype=np.int64)
    try:
        da.store(x, t, regions=dec_region(case["region"]), lock=_fresh_lock(), scheduler="sync")
    except Exception as e:  # noqa: BLE001
        return err_name(e), None
    return "ok " + f_vals(t), t


def classify(got, exp, case, base):
    """signature of a wrong final target (None when it is what NumPy slice assignment gives)"""
    if got.shape == exp.shape and np.array_equal(got, exp):
        return None
    region = dec_region(case["region"])
    inside = got if region is None else got[region]
    src = source_values(case, base)
    if inside.shape != src.shape or not np.array_equal(inside, src):
        return "stn:store:wrong-value"
    return "stn:store:outside-touched"


def small(a):
    a = np.asarray(a)
    return a.tolist() if a.size <= 120 else str(a.shape)


# --------------------------------------------------------------------------- search programs

def gen_program(rng):
    """a replayable store program on in-contract triples: 1-3 pairs, own targets or one shared target with disjoint regions"""
    v = rng.random()
    if v < 0.55:
        pairs = [dict(_contract_case(rng), tid=0)]
    elif v < 0.85:
        pairs = [dict(_contract_case(rng, max_rank=2), tid=k) for k in range(rng.randint(2, 3))]
    else:
        pairs = partition_jobs(rng)
        if rng.random() < 0.4:
            pairs.append(dict(_contract_case(rng, max_rank=2), tid=1))
    for k, p in enumerate(pairs):
        p["base"] = 1000 * (k + 1)
    if len(pairs) == 1 and rng.random() < 0.15:
        # the SAME array into two targets of identical initial content (equal base => equal source expression)
        pairs.append(dict(pairs[0], tid=1))
    return {"kind": "stn.store", "pairs": pairs, "variant": rng.choice(["plain", "plain", "return_stored", "return_stored", "lazy", "lazy-return"]),
            "target": rng.choice(["numpy", "numpy", "rec"]), "regions_form": rng.choice(["single", "list"]),
            "lock": rng.choice([False, False, True])}


def partition_jobs(rng):
    """2-3 sources into pairwise disjoint regions (slabs with gaps / interleaved strides) of ONE target (tid 0)"""
    for _ in range(12):
        pairs = partition_pairs(rng)
        if pairs and int(np.prod(pairs[0]["tshape"], dtype=np.int64)) <= MAX_TARGET:
            break
    return [{"shape": list(p["shape"]), "chunks": [list(c) for c in p["chunks"]], "tshape": list(p["tshape"]), "region": p["region"],
             "form": "partition", "tid": 0} for p in pairs]


def _contract_case(rng, max_rank=3):
    for _ in range(20):
        c = gen_case(rng, rng.choice(["none", "empty", "slices", "slices", "slices", "ints", "ints", "short", "long-int"]), max_rank)
        if in_contract(c):
            return c
    return gen_case(rng, "none", max_rank)


def run_program(prog):
    """(signature or None, details) of one store program on the real code; oracle: NumPy slice assignment"""
    import dask
    import dask_array as da

    pairs = prog["pairs"]
    if not all(in_contract(p) for p in pairs):
        return "invalid-case", {}
    targets, exps = {}, {}
    srcs, xs, tgts, regions = [], [], [], []
    for p in pairs:
        tid = p["tid"]
        if tid not in targets:
            tshape = tuple(p["tshape"])
            targets[tid] = RecTarget(tshape) if prog["target"] == "rec" else np.full(tshape, SENTINEL, dtype=np.int64)
            exps[tid] = np.full(tshape, SENTINEL, dtype=np.int64)
        elif tuple(p["tshape"]) != exps[tid].shape:
            return "invalid-case", {}
        region = dec_region(p["region"])
        src, x = dask_source(p, p["base"])
        view = exps[tid] if region is None else exps[tid][region]
        if (view != SENTINEL).any():
            return "invalid-case", {}  # regions of one target must be disjoint
        if region is None:
            exps[tid][...] = src
        else:
            exps[tid][region] = src
        srcs.append(src)
        xs.append(x)
        tgts.append(targets[tid])
        regions.append(region)
    raw = lambda t: t.a if isinstance(t, RecTarget) else t  # noqa: E731
    single = len(pairs) == 1 and prog["regions_form"] == "single"
    variant = prog["variant"]
    kw = {"lock": prog.get("lock", False), "compute": not variant.startswith("lazy"), "return_stored": variant in ("return_stored", "lazy-return")}
    if kw["compute"]:
        kw["scheduler"] = "sync"
    stored = None
    try:
        res = da.store(xs[0] if single else xs, tgts[0] if single else tgts, regions=_regions_arg(regions, single), **kw)
        if not kw["compute"]:
            if any((raw(t) != SENTINEL).any() for t in tgts):
                return "stn:store:lazy-wrote-eagerly", {}
            arrs = res if isinstance(res, tuple) else (res,)
            out = dask.compute(*arrs, scheduler="sync")
            if kw["return_stored"]:
                stored = [np.asarray(o) for o in out]
        elif kw["return_stored"]:
            arrs = res if isinstance(res, tuple) else (res,)
            stored = [np.asarray(a.compute(scheduler="sync")) for a in arrs]
    except Exception as e:  # noqa: BLE001
        return f"stn:store:raises:{type(e).__name__}", {"error": repr(e)[:300]}
    for tid in sorted(targets):
        got = raw(targets[tid])
        exp = exps[tid]
        if got.shape != exp.shape or not np.array_equal(got, exp):
            wrong_inside = False
            for p, src, region in zip(pairs, srcs, regions):
                if p["tid"] != tid:
                    continue
                inside = got if region is None else got[region]
                if inside.shape != src.shape or not np.array_equal(inside, src):
                    wrong_inside = True
            return ("stn:store:wrong-value" if wrong_inside else "stn:store:outside-touched"), {"target": tid, "got": small(got), "want": small(exp)}
    if stored is not None:
        for k, (s, src) in enumerate(zip(stored, srcs)):
            if s.shape != src.shape or not np.array_equal(s, src):
                return "stn:store:return-stored-value", {"pair": k, "got": small(s), "want": small(src)}
    return None, {}


# --------------------------------------------------------------------------- npy stack

def real_stack(chunks, axis):
    """impl string of `stn.stack` + a (signature, details) of the round-trip property (None when it holds / not applicable)"""
    import dask_array as da

    shape = tuple(sum(c) for c in chunks)
    src = np.arange(int(np.prod(shape, dtype=np.int64)), dtype=np.int64).reshape(shape)
    x = da.from_array(src, chunks=tuple(tuple(c) for c in chunks))
    valid_axis = 0 <= axis < len(shape)
    tmp = tempfile.mkdtemp(prefix="verif-stn-", dir=SCRATCH)
    try:
        d = os.path.join(tmp, "stack")
        try:
            da.to_npy_stack(d, x, axis=axis)
        except Exception as e:  # noqa: BLE001
            return err_name(e), ((f"stn:npy:raises:{type(e).__name__}", {"error": repr(e)[:300], "stage": "to_npy_stack"}) if valid_axis else None)
        files = []
        i = 0
        while os.path.exists(os.path.join(d, f"{i}.npy")):
            a = np.load(os.path.join(d, f"{i}.npy"))
            files.append(f"{f_list(a.shape)}={f_vals(a)}")
            i += 1
        with open(os.path.join(d, "info"), "rb") as f:
            info = pickle.load(f)
        head = f"ok F {'+'.join(files)} I {f_ll(info['chunks'])} {int(info['axis'])}"
        bad = None
        try:
            y = da.from_npy_stack(d)
            ychunks = tuple(tuple(int(v) for v in c) for c in y.chunks)
            got = np.asarray(y.compute(scheduler="sync"))
        except Exception as e:  # noqa: BLE001
            if valid_axis:
                bad = (f"stn:npy:raises:{type(e).__name__}", {"error": repr(e)[:300], "stage": "from_npy_stack"})
            return f"{head} R {err_name(e)}", bad
        if valid_axis:
            want_chunks = tuple(tuple(c) if k == axis else (sum(c),) for k, c in enumerate(chunks))
            if got.shape != src.shape or not np.array_equal(got, src):
                bad = ("stn:npy:roundtrip", {"got": small(got), "want": small(src)})
            elif ychunks != want_chunks or len(files) != len(chunks[axis]):
                bad = ("stn:npy:chunks", {"got": [list(c) for c in ychunks], "want": [list(c) for c in want_chunks], "files": len(files)})
        return f"{head} R {f_ll(ychunks)} {f_vals(got)}", bad
    finally:
        shutil.rmtree(tmp, ignore_errors=True)


def gen_stack(rng):
    rank = rng.choice([1, 1, 2, 2, 2, 3, 3])
    hi = 6 if rank < 3 else 4
    shape = [0 if rng.random() < 0.06 else rng.randint(1, hi) for _ in range(rank)]
    chunks = [list(gen.rand_chunks(rng, n, zeros=0.25, maxparts=4)) if n else [0] * rng.choice([1, 2]) for n in shape]
    v = rng.random()
    if v < 0.82:
        axis = rng.randrange(rank)
    elif v < 0.91:
        axis = rng.choice([-1, -1, -2, -rank, -rank - 1])
    else:
        axis = rng.choice([rank, rank, rank + 1])
    return {"kind": "stn.npy", "chunks": chunks, "axis": axis}


# --------------------------------------------------------------------------- the four correspondence families

def corr_single(ctx):
    """`stn.writes` and `stn.eval` pairs from one generator; in-contract cases are also checked against NumPy"""
    rng = ctx.rng
    writes, evals = [], []
    reported = set()
    tally = {}
    n = ctx.scale(480, 4000)
    for k in range(n):
        case = gen_case(rng)
        ok = in_contract(case)
        base = 100
        impl, t = real_writes(case, base)
        writes.append((f"{FAM_WRITES} {req_tail(case)}", impl))
        outcome = impl.split(" ")[1] if impl.startswith("err") else "ok"
        ctx.count(("stn", "writes") + class_key(case) + (ok, outcome))
        tally[f"{case['form']}/{outcome}"] = tally.get(f"{case['form']}/{outcome}", 0) + 1
        if k % 97 == 0:
            ctx.sample({"kind": "stn.store", "pairs": [dict(case, tid=0, base=base)], "in_contract": ok, "writes": impl[:200]})
        bad = None
        if ok:
            if t is None:  # the call raised
                bad = (f"stn:store:raises:{impl[4:]}", {"target": "rec"})
            else:  # (a block logged 0 / 2 times or an empty block logged is a disagreement; a failure only if the content is wrong)
                sig = classify(t.a, expected(case, base), case, base)
                if sig:
                    bad = (sig, {"got": small(t.a), "want": small(expected(case, base))})
        if k % 5 in (0, 2) or bad:
            base2 = rng.choice([0, 7, 100, 5000])
            order = "fr"[k % 2]
            impl2, t2 = real_eval(case, base2)
            evals.append((f"{FAM_EVAL} {req_tail(case)} {base2} {order}", impl2))
            if k % 10 == 0:  # both orders for the same input: the model's result must not depend on it either
                evals.append((f"{FAM_EVAL} {req_tail(case)} {base2} {'r' if order == 'f' else 'f'}", impl2))
            ctx.count(("stn", "eval") + class_key(case) + (ok, impl2.split(" ")[1] if impl2.startswith("err") else "ok"))
            if ok and bad is None:
                if impl2.startswith("err"):
                    bad = (f"stn:store:raises:{impl2[4:]}", {"target": "numpy"})
                else:
                    sig = classify(t2, expected(case, base2), case, base2)
                    if sig:
                        bad = (sig, {"target": "numpy", "got": small(t2), "want": small(expected(case, base2))})
        if bad and bad[0] not in reported:
            reported.add(bad[0])
            ctx.fail(bad[0], {"kind": "stn.store", "pairs": [dict(case, tid=0, base=base)], "variant": "plain", "target": "rec",
                              "regions_form": "single", "lock": False, "details": bad[1]},
                     "da.store differs from NumPy slice assignment into a sentinel-filled target (in-contract region)")
    return writes, evals, tally


def corr_multi(ctx):
    import dask_array as da

    rng = ctx.rng
    out = []
    for k in range(ctx.scale(90, 800)):
        v = rng.random()
        if v < 0.4:
            jobs = [dict(_contract_case(rng, max_rank=2), tid=j) for j in range(rng.randint(2, 3))]
            if rng.random() < 0.3:  # at most ONE refused / mismatching triple: the exception class does not depend on the block order
                j = rng.randrange(len(jobs))
                jobs[j] = dict(gen_case(rng, rng.choice(REFUSED_FORMS + ("long-slice",)), max_rank=2), tid=j)
        elif v < 0.55:
            jobs = [dict(gen_case(rng, max_rank=2), tid=0), dict(_contract_case(rng, max_rank=2), tid=1)]
            rng.shuffle(jobs)
        else:
            jobs = partition_jobs(rng)
            if rng.random() < 0.4:
                jobs.insert(rng.randint(0, len(jobs)), dict(_contract_case(rng, max_rank=2), tid=1))
        for j, p in enumerate(jobs):
            p["base"] = 1000 * (j + 1)
        if v < 0.4 and len(jobs) == 2 and jobs[0]["form"] not in REFUSED_FORMS and rng.random() < 0.5:
            jobs[1] = dict(jobs[0], tid=1)  # the SAME array into two identical-looking targets
        order = "fr"[k % 2]
        req = f"{FAM_MULTI} {order} " + " ".join(
            f"{p['tid']}/{f_list(p['tshape'])}/{f_ridx(dec_region(p['region']))}/{f_ll(p['chunks'])}/{p['base']}" for p in jobs)
        targets = {}
        for p in jobs:
            targets.setdefault(p["tid"], np.full(tuple(p["tshape"]), SENTINEL, dtype=np.int64))
        try:
            da.store([dask_source(p, p["base"])[1] for p in jobs], [targets[p["tid"]] for p in jobs],
                     regions=[dec_region(p["region"]) for p in jobs], lock=_fresh_lock(), scheduler="sync")
            impl = "ok " + " ".join(f"{tid}={f_vals(t)}" for tid, t in targets.items())
        except Exception as e:  # noqa: BLE001
            impl = err_name(e)
        out.append((req, impl))
        shared = len(targets) < len(jobs)
        ctx.count(("stn", "multi", len(jobs), shared, tuple(sorted({p["form"] for p in jobs})), impl.split(" ")[1] if impl.startswith("err") else "ok"))
    return out


def corr_stack(ctx):
    rng = ctx.rng
    out = []
    reported = set()
    for k in range(ctx.scale(80, 700)):
        case = gen_stack(rng)
        impl, bad = real_stack(case["chunks"], case["axis"])
        out.append((f"{FAM_STACK} {f_ll(case['chunks'])} {case['axis']}", impl))
        rank = len(case["chunks"])
        ctx.count(("stn", "stack", rank, "neg" if case["axis"] < 0 else "big" if case["axis"] >= rank else case["axis"],
                   any(0 in c for c in case["chunks"]), min(4, len(case["chunks"][case["axis"]]) if 0 <= case["axis"] < rank else 0),
                   "R err" in impl))
        if k % 45 == 0:
            ctx.sample(dict(case, response=impl[:200]))
        if bad and bad[0] not in reported:
            reported.add(bad[0])
            ctx.fail(bad[0], dict(case, details=bad[1]), "from_npy_stack(to_npy_stack(x, axis)) differs from x / its chunks along the axis")
    return out


def search(ctx):
    rng = ctx.rng
    reported = {}
    done = 0
    for k in range(ctx.scale(380, 3000)):
        prog = gen_program(rng)
        sig, det = run_program(prog)
        if sig == "invalid-case":
            continue
        done += 1
        ctx.count(("stn", "search", len(prog["pairs"]), len({p["tid"] for p in prog["pairs"]}), prog["variant"], prog["target"], prog["lock"],
                   tuple(sorted({(len(p["shape"]), p["form"]) for p in prog["pairs"]}))))
        if k % 140 == 0:
            ctx.sample(prog)
        if sig is not None:
            reported[sig] = reported.get(sig, 0) + 1
            if reported[sig] <= 3:
                small_prog = shrink_program(prog, sig) if reported[sig] == 1 else prog
                ctx.fail(sig, dict(small_prog, details=run_program(small_prog)[1]),
                         "da.store program (in-contract regions) differs from NumPy slice assignment into sentinel-filled targets")
    return done, reported


def shrink_program(prog, sig, budget=40):
    best = prog
    tries = 0

    def still(c):
        nonlocal tries
        tries += 1
        try:
            return run_program(c)[0] == sig
        except Exception:  # noqa: BLE001
            return False

    changed = True
    while changed and tries < budget:
        changed = False
        if len(best["pairs"]) > 1:
            for i in range(len(best["pairs"])):
                c = dict(best, pairs=best["pairs"][:i] + best["pairs"][i + 1:])
                if still(c):
                    best, changed = c, True
                    break
            if changed:
                continue
        for key, v in (("variant", "plain"), ("target", "numpy"), ("lock", False), ("regions_form", "list")):
            if best.get(key) != v and still(dict(best, **{key: v})):
                best, changed = dict(best, **{key: v}), True
                break
        if changed:
            continue
        for i, p in enumerate(best["pairs"]):
            one = [[n] for n in p["shape"]]
            if p["chunks"] != one:
                c = dict(best, pairs=best["pairs"][:i] + [dict(p, chunks=one)] + best["pairs"][i + 1:])
                if still(c):
                    best, changed = c, True
                    break
    return best


def check_case(case):
    """replay of a case dict reported by this module: (signature or None, details)"""
    if case.get("kind") == "stn.npy":
        return real_stack(case["chunks"], case["axis"])[1] or (None, {})
    sig, det = run_program({k: v for k, v in case.items() if k != "details"})
    return (None, {}) if sig == "invalid-case" else (sig, det)


# --------------------------------------------------------------------------- entry

def _fresh_lock():
    """one lock object per call: with lock=False an in-memory target is named by content only, and a call whose source and
    target look like those of a call whose expression is still alive (not yet collected) collapses onto it (listed finding
    `store:equal-looking-target-of-another-call:untouched`, probed separately in C25.py) - that would make the write-index
    correspondence depend on garbage-collection timing"""
    import threading

    return threading.Lock()


def run(ctx, replay=None):
    if replay is not None:
        case = replay.get("case", replay)
        sig, det = check_case(case)
        if sig is not None:
            ctx.fail(sig, dict(case, details=det), "replayed stn case still fails")
        ctx.count(("stn", "replay"))
        return
    from harness.props.C24 import correspond_all

    t0 = ctx.elapsed()
    writes, evals, tally = corr_single(ctx)
    multi = corr_multi(ctx)
    stack = corr_stack(ctx)
    done, reported = search(ctx)
    t1 = ctx.elapsed()

    def bk_store(req, model):
        t = req.split(" ")
        return (t[0], len(t[1].split(",")) if t[1] != "_" else 0, t[2] in ("N", "_"), t[2].count("|"), ":2" in t[2] or ":3" in t[2],
                "-" in t[2], ",0" in t[3] or t[3].startswith("0"), model[:7])

    correspond_all(ctx, [
        (FAM_WRITES, writes, bk_store),
        (FAM_EVAL, evals, lambda req, m: bk_store(req, m) + (req.split(" ")[-1],)),
        (FAM_MULTI, multi, lambda req, m: (req.count("/") // 4, len({j.split("/")[0] for j in req.split(" ")[2:]}), m[:7], req.split(" ")[1])),
        (FAM_STACK, stack, lambda req, m: (req.split(" ")[1].count(";"), req.split(" ")[2], "R err" in m, "=_" in m)),
    ])
    ctx.notes["stn.rule"] = (
        "real da.store of generated 0-3-d sources (axis <= 6, zero-length chunks, from_array) into sentinel-filled recording / NumPy "
        "targets with regions None / () / slices (offsets, steps 1-3, open / overshooting stops, None starts) / integers (negative too) / "
        "shorter / longer tuples (trailing integers, trailing slices of any step) and ~15 % refused or mismatching forms; per block the "
        "write key + selection shape (stn.writes), the final target under both block orders (stn.eval), 2-3 triples per call with own or "
        "one shared target (stn.multi); to_npy_stack files + info + from_npy_stack read-back for every axis incl. negative / too large "
        "(stn.stack); NumPy-oracle search on in-contract programs (plain / return_stored / compute=False / several pairs / lock)")
    ctx.notes["stn.single_by_form"] = dict(sorted(tally.items()))
    ctx.notes["stn.search_programs"] = done
    if reported:
        ctx.notes["stn.search_failures"] = dict(reported)
    ctx.notes["stn.real_calls_s"] = round(t1 - t0, 2)
    ctx.notes["stn.total_s"] = round(ctx.elapsed() - t0, 2)
