"""Configuration drift between construction / first metadata read and graph build (streams of C04 and C09).

Several planner options are read LAZILY: `array.unify-chunks-policy` / `array.unify-chunks-limit` when the
`.chunks` of an aligned blockwise / elementwise / stack / concatenate node is first asked for AND again when
the node is lowered; `array.chunk-size` (+ tolerance) when the `.chunks` of a source built with
`chunks="auto"` is first asked for and when a `rechunk("auto")` is planned; `array.rechunk.*` when a rechunk
is lowered / its layer built; `split_every` when a reduction is constructed; `array.optimize-graph` when the
collection is materialized.  The options are enumerated from the SOURCE on every run (AST scan of
`config.get` sites shared with the C09 translator: every key reachable from `chunks` / `_lower` /
`_simplify_*` / `_layer`), so a new lazily read key joins the stream automatically (generic value domain).

A case: clean registries → build a program under setting A → touch some metadata of some variables
(`.chunks` / `.numblocks` / `.name` / `__dask_keys__()` / `__dask_graph__()` / `compute()`: most of them cache
the advertised layout, `.name` does not) → switch to setting B (one option drifted, `array.optimize-graph` on
or off) → observe the SAME collection (or a fresh collection over the same expression):

  C04:  `__dask_keys__()` is the grid of the advertised blocks, the graph defines exactly those keys under the
        collection's name, is closed and acyclic, every advertised key holds a block of the advertised extent,
        the layer contract holds on every materialized layer; the blocks under the advertised keys assemble
        to the NumPy value.
  C09:  the blocks taken key by key from `__dask_graph__()` under the advertised keys, and `compute()`, equal
        NumPy under B — whatever A and the touched metadata were.

Programs: elementwise / where / blockwise(f, x, y) / stack / concatenate / tensordot over 2-3 operands whose
chunkings are nested-but-different (one refines the other), interleaved or equal, with broadcasting operands
(fewer dimensions, length-1 axes), sources with `chunks="auto"` / byte-string chunk specs, `rechunk("auto")`,
tree reductions taking `split_every` from the configuration, then elementwise post-processing and (a quarter)
one layout-capturing consumer.  A failure replays from the case dict alone.
"""
from __future__ import annotations

import warnings

import numpy as np

from harness import core, graphs, programs

# value domains of the known options (kept in step with harness/props/C09.CONFIG_DOMAIN); an option found in the
# source that is not listed here is varied over GENERIC
DOMAIN = {
    "array.optimize-graph": [True, False],
    "array.rechunk.threshold": [1, 4, 32],
    "array.rechunk.degree-limit": [2, 3, 100],
    "array.rechunk.method": [None, "tasks"],
    "array.chunk-size": ["16B", "64B", "256B", "128MiB"],
    "array.chunk-size-tolerance": [1.25, 1.0, 2.0],
    "array.unify-chunks-policy": ["auto", "coarse", "refine"],
    "array.unify-chunks-limit": [None, "8B", "32B", "1KiB"],
    "split_every": [2, 3, 16],
}
GENERIC = [None, True, False, 1, 2, 1000, "16B", "1KiB", "tasks", "auto", "coarse", "refine"]
# not planner options of the array graph (serialization switch, p2p disk, scheduler choice, tokenization strictness)
NOT_PLANNER = ("dask-expr-no-serialize", "distributed.p2p.storage.disk", "scheduler", "tokenize.ensure-deterministic",
               "array.svg.size", "<dynamic>")
UNIFY_KEYS = ("array.unify-chunks-policy", "array.unify-chunks-limit")
ELEMWISE_OPS = set(programs.UNARY) | set(programs.BINARY) | {"src", "src_auto", "arange_auto", "astype", "clip", "where_scalar", "where3"}
# layout-capturing consumers above an aligned node: the documented C09 family `unify-policy-drift`
SIG_UNIFY_DRIFT = "unify-policy-drift"
TOUCHES = ("chunks", "numblocks", "keys", "name", "graph", "compute", "chunks", "keys")

_LAZY = {}


def lazy_options():
    """Options the array planner reads after construction, from the source of the tree under test."""
    key = str(core.REPO)
    if key not in _LAZY:
        from harness.translate import configreads

        info = configreads.analyse(core.REPO)
        keys = sorted({k for _, k, p in info["rows"] if p != "other" and k not in NOT_PLANNER})
        _LAZY[key] = {k: list(DOMAIN.get(k, GENERIC)) for k in keys} or dict(DOMAIN)
        _LAZY[key].setdefault("array.optimize-graph", [True, False])
    return _LAZY[key]


def clear_state():
    """Clean registries: the shared lowering cache and every singleton registry (cached `.chunks` live on the
    singleton nodes: without this a case would depend on the cases before it)."""
    import dask._expr as DE
    from dask_array import _materialize as M

    M._LOWER_CACHE.clear()
    stack = [DE.SingletonExpr]
    seen = set()
    while stack:
        c = stack.pop()
        if c in seen:
            continue
        seen.add(c)
        stack.extend(c.__subclasses__())
        inst = c.__dict__.get("_instances")
        if inst is not None:
            inst.clear()


# ------------------------------------------------------------------------------------ programs

def _blk_add(a, b):
    return a + b * 2


def apply_step(step, env, m, da_mode):
    op = step["op"]
    A = [env[a] for a in step.get("args", [])]
    if op == "src_auto":
        data = programs.source_data(step)
        return m.from_array(data, chunks=step["spec"]) if da_mode else data
    if op == "arange_auto":
        return m.arange(step["n"], chunks=step["spec"], dtype="int64") if da_mode else np.arange(step["n"], dtype="int64")
    if op == "rechunk_auto":
        spec = step["spec"]
        if isinstance(spec, dict):
            spec = {int(k): v for k, v in spec.items()}
        return A[0].rechunk(spec) if da_mode else A[0]
    if op == "where3":
        return m.where(A[0] % 2 == 0, A[1], A[2])
    if op == "blockwise2":
        # an ALIGNED two-operand blockwise (da.map_blocks does not align its operands: equal block structure is
        # its precondition)
        if da_mode:
            ind = "ijkl"[: A[0].ndim]
            return m.blockwise(_blk_add, ind, A[0], ind, A[1], ind, dtype=A[0].dtype)
        return _blk_add(A[0], A[1])
    if op == "tensordot":
        return m.tensordot(A[0], A[1], axes=step["axes"])
    if op == "matmul":
        return m.matmul(A[0], A[1])
    return programs.apply_step_ext(step, env, m, da_mode)


def run_np(prog):
    env = {}
    with np.errstate(all="ignore"):
        for st in prog:
            env[st["out"]] = apply_step(st, env, np, False)
    return env


def run_da(prog):
    import dask_array as da

    env = {}
    for st in prog:
        env[st["out"]] = apply_step(st, env, da, True)
    return env


def _split(rng, c):
    """random refinement of one chunk of width c"""
    out = []
    while c > 0:
        k = rng.randint(1, c)
        out.append(k)
        c -= k
    return out


def axis_chunkings(rng, n, k):
    """k chunkings of an axis of length n: a coarse one and nested / interleaved / equal relatives"""
    divs = [d for d in range(1, n + 1) if n % d == 0]
    mode = rng.choice(["nested-regular", "nested-regular", "nested-split", "interleaved", "equal", "single"])
    if mode in ("nested-regular", "nested-split", "equal"):
        c = rng.choice([d for d in divs if d > 1] or divs)
        coarse = [c] * (n // c)
    elif mode == "single":
        coarse = [n]
    else:
        coarse = list(programs.gen.rand_chunks(rng, n))
    out = [coarse]
    for _ in range(k - 1):
        if mode == "nested-regular":
            f = rng.choice([d for d in range(1, coarse[0] + 1) if coarse[0] % d == 0 and d < coarse[0]] or [coarse[0]])
            out.append([f] * (n // f))
        elif mode in ("nested-split", "single"):
            out.append([p for c in coarse for p in (_split(rng, c) if rng.random() < 0.7 else [c])])
        elif mode == "equal":
            out.append(list(coarse))
        else:
            out.append(list(programs.gen.rand_chunks(rng, n)))
    rng.shuffle(out)
    return out


class _G:
    def __init__(self, rng):
        self.rng = rng
        self.prog = []
        self.k = 0

    def add(self, st):
        self.k += 1
        st["out"] = f"v{self.k}"
        self.prog.append(st)
        return st["out"]

    def src(self, shape, chunks):
        rng = self.rng
        return self.add({"op": "src", "shape": list(shape), "chunks": [list(c) for c in chunks], "mul": rng.choice([1, 3, 7]),
                         "off": rng.randint(-5, 5), "mod": rng.choice([1 << 20, 11, 5])})


def gen_prog(rng, flavour=None):
    """(prog, flavour).  The combining node aligns 2-3 operands with related chunkings."""
    g = _G(rng)
    flavour = flavour or rng.choice(["elemwise"] * 6 + ["where3", "blockwise2", "stack", "concatenate", "tensordot", "auto", "auto",
                                                         "rechunk_auto", "reduce_cfg", "nested"])
    nd = rng.choice([1, 1, 2])
    shape = [rng.choice([4, 6, 8, 12, 16, 24])] + ([rng.choice([2, 3, 4, 6])] if nd == 2 else [])
    nops = 3 if flavour == "where3" else rng.choice([2, 2, 3])
    per_axis = [axis_chunkings(rng, n, nops) for n in shape]
    ops = []
    for j in range(nops):
        shp = list(shape)
        ch = [per_axis[a][j] for a in range(nd)]
        if flavour in ("elemwise", "where3", "nested") and nd == 2 and rng.random() < 0.3:
            if rng.random() < 0.5:  # fewer dimensions
                shp, ch = shp[1:], ch[1:]
            else:  # a length-1 axis
                a = rng.randrange(2)
                shp[a], ch[a] = 1, [1]
        v = g.src(shp, ch)
        if rng.random() < 0.3:  # operand is not a bare source (a rechunk cannot sink into the reader)
            v = g.add({"op": rng.choice(["affine", "neg", "sq"]), "args": [v]})
        ops.append(v)
    if not any(len(st["shape"]) == nd for st in g.prog if st["op"] == "src"):
        ops[0] = g.src(shape, [per_axis[a][0] for a in range(nd)])
    binop = lambda: rng.choice(list(programs.BINARY))  # noqa: E731
    if flavour in ("elemwise", "nested"):
        cur = g.add({"op": binop(), "args": [ops[0], ops[1]]})
        for v in ops[2:]:
            if flavour == "nested" or rng.random() < 0.5:
                cur = g.add({"op": rng.choice(["affine", "mod7"]), "args": [cur]})
            cur = g.add({"op": binop(), "args": [cur, v] if rng.random() < 0.5 else [v, cur]})
        if flavour == "nested":
            w = g.src(shape, [axis_chunkings(rng, n, 1)[0] for n in shape])
            cur = g.add({"op": binop(), "args": [cur, w]})
    elif flavour == "where3":
        cur = g.add({"op": "where3", "args": ops[:3]})
    elif flavour == "blockwise2":
        full = [v for v in ops]
        cur = g.add({"op": "blockwise2", "args": full[:2]})
    elif flavour in ("stack", "concatenate"):
        ax = rng.randrange(nd + (1 if flavour == "stack" else 0))
        cur = g.add({"op": flavour, "args": ops, "axis": ax})
    elif flavour == "tensordot":
        if nd == 1:
            cur = g.add({"op": "tensordot", "args": ops[:2], "axes": 1})
        else:
            t = g.add({"op": "transpose", "args": [ops[1]], "axes": [1, 0]})
            cur = g.add({"op": "matmul" if rng.random() < 0.5 else "tensordot", "args": [ops[0], t], "axes": 1})
    elif flavour == "auto":
        spec = rng.choice(["auto", "16B", "64B", "auto"])
        a = g.add({"op": "src_auto", "shape": shape, "spec": spec, "mul": 3, "off": rng.randint(-3, 3), "mod": 1 << 20})
        if nd == 1 and rng.random() < 0.5:
            b = g.add({"op": "arange_auto", "n": shape[0], "spec": rng.choice(["auto", "32B"])})
        else:
            b = ops[0]
        cur = g.add({"op": binop(), "args": [a, b] if rng.random() < 0.5 else [b, a]})
    elif flavour == "rechunk_auto":
        spec = rng.choice(["auto", {"0": "auto"}, "32B", {"0": "16B"}])
        a = g.add({"op": "rechunk_auto", "args": [ops[0]], "spec": spec})
        cur = g.add({"op": binop(), "args": [a, ops[1]]})
    else:  # reduce_cfg: the tree fan-in comes from the configuration in force at construction
        big = g.src([16] + shape[1:], [[1] * 16] + [per_axis[a][0] for a in range(1, nd)])
        s = g.add({"op": binop(), "args": [ops[0], ops[1]]})
        r = g.add({"op": "reduce", "fn": rng.choice(["sum", "max"]), "args": [big], "axis": 0, "keepdims": True, "split_every": None})
        cur = g.add({"op": binop(), "args": [s, r]}) if True else r
    # elementwise post-processing keeps the aligned node's layout (no consumer captures it)
    for _ in range(rng.choice([0, 1, 1, 2])):
        k = rng.choice(["unary", "astype", "clip", "where_scalar"])
        if k == "unary":
            cur = g.add({"op": rng.choice(list(programs.UNARY)), "args": [cur]})
        elif k == "astype":
            cur = g.add({"op": "astype", "args": [cur], "dtype": rng.choice(["int64", "int32", "float64"])})
        elif k == "clip":
            cur = g.add({"op": "clip", "args": [cur], "lo": -50, "hi": 50})
        else:
            cur = g.add({"op": "where_scalar", "args": [cur], "mod": rng.randint(2, 4), "fill": rng.randint(-3, 3)})
    return g.prog, flavour


def add_consumer(rng, prog):
    """one layout-capturing consumer above the root (the documented C09 family when a unify option drifts)"""
    env = run_np(prog)
    root = prog[-1]["out"]
    x = env[root]
    k = int(root[1:]) + 1
    cands = ["getitem", "transpose", "reduce", "rechunk", "flip", "cumsum", "broadcast_to", "reshape", "expand_dims", "map_blocks"]
    kind = rng.choice(cands)
    st = None
    if kind == "getitem" and x.ndim:
        st = {"op": "getitem", "args": [root], "index": programs._enc_index(programs.rand_basic_index(rng, x.shape, allow_none=False, allow_ellipsis=False) or (slice(None),))}
    elif kind == "transpose" and x.ndim >= 2:
        st = {"op": "transpose", "args": [root], "axes": list(range(x.ndim))[::-1]}
    elif kind == "reduce" and x.ndim:
        st = {"op": "reduce", "fn": "sum", "args": [root], "axis": rng.randrange(x.ndim), "keepdims": rng.random() < 0.5, "split_every": rng.choice([None, 2])}
    elif kind == "rechunk" and x.ndim:
        st = {"op": "rechunk", "args": [root], "chunks": [list(c) for c in programs.rand_chunks_nd(rng, x.shape)]}
    elif kind == "flip" and x.ndim:
        st = {"op": "flip", "args": [root], "axis": rng.randrange(x.ndim)}
    elif kind == "cumsum" and x.ndim:
        st = {"op": "cumsum", "args": [root], "axis": rng.randrange(x.ndim), "method": rng.choice(["sequential", "blelloch"])}
    elif kind == "broadcast_to":
        st = {"op": "broadcast_to", "args": [root], "shape": [2] + list(x.shape)}
    elif kind == "reshape" and x.ndim:
        st = {"op": "reshape", "args": [root], "shape": [int(x.size)]}
    elif kind == "expand_dims":
        st = {"op": "expand_dims", "args": [root], "axis": 0}
    elif kind == "map_blocks" and x.ndim:
        st = {"op": "map_blocks", "args": [root], "fn": "affine"}
    if st is None:
        return prog
    st["out"] = f"v{k}"
    cand = prog + [st]
    try:
        run_np(cand)
    except Exception:
        return prog
    return cand


def has_consumer(prog):
    """a non-elementwise step consumes (transitively) an aligned multi-operand node"""
    aligned = set()
    for st in prog:
        args = [a for a in st.get("args", [])]
        if st["op"] in ("tensordot", "matmul"):
            return True  # an aligned blockwise product with the contraction's tree sum above it, in one call
        below = any(a in aligned for a in args)
        if below and st["op"] not in ELEMWISE_OPS:
            return True
        if len(args) >= 2 or below:
            aligned.add(st["out"])
    return False


def rand_base(rng, opts, p=0.3):
    pt = {}
    for k, vals in opts.items():
        if k != "array.optimize-graph" and rng.random() < p:
            v = rng.choice(vals)
            if k == "split_every" and v is None:
                continue
            pt[k] = v
    return pt


def gen_case(rng, i, flavour=None):
    """One drift case.  Even i: a unify option drifts; odd i: the lazily read options in turn."""
    opts = lazy_options()
    keys = [k for k in opts if k != "array.optimize-graph"]
    unify = [k for k in keys if k in UNIFY_KEYS] or keys
    key = unify[(i // 2) % len(unify)] if i % 2 == 0 else keys[(i // 2) % len(keys)]
    if flavour is None and key in ("array.chunk-size", "array.chunk-size-tolerance") and rng.random() < 0.7:
        flavour = rng.choice(["auto", "rechunk_auto"])
    if flavour is None and key == "split_every" and rng.random() < 0.7:
        flavour = "reduce_cfg"
    prog, flavour = gen_prog(rng, flavour)
    if rng.random() < 0.25:
        prog = add_consumer(rng, prog)
    a, b = rng.sample(opts[key], 2) if len(opts[key]) >= 2 else (opts[key][0], opts[key][0])
    base = rand_base(rng, {k: v for k, v in opts.items() if k != key}) if rng.random() < 0.4 else {}
    ptA, ptB = dict(base), dict(base)
    for pt, v in ((ptA, a), (ptB, b)):
        if not (key == "split_every" and v is None):
            pt[key] = v
    if rng.random() < 0.3:
        ptA["array.optimize-graph"] = rng.random() < 0.5
    names = [st["out"] for st in prog]
    root = names[-1]
    multi = [st["out"] for st in prog if len(st.get("args", [])) >= 2]
    touch = []
    r = rng.random()
    if r < 0.12:
        pass  # nothing read under A: everything is decided under B
    elif r < 0.75:
        touch.append([root, rng.choice(TOUCHES)])
    else:
        # an INNER aligned node's layout is fixed under A, the root's only under B (or both)
        touch.append([rng.choice(multi or names), rng.choice(TOUCHES)])
        if rng.random() < 0.5:
            touch.append([root, rng.choice(TOUCHES)])
    return {"kind": "drift", "flavour": flavour, "drift": key, "prog": prog, "ptA": ptA, "touch": touch, "ptB": ptB,
            "obj": rng.choice(["same", "same", "fresh"])}


def corner_cases(rng):
    """Systematic part: every ordered pair of values of the two unify options x what was read under A, on fresh
    nested-but-different operand chunkings (decided by the seed), elementwise only."""
    opts = lazy_options()
    out = []
    progs = []
    for nd in (1, 2):
        g = _G(rng)
        f = rng.choice([1, 2, 3])
        m = rng.choice([2, 3, 4])
        nb = rng.choice([2, 3, 4])
        n = f * m * nb
        shape = [n] + ([rng.choice([2, 4])] if nd == 2 else [])
        c1 = [[f * m] * nb] + ([[shape[1]]] if nd == 2 else [])
        c2 = [[f] * (m * nb)] + ([[shape[1] // 2] * 2] if nd == 2 else [])
        x, y = g.src(shape, c1), g.src(shape, c2)
        if rng.random() < 0.5:
            x, y = y, x
        z = g.add({"op": rng.choice(list(programs.BINARY)), "args": [x, y]})
        g.add({"op": rng.choice(["affine", "neg", "sq"]), "args": [z]})
        progs.append(g.prog)
    # lazily sized operands: a source with chunks="auto" / a rechunk("auto") next to an explicitly chunked operand
    auto_progs = []
    for kind in ("src_auto", "rechunk_auto"):
        g = _G(rng)
        shape = [rng.choice([8, 12, 16]), rng.choice([2, 4])]
        y = g.src(shape, [[2] * (shape[0] // 2), [shape[1]]])
        if kind == "src_auto":
            x = g.add({"op": "src_auto", "shape": shape, "spec": "auto", "mul": 3, "off": rng.randint(-3, 3), "mod": 1 << 20})
        else:
            x0 = g.src(shape, [[shape[0]], [1] * shape[1]])
            x = g.add({"op": "rechunk_auto", "args": [x0], "spec": "auto"})
        z = g.add({"op": rng.choice(list(programs.BINARY)), "args": [x, y] if rng.random() < 0.5 else [y, x]})
        g.add({"op": rng.choice(["affine", "neg", "sq"]), "args": [z]})
        auto_progs.append(g.prog)
    for key in UNIFY_KEYS + ("array.chunk-size",):
        vals = opts.get(key) or DOMAIN[key]
        for a in vals:
            for b in vals:
                if a == b:
                    continue
                for t in ("chunks", "keys", "none") if key in UNIFY_KEYS else ("chunks", "graph"):
                    pool = progs if key in UNIFY_KEYS else auto_progs
                    prog = pool[len(out) % len(pool)]
                    root = prog[-1]["out"]
                    ptA = {} if a is None else {key: a}
                    ptB = {} if b is None else {key: b}
                    out.append({"kind": "drift", "flavour": "corner", "drift": key, "prog": prog, "ptA": ptA,
                                "touch": [] if t == "none" else [[root, t]], "ptB": ptB, "obj": "same"})
    return out


# ------------------------------------------------------------------------------------ running a case

class Built:
    __slots__ = ("env", "want", "x", "root", "error")


def build(case):
    """clean registries; construct under A; touch.  Returns Built (error = (phase, exception) or None)."""
    import dask
    from dask_array._new_collection import new_collection

    prog = case["prog"]
    out = Built()
    out.want = run_np(prog)
    out.root = prog[-1]["out"]
    out.error = None
    out.env = out.x = None
    clear_state()
    try:
        with dask.config.set(case.get("ptA") or {}):
            phase = "construct"
            out.env = run_da(prog)
            phase = "touch"
            for var, what in case.get("touch") or []:
                v = out.env[var]
                if what == "chunks":
                    v.chunks
                elif what == "numblocks":
                    v.numblocks
                elif what == "keys":
                    v.__dask_keys__()
                elif what == "name":
                    v.name
                elif what == "graph":
                    # graph built under A through another collection object: the expression's metadata and the
                    # shared lowering cache are warm, this collection's own materialization is not
                    new_collection(v.expr).__dask_graph__()
                elif what == "compute":
                    new_collection(v.expr).compute(scheduler="sync")
    except Exception as e:  # noqa: BLE001
        out.error = (phase, e)
        return out
    out.x = out.env[out.root]
    if case.get("obj") == "fresh":
        out.x = new_collection(out.x.expr)
    return out


def known_family(case):
    """documented C09 family: a layout-capturing consumer above an aligned node while a unify option drifts"""
    a, b = case.get("ptA") or {}, case.get("ptB") or {}
    drifted = any(a.get(k) != b.get(k) for k in UNIFY_KEYS)
    return drifted and has_consumer(case["prog"])


def same(got, want):
    try:
        got = np.asarray(got)
        want = np.asarray(want)
    except Exception:
        return False
    if got.dtype == object or got.shape != want.shape:
        return False
    if want.dtype.kind == "f" or got.dtype.kind == "f":
        return bool(np.allclose(got, want, rtol=1e-12, atol=0, equal_nan=True))
    return bool(np.array_equal(got, want))


def show(v):
    try:
        a = np.asarray(v)
        return f"shape {a.shape} {a.ravel()[:12].tolist()!r}"
    except Exception:
        return repr(v)[:120]


def describe(case):
    return (f"built under {case.get('ptA')}, read {case.get('touch')} there, graph under {case.get('ptB')} "
            f"({case.get('obj', 'same')} collection, drifting {case.get('drift')}, {case.get('flavour')})")


def note_effective(ctx, case, b):
    """Count the cases in which the drift is EFFECTIVE: the layout the collection advertises (fixed under A) differs
    from the one the same program advertises when built under B from clean registries."""
    import dask

    try:
        adv = b.x.chunks
        clear_state()
        with dask.config.set(case.get("ptB") or {}):
            other = run_da(case["prog"])[b.root].chunks
    except Exception:
        return
    if adv != other:
        ctx.count(("drift-effective", case.get("drift"), case.get("flavour")), n=0)
        ctx.notes["drift_effective_cases"] = ctx.notes.get("drift_effective_cases", 0) + 1


# ---- C04 side

def run_c04(ctx, case, count=True):
    """Returns list of (signature, detail) or None when the program is refused."""
    import dask
    from harness.props import C04

    with warnings.catch_warnings():
        warnings.simplefilter("ignore")
        b = build(case)
        if b.error is not None:
            return _build_error(ctx, case, b, count)
        fails = []
        what = describe(case)
        try:
            with dask.config.set(case.get("ptB") or {}):
                x = b.x
                bad, nl, nt = C04.check_array(x, b.root)
                fails += [(s + "@drift", f"{d}  [{what}]") for s, d in bad]
                if count:
                    ctx.count(("drift", case.get("drift"), case.get("flavour"), bool((case.get("ptB") or {}).get("array.optimize-graph", True)),
                               tuple(t[1] for t in case.get("touch") or [])))
                    ctx.notes["drift_layers_monitored"] = ctx.notes.get("drift_layers_monitored", 0) + nl
                # (values in the documented family — a layout-capturing consumer above an aligned node while a unify
                #  option drifts — are C09's known finding `unify-policy-drift`; the structural facts are checked all the same)
                if not bad and not known_family(case):
                    tasks = graphs.to_tasks(x.__dask_graph__())
                    if len(tasks) <= 600:
                        values, _ = graphs.execute(tasks, rng=None, order="fifo")
                        got = graphs.assemble(x, values)
                        if not same(got, b.want[b.root]):
                            fails.append(("advertised-keys-wrong-value@drift", f"{b.root}: blocks under the advertised keys assemble to {show(got)}, "
                                          f"NumPy says {show(b.want[b.root])}  [{what}]"))
                if case.get("names"):
                    bad, o, p = C04.check_names(x, b.root)
                    fails += [(s + "@drift", f"{d}  [{what}]") for s, d in bad]
                    for y, lab in ((o, f"optimize({b.root})"), (p, f"persist({b.root})")):
                        if y is not None:
                            b2, _, _ = C04.check_array(y, lab)
                            fails += [(s + "@drift", f"{d}  [{what}]") for s, d in b2]
        except NotImplementedError:
            return None
        except Exception as e:  # noqa: BLE001
            msg = f"{type(e).__name__}: {e}"
            fails.append((f"graph-raises:{type(e).__name__}@drift", f"{b.root}: building/inspecting the graph raised {msg[:240]}  [{what}]"))
        if count and (case.get("ptB") or {}).get("array.optimize-graph", True):
            note_effective(ctx, case, b)
    if known_family(case):
        fails = [(SIG_UNIFY_DRIFT, d) for s, d in fails]
    return fails


def _build_error(ctx, case, b, count):
    """Construction / metadata read under A raised: a statement about this stream only when the same program
    builds fine under the default configuration (otherwise a construction refusal: C01's)."""
    phase, e = b.error
    if isinstance(e, NotImplementedError):
        return None
    plain = dict(case, ptA={})
    b2 = build(plain)
    if b2.error is not None:
        if count:
            ctx.notes["drift_construction_raises_under_default"] = ctx.notes.get("drift_construction_raises_under_default", 0) + 1
        return None
    msg = f"{type(e).__name__}: {str(e)[:200]}"
    sig = SIG_UNIFY_DRIFT if known_family(dict(case, ptB={})) else f"config-build-raises:{type(e).__name__}@drift"
    return [(sig, f"{phase} under {case.get('ptA')} raised {msg} (fine under the default configuration)  [{describe(case)}]")]


# ---- C09 side

class AdvertisedKeysError(Exception):
    """the graph does not hold the advertised blocks under the advertised keys"""


def keys_value(x):
    """The collection's value taken key by key from its graph under the keys it advertises."""
    import dask
    from dask.core import flatten

    keys = x.__dask_keys__()
    graph = dict(x.__dask_graph__())
    flat = list(flatten(keys))
    missing = [k for k in flat if k not in graph]
    if missing:
        raise AdvertisedKeysError(f"{len(missing)} of {len(flat)} advertised keys are not in the graph, e.g. {missing[0]}")
    blocks = dask.get(graph, keys)

    def tolist(b):
        return [tolist(i) for i in b] if isinstance(b, (tuple, list)) else b

    if not x.ndim:
        return np.asarray(tolist(blocks)[0]), flat, graph
    # every advertised key holds a block of the advertised extent
    for k, blk in zip(flat, flatten(tolist(blocks))):
        shp = tuple(x.chunks[d][i] for d, i in enumerate(k[1:]))
        if not any(c != c for c in shp) and tuple(np.shape(blk)) != tuple(int(c) for c in shp):
            raise AdvertisedKeysError(f"key {k} holds a block of shape {np.shape(blk)}, the advertised chunks say {shp}")
    return np.block(tolist(blocks)), flat, graph


def run_c09(ctx, case, count=True):
    """Returns list of (signature, detail) or None when refused."""
    import dask

    with warnings.catch_warnings():
        warnings.simplefilter("ignore")
        b = build(case)
        if b.error is not None:
            r = _build_error(ctx, case, b, count)
            return None if r is None else [(s.replace("@drift", "").replace("config-build-raises", "drift:build-raises"), d) for s, d in r]
        fails = []
        what = describe(case)
        want = b.want[b.root]
        known = known_family(case)

        def check(label, f):
            try:
                got = f()
            except NotImplementedError:
                return
            except Exception as e:  # noqa: BLE001
                msg = f"{type(e).__name__}: {e}"
                fails.append((SIG_UNIFY_DRIFT if known else f"drift:{label}-raises:{type(e).__name__}", f"{label}: raised {msg[:240]}  [{what}]"))
                return
            if count:
                ctx.count(("drift", label, case.get("drift"), case.get("flavour"), tuple(t[1] for t in case.get("touch") or [])))
            if not same(got, want):
                fails.append((SIG_UNIFY_DRIFT if known else f"drift:{label}-value-mismatch", f"{label}: {show(got)} expected {show(want)}  [{what}]"))

        with dask.config.set(case.get("ptB") or {}):
            x = b.x
            check("keys", lambda: keys_value(x)[0])
            check("compute", lambda: x.compute(scheduler="sync"))
            if case.get("obj") != "fresh":
                from dask_array._new_collection import new_collection

                check("fresh-keys", lambda: keys_value(new_collection(x.expr))[0])
            # (the EXPRESSION's own `__dask_keys__` is not used: it derives keys by lowering and is documented as
            #  meaningful on lowered expressions only — on a raw expression it names the lowered root, while
            #  `ArrayExpr.__dask_graph__` pins the raw name)
        if count and (case.get("ptB") or {}).get("array.optimize-graph", True):
            note_effective(ctx, case, b)
    return fails


# ------------------------------------------------------------------------------------ shrinking

def shrink(case, still):
    """Greedy, verified: drop touches, config keys, program steps while `still(case)`."""
    import json

    cur = json.loads(json.dumps(case))
    for name in ("ptA", "ptB"):
        for key in list(cur.get(name) or {}):
            c = dict(cur, **{name: {a: v for a, v in cur[name].items() if a != key}})
            if still(c):
                cur = c
    for k in range(len(cur.get("touch") or []) - 1, -1, -1):
        c = dict(cur, touch=cur["touch"][:k] + cur["touch"][k + 1:])
        if still(c):
            cur = c
    if cur.get("obj") == "fresh" and still(dict(cur, obj="same")):
        cur["obj"] = "same"
    if cur.get("names") and still(dict(cur, names=False)):
        cur["names"] = False
    # program: bypass unary steps / drop unused ones (never a step a touch refers to)
    changed = True
    it = 0
    while changed and it < 60:
        changed = False
        prog = cur["prog"]
        touched = {t[0] for t in cur.get("touch") or []}
        for k in range(len(prog) - 1, -1, -1):
            st = prog[k]
            out = st["out"]
            if st["op"] in ("src",) or len(st.get("args", [])) != 1 or out in touched and k != len(prog) - 1:
                continue
            it += 1
            sub = st["args"][0]
            cand = []
            for s2 in prog[:k] + prog[k + 1:]:
                s2 = dict(s2)
                if "args" in s2:
                    s2["args"] = [sub if a == out else a for a in s2["args"]]
                cand.append(s2)
            if not cand or cand[-1]["op"] == "src":
                continue
            used = {cand[-1]["out"]}
            for s2 in reversed(cand):
                if s2["out"] in used:
                    used |= set(s2.get("args", []))
            cand = [s2 for s2 in cand if s2["out"] in used]
            c = dict(cur, prog=cand, touch=[[cand[-1]["out"] if t[0] == out else t[0], t[1]] for t in cur.get("touch") or []])
            if any(t[0] not in {s2["out"] for s2 in cand} for t in c["touch"]):
                continue
            try:
                run_np(cand)
                if still(c):
                    cur = c
                    changed = True
                    break
            except Exception:
                continue
    return cur


# ------------------------------------------------------------------------------------ streams

def stream(ctx, runner, n_random, budget, names_every=0):
    """corner cases + n_random generated cases through `runner(ctx, case)`; failures are shrunk and reported."""
    import time

    rng = ctx.rng
    t0 = time.time()
    cases = corner_cases(rng)
    done = 0
    refused = 0
    per_sig = {}
    for i in range(len(cases) + n_random):
        if time.time() - t0 > budget:
            ctx.notes["drift_stopped_early_at"] = i
            break
        base = cases[i] if i < len(cases) else gen_case(rng, i - len(cases))
        # graph build with optimization on and off (unless the drifting option is that switch's partner already)
        for opt in (False, True):
            case = dict(base, ptB=dict(base["ptB"], **{"array.optimize-graph": opt}))
            if names_every and i % names_every == 1:
                case["names"] = True
            fails = runner(ctx, case)
            if fails is None:
                refused += 1
                break
            done += 1
            if i < len(cases) + 2 and i >= len(cases) and opt:
                ctx.sample({k: case[k] for k in ("flavour", "drift", "ptA", "touch", "ptB", "obj")} | {"ops": [s["op"] for s in case["prog"]]})
            seen = set()
            for sig, detail in fails:
                if sig in seen:
                    continue
                seen.add(sig)
                per_sig[sig] = per_sig.get(sig, 0) + 1
                if per_sig[sig] > 3:
                    # the first three inputs of a signature are shrunk and reported; further ones are counted
                    ctx.notes["drift_more_failing_cases"] = ctx.notes.get("drift_more_failing_cases", 0) + 1
                    continue
                small = case
                try:
                    def still(c, sig=sig):
                        f = runner(ctx, c, count=False)
                        return bool(f) and any(s == sig for s, _ in f)

                    small = shrink(case, still)
                    f2 = runner(ctx, small, count=False)
                    detail = next((d for s, d in (f2 or []) if s == sig), detail)
                except Exception:
                    pass
                ctx.fail(sig, small, detail)
    ctx.notes["drift_cases"] = ctx.notes.get("drift_cases", 0) + done
    ctx.notes["drift_refused"] = ctx.notes.get("drift_refused", 0) + refused
    ctx.notes["drift_options"] = sorted(lazy_options())
    clear_state()


def run_c04_stream(ctx):
    stream(ctx, run_c04, ctx.scale(300, 3000), ctx.scale(16, 150), names_every=7)


def run_c09_stream(ctx):
    stream(ctx, run_c09, ctx.scale(300, 3000), ctx.scale(16, 150))
