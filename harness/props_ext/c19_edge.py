"""C19 extension — scans and windowed operations on inputs whose special cells sit AT BLOCK EDGES.

New kinds (replayed through C19.check_case):
  * "mcum"  cumsum / cumprod of a numpy.ma array (both methods, every axis incl. None, data dtypes bool / signed /
            unsigned / float16-64 / complex, explicit dtype= incl. narrowing and kind-changing), masked cells given
            explicitly: last / first cell of a block, a whole block (one line or all lines), prefixes, everything,
            nomask.  Oracle: np.cumsum / np.cumprod on the masked array (class, mask, unmasked values, dtype).
  * "mwin"  diff / sliding_window_view (alone and reduced) / map_overlap stencil of a numpy.ma array.
Case streams for the existing kinds, built here:
  * NaN cells at block edges / whole NaN blocks for nancumsum / nancumprod / forward fill / cumsum, bottleneck move_*
    (min_count) and nan-reducers over sliding windows (`nan_cells`),
  * explicit dtype= (narrowing / widening / kind-changing) × data dtype × method, followed by a slice that selects
    later blocks (the dtype of EVERY block is the advertised one),
  * diff with prepend= / append= (scalar and array), diff / gradient / scans followed by a slice (gradient with a
    coordinate array: the slice must not be pushed below the position-aware block function).
"""
from __future__ import annotations

import itertools
import warnings

import numpy as np

SWV = np.lib.stride_tricks.sliding_window_view
DT = {"bool": np.bool_, "i1": np.int8, "i2": np.int16, "i4": np.int32, "i8": np.int64, "u1": np.uint8, "u4": np.uint32,
      "u8": np.uint64, "f2": np.float16, "f4": np.float32, "f8": np.float64, "c8": np.complex64, "c16": np.complex128}


def mdata(shape, dt, dseed, func):
    """Values whose running sums / products are exactly representable in every dtype used (small integers, powers
    of two), never the identity of the operation (a dropped carry must change the result)."""
    rng = np.random.default_rng(int(dseed))
    t = np.dtype(DT[dt])
    if func == "cumprod":
        if t.kind == "f":
            v = rng.choice(np.array([2.0, -2.0, 0.5, -0.5, -1.0, 4.0]), size=shape)
        elif t.kind == "c":
            v = rng.choice(np.array([2.0, -2.0, 1j, -1j, 2j, 0.5]), size=shape)
        elif t.kind == "b":
            v = rng.integers(0, 2, size=shape)
        elif t.kind == "u":
            v = rng.choice(np.array([2, 3, 2, 1]), size=shape)
        else:
            v = rng.choice(np.array([2, -2, 3, -1, -3]), size=shape)
    else:
        if t.kind == "f":
            v = rng.choice(np.array([-3, -2, -1, 1, 2, 3, 5, 6, 7]), size=shape) / 4.0
        elif t.kind == "c":
            v = rng.choice(np.array([-3, -2, -1, 1, 2, 3]), size=shape) + 1j * rng.choice(np.array([-2, -1, 1, 2]), size=shape)
        elif t.kind == "b":
            v = rng.integers(0, 2, size=shape)
        elif t.kind == "u":
            v = rng.integers(1, 6, size=shape)
        else:
            v = rng.choice(np.array([-3, -2, -1, 1, 2, 3, 4]), size=shape)
    return np.asarray(v).astype(t)


def masked_input(case):
    shape = tuple(case["shape"])
    v = mdata(shape, case.get("dtype", "i8"), case.get("dseed", 0), case.get("func", "cumsum"))
    cells = case.get("masked")
    if cells is None:
        return np.ma.masked_array(v)  # nomask
    m = np.zeros(shape, dtype=bool)
    for idx in cells:
        m[tuple(idx)] = True
    return np.ma.masked_array(v, mask=m)


def _tt(chunks):
    return tuple(tuple(int(c) for c in cs) for cs in chunks)


def _brief(a):
    if isinstance(a, np.ma.MaskedArray):
        return {"data": _brief(np.ma.getdata(a)), "mask": np.ma.getmaskarray(a).astype(int).tolist() if a.size <= 64 else "…"}
    a = np.asarray(a)
    if a.dtype.kind == "c":
        a = a.astype(str)
    return a.tolist() if a.size <= 64 else {"shape": list(a.shape), "head": a.ravel()[:16].tolist()}


def cmp_masked(got, want):
    """None when equal as masked arrays (class, shape, mask, unmasked values, dtype), else a reason."""
    if isinstance(want, np.ma.MaskedArray) != isinstance(got, np.ma.MaskedArray):
        return "class", f"{type(got).__name__} instead of {type(want).__name__}"
    if np.shape(got) != np.shape(want):
        return "values", f"shape {np.shape(got)} != {np.shape(want)}"
    gm, wm = np.ma.getmaskarray(got), np.ma.getmaskarray(want)
    if not np.array_equal(gm, wm):
        return "mask", "mask differs"
    g = np.where(wm, 0, np.ma.getdata(got))
    w = np.where(wm, 0, np.ma.getdata(want))
    if not np.array_equal(g, w, equal_nan=True):
        return "values", "unmasked values differ"
    if np.asarray(got).dtype != np.asarray(want).dtype:
        return "dtype", f"dtype {np.asarray(got).dtype} instead of {np.asarray(want).dtype}"
    return None


def check(ctx, case):
    """One "mcum" / "mwin" case on the real code."""
    import dask_array as da

    kind = case["kind"]
    chunks = _tt(case["chunks"])
    sig = kind
    phase = "oracle"
    try:
        with warnings.catch_warnings():
            warnings.simplefilter("ignore")
            a = masked_input(case)
            if kind == "mcum":
                fn, method, ax = case["func"], case["method"], case["axis"]
                sig = f"cum-masked:{fn}:{method}"
                kw = {} if case.get("out_dtype") is None else {"dtype": np.dtype(DT[case["out_dtype"]])}
                want = getattr(np, fn)(a, axis=ax, **kw)
                phase = "impl"
                r = getattr(da, fn)(da.from_array(a, chunks=chunks), axis=ax, method=method, **kw)
                if case.get("index") is not None:
                    idx = tuple(slice(*i) for i in case["index"])
                    r, want = r[idx], want[idx]
                adv = r.dtype
                got = r.compute()
                if cmp_masked(got, want) is None and adv != np.asarray(want).dtype:
                    ctx.fail(sig + ":dtype", dict(case, advertised=str(adv), numpy=str(np.asarray(want).dtype)), "advertised dtype differs from NumPy's")
                    return "bad"
            elif kind == "mwin":
                op = case["op"]
                sig = f"masked:{op}"
                ax = case.get("axis", 0)
                d = da.from_array(a, chunks=chunks)
                if op == "diff":
                    want = np.diff(a, n=case["n"], axis=ax)
                    phase = "impl"
                    got = da.diff(d, n=case["n"], axis=ax).compute()
                elif op == "swv":
                    red = case.get("reducer")
                    v = SWV(a, case["window"], axis=ax)
                    want = v if red is None else getattr(np, red)(v, axis=-1)
                    phase = "impl"
                    r = da.sliding_window_view(d, case["window"], axis=ax)
                    got = (r if red is None else getattr(da, red)(r, axis=-1)).compute()
                elif op == "roll":
                    dep = int(case["depth"])
                    want = a + np.roll(a, dep, axis=ax) + 2 * np.roll(a, -dep, axis=ax)
                    phase = "impl"
                    got = da.map_overlap(_roll_block, d, depth={ax: dep}, boundary={ax: "periodic"}, dep=dep, ax=ax).compute()
                else:
                    raise KeyError(op)
            else:
                raise KeyError(kind)
    except Exception as e:  # noqa: BLE001
        if phase == "oracle":
            return "oracle-rejects"
        ctx.fail(sig + ":raises", dict(case, error=f"{type(e).__name__}: {str(e)[:300]}"), "the operation raises on a valid input instead of computing the NumPy result")
        return "raised"
    bad = cmp_masked(got, want)
    if bad is not None:
        why, text = bad
        ctx.fail(sig if why in ("values", "mask") else f"{sig}:{why}", dict(case, got=_brief(got), want=_brief(want), why=text),
                 "result differs from the NumPy definition on the masked array")
        return "bad"
    return "ok"


def _roll_block(b, dep=1, ax=0):
    return b + np.roll(b, dep, axis=ax) + 2 * np.roll(b, -dep, axis=ax)


# =========================================================================== cell patterns relative to the blocks


PATTERNS = ["block-last", "block-first", "whole-block", "whole-block-all-lines", "last+whole", "inside", "random", "prefix", "all", "edges-both"]


def edge_cells(rng, shape, chunks, axis, pattern):
    """Cells (index lists) placed relative to the block structure along `axis` (None: 1-D structure of axis 0)."""
    ax = 0 if axis is None else axis % len(shape)
    cks = [c for c in chunks[ax]]
    offs = np.cumsum([0] + cks).tolist()
    nb = len(cks)
    others = [range(s) for j, s in enumerate(shape) if j != ax]
    lines = list(itertools.product(*others))
    if not lines or shape[ax] == 0:
        return []

    def some_lines(p=0.5):
        sel = [ln for ln in lines if rng.random() < p]
        return sel or [rng.choice(lines)]

    def cell(ln, i):
        c = list(ln)
        c.insert(ax, int(i))
        return c

    out = []
    nonfinal = [j for j in range(nb - 1) if cks[j] > 0]
    nonfirst = [j for j in range(1, nb) if cks[j] > 0]
    nonempty = [j for j in range(nb) if cks[j] > 0]
    if pattern in ("block-last", "last+whole", "edges-both"):
        for j in (nonfinal or nonempty):
            if rng.random() < 0.75:
                out += [cell(ln, offs[j + 1] - 1) for ln in some_lines()]
    if pattern in ("block-first", "edges-both"):
        for j in (nonfirst or nonempty):
            if rng.random() < 0.75:
                out += [cell(ln, offs[j]) for ln in some_lines()]
    if pattern in ("whole-block", "last+whole", "whole-block-all-lines"):
        for j in rng.sample(nonempty, max(1, min(len(nonempty), rng.choice([1, 1, 2])))):
            lns = lines if pattern == "whole-block-all-lines" else some_lines()
            out += [cell(ln, i) for ln in lns for i in range(offs[j], offs[j + 1])]
    if pattern == "inside":
        for j in nonempty:
            if cks[j] >= 3:
                out += [cell(ln, rng.randint(offs[j] + 1, offs[j + 1] - 2)) for ln in some_lines()]
    if pattern == "random":
        out += [cell(ln, i) for ln in lines for i in range(shape[ax]) if rng.random() < 0.35]
    if pattern == "prefix":
        for ln in some_lines(0.7):
            out += [cell(ln, i) for i in range(rng.randint(1, shape[ax]))]
    if pattern == "all":
        out += [cell(ln, i) for ln in lines for i in range(shape[ax])]
    seen = set()
    uniq = []
    for c in out:
        if tuple(c) not in seen:
            seen.add(tuple(c))
            uniq.append(c)
    return sorted(uniq)


def _safe_grad_chunks(rng, s, eo):
    parts = []
    left = s
    while left > 0:
        c = rng.randint(eo + 1, max(eo + 1, min(left, 5)))
        if left - c < eo + 1 and left - c != 0:
            c = left
        parts.append(c)
        left -= c
    return parts


def cases(ctx, k0):
    """Yield (case, key) for every stream of this module."""
    from harness import gen

    rng = ctx.rng
    k = k0
    thorough = ctx.tier == "thorough"

    # ---- M1 masked scans, exhaustive: every chunking × every mask of n ≤ 4 (5 thorough), both functions and methods
    for n in range(1, (5 if thorough else 4) + 1):
        for cks in gen.compositions(n):
            for bits in range(1 << n):
                k += 1
                cells = [[i] for i in range(n) if bits >> i & 1]
                for fn in ("cumsum", "cumprod"):
                    for method in ("sequential", "blelloch"):
                        if not thorough and n == 4 and (k + (fn == "cumprod") + 2 * (method == "blelloch")) % 2:
                            continue
                        case = {"kind": "mcum", "func": fn, "method": method, "shape": [n], "chunks": [list(cks)], "axis": 0,
                                "dtype": "i8", "dseed": k, "masked": cells, "pattern": "exhaustive"}
                        yield case, ("ex", fn, method, len(cks), bool(cells), len(cells) == n)
    # ---- M2 masked scans, patterns at block edges: 1-D..3-D, all dtypes, dtype=, axis=None, slices of later blocks
    DTS = ["i8", "i8", "f8", "f8", "i4", "i2", "u1", "u8", "f4", "f2", "c16", "bool"]
    for _ in range(ctx.scale(420, 2500)):
        k += 1
        nd = rng.choice([1, 1, 2, 2, 3])
        shape = [rng.randint(2, 10 if nd == 1 else 7 if nd == 2 else 4) for _ in range(nd)]
        ax = rng.randrange(-nd, nd)
        flat = rng.random() < 0.12
        # (zero-length blocks only where no flatten is involved: reshape of such chunkings belongs to the reshape property)
        chunks = [list(gen.rand_chunks(rng, s, zeros=0.08 if j == ax % nd and not (flat and nd > 1) else 0.0, maxparts=6)) for j, s in enumerate(shape)]
        fn = rng.choice(["cumsum", "cumprod"])
        dt = rng.choice(DTS)
        if fn == "cumprod" and dt in ("f2", "u1", "i2"):
            dt = "i8"
        odt = None
        if rng.random() < 0.35:
            odt = rng.choice(["c16"] if dt == "c16" else ["f8", "i8", "f4", "i4", "c16", "u8"] if dt != "bool" else ["i8", "f8"])
            if fn == "cumprod" and odt == "f4" and dt in ("i8", "i4"):
                odt = "f8"
            if odt.startswith("u") and np.dtype(DT[dt]).kind in "ifc":
                odt = "i8"
        axis = None if flat else ax
        pattern = rng.choice(PATTERNS) if axis is None and nd > 1 else rng.choice(PATTERNS + ["block-last", "whole-block", "whole-block-all-lines"])
        if axis is None and nd > 1:
            pattern = rng.choice(["random", "all", "prefix"])
        cells = edge_cells(rng, shape, chunks, ax if axis is None else axis, pattern) if rng.random() > 0.04 else None
        case = {"kind": "mcum", "func": fn, "method": rng.choice(["sequential", "blelloch"]), "shape": shape, "chunks": chunks,
                "axis": axis, "dtype": dt, "out_dtype": odt, "dseed": k, "masked": cells, "pattern": pattern}
        if rng.random() < 0.2 and axis is not None:
            a_ = ax % nd
            lo = rng.randint(0, shape[a_] - 1)
            case["index"] = [[None, None] if j != a_ else [lo, None] for j in range(nd)]
        yield case, ("pat", fn, case["method"], pattern if cells is not None else "nomask", dt, odt, nd, axis is None, "index" in case)
    # ---- M3 masked arrays through diff / sliding windows / a periodic stencil
    for _ in range(ctx.scale(40, 300)):
        k += 1
        nd = rng.choice([1, 2])
        shape = [rng.randint(3, 9) for _ in range(nd)]
        ax = rng.randrange(nd)
        chunks = [list(gen.rand_chunks(rng, s, maxparts=5)) for s in shape]
        op = rng.choice(["diff", "swv", "swv", "roll"])
        cells = edge_cells(rng, shape, chunks, ax, rng.choice(PATTERNS))
        case = {"kind": "mwin", "op": op, "shape": shape, "chunks": chunks, "axis": ax, "dtype": rng.choice(["i8", "f8"]), "dseed": k,
                "masked": cells, "func": "cumsum"}
        if op == "diff":
            case["n"] = rng.choice([1, 1, 2])
        elif op == "swv":
            case["window"] = rng.randint(1, min(4, shape[ax]))
            case["reducer"] = rng.choice([None, "sum", "max", "min"])
        else:
            case["depth"] = rng.randint(1, min(2, shape[ax]))
        yield case, ("mwin", op, case.get("reducer"), nd)

    # ---- E1 NaN cells at block edges / whole NaN blocks: nan-scans, forward fill, plain scans
    for _ in range(ctx.scale(260, 2000)):
        k += 1
        nd = rng.choice([1, 1, 2])
        shape = [rng.randint(2, 10 if nd == 1 else 6) for _ in range(nd)]
        ax = rng.randrange(-nd, nd)
        chunks = [list(gen.rand_chunks(rng, s, maxparts=6)) for s in shape]
        fn = rng.choice(["nancumsum", "nancumprod", "ffill", "nancumsum", "cumsum", "cumprod"])
        pattern = rng.choice(PATTERNS)
        case = {"kind": "cum", "func": fn, "method": rng.choice(["sequential", "blelloch"]), "shape": shape, "chunks": chunks, "axis": ax,
                "dtype": "float", "nan": 0.0, "dseed": k, "nan_cells": edge_cells(rng, shape, chunks, ax, pattern), "pattern": pattern}
        if fn in ("nancumsum", "nancumprod") and nd == 1 and rng.random() < 0.15:
            case["axis"] = None
        yield case, ("nan-edge", fn, case["method"], pattern, nd)
    # ---- E2 NaN cells at block edges under moving windows (min_count) and nan-reducers over sliding windows
    MOVES = ["move_sum", "move_mean", "move_min", "move_max"]
    for _ in range(ctx.scale(160, 1200)):
        k += 1
        nd = rng.choice([1, 2])
        shape = [rng.randint(3, 12 if nd == 1 else 7) for _ in range(nd)]
        ax = rng.randrange(nd)
        chunks = [list(gen.rand_chunks(rng, s, maxparts=6)) for s in shape]
        pattern = rng.choice(PATTERNS)
        cells = edge_cells(rng, shape, chunks, ax, pattern)
        n = shape[ax]
        w = rng.choice([1, 2, 3, rng.randint(1, n), min(n, max(chunks[ax]) + 1)])
        if rng.random() < 0.5:
            mc = rng.choice([None, 1, max(1, w // 2), w])
            case = {"kind": "move", "shape": shape, "chunks": chunks, "window": w, "min_count": mc, "axis": ax, "func": rng.choice(MOVES),
                    "dtype": "float", "nan": 0.0, "dseed": k, "nan_cells": cells, "pattern": pattern}
            yield case, ("nan-edge-move", case["func"], mc is None, pattern)
        else:
            red = rng.choice(["nansum", "nanmax", "nanmin", "nanmean", "nanprod", "sum", "max"])
            case = {"kind": "swv", "shape": shape, "chunks": chunks, "window": [w], "axis": [ax], "reducer": red, "dtype": "float", "nan": 0.0,
                    "dseed": k, "nan_cells": cells, "pattern": pattern, "keepdims": rng.random() < 0.15}
            if rng.random() < 0.3:
                case["automatic_rechunk"] = False
                if rng.random() < 0.4:
                    case["reducer"] = None
            yield case, ("nan-edge-swv", red, pattern, case.get("automatic_rechunk", True))
    # ---- E3 forward fill with a limit (da.push vs bottleneck.push), NaN runs across block edges
    for _ in range(ctx.scale(200, 1500)):
        k += 1
        nd = rng.choice([1, 1, 2])
        shape = [rng.randint(1, 12 if nd == 1 else 7) for _ in range(nd)]
        ax = rng.randrange(nd)
        chunks = [list(gen.rand_chunks(rng, s, maxparts=6)) for s in shape]
        pattern = rng.choice(PATTERNS)
        n_ = rng.choice([None, 1, 1, 2, 3, shape[ax] - 2, shape[ax] - 1, shape[ax], shape[ax] + 3])
        if n_ is not None and n_ < 1:
            n_ = 1
        case = {"kind": "push", "shape": shape, "chunks": chunks, "n": n_, "axis": ax, "dtype": "float", "nan": rng.choice([0.0, 0.3, 0.6]), "dseed": k,
                "nan_cells": edge_cells(rng, shape, chunks, ax, pattern), "pattern": pattern}
        if rng.random() < 0.2:
            lo = rng.randint(0, shape[ax] - 1)
            case["index"] = [[None, None] if j != ax else [lo, None] for j in range(nd)]
        yield case, ("push", n_ is None, n_ is not None and 0 < n_ < shape[ax] - 1, pattern, nd, "index" in case)
    # fixed probes: negative axis with a limit, limit 0
    for n_, ax in ((1, -1), (2, -2), (0, 1), (0, 0), (None, -1), (9, -1)):
        k += 1
        yield ({"kind": "push", "shape": [3, 6], "chunks": [[2, 1], [2, 1, 3]], "n": n_, "axis": ax, "dtype": "float", "nan": 0.5, "dseed": k},
               ("push-probe", n_, ax))

    # ---- D1 explicit dtype= (narrowing, widening, kind-changing) × data dtype × method, every block in that dtype
    # (regressions f550dfc, 4523b6f: blelloch with a narrowing / kind-changing dtype=)
    fixed = [
        {"kind": "cum", "func": "cumsum", "method": "blelloch", "shape": [9], "chunks": [[3, 3, 3]], "axis": 0, "dtype": "float", "dseed": 1,
         "np_dtype": "f8", "out_dtype": "f4", "index": [[3, None]]},
        {"kind": "cum", "func": "cumsum", "method": "blelloch", "shape": [7], "chunks": [[3, 2, 2]], "axis": 0, "dtype": "float", "dseed": 2,
         "np_dtype": "f8", "out_dtype": "i8"},
        {"kind": "cum", "func": "cumsum", "method": "sequential", "shape": [7], "chunks": [[3, 2, 2]], "axis": 0, "dtype": "float", "dseed": 2,
         "np_dtype": "f8", "out_dtype": "i8"},
        {"kind": "cum", "func": "cumprod", "method": "blelloch", "shape": [8], "chunks": [[2, 3, 3]], "axis": 0, "dtype": "float", "dseed": 3,
         "np_dtype": "f8", "out_dtype": "i4", "index": [[2, None]]},
    ]
    for case in fixed:
        yield case, ("dtype-regression", case["func"], case["method"], case["out_dtype"])
    for _ in range(ctx.scale(240, 2000)):
        k += 1
        nd = rng.choice([1, 1, 2])
        shape = [rng.randint(2, 12 if nd == 1 else 6) for _ in range(nd)]
        ax = rng.randrange(-nd, nd)
        chunks = [list(gen.rand_chunks(rng, s, maxparts=6)) for s in shape]
        fn = rng.choice(["cumsum", "cumsum", "cumprod", "nancumsum", "nancumprod"])
        base = rng.choice(["int", "float", "float"])
        npdt = rng.choice(["i8", "i4", "i2", "u1"] if base == "int" else ["f8", "f8", "f4"])
        odt = rng.choice(["f4", "f8", "i8", "i4", "i2", "u8", "c16"] if base == "int" else ["f4", "f8", "i8", "i4", "c16", "f2"])
        if fn.endswith("prod") and odt in ("f2", "i2", "u1"):
            odt = "i8"
        if fn.startswith("nan") and odt in ("c16",):
            odt = "f8"
        case = {"kind": "cum", "func": fn, "method": rng.choice(["sequential", "blelloch", "blelloch"]), "shape": shape, "chunks": chunks,
                "axis": ax, "dtype": base, "nan": 0.0, "dseed": k, "np_dtype": npdt, "out_dtype": odt if rng.random() < 0.85 else None}
        if fn.startswith("nan") and base == "float":
            case["nan_cells"] = edge_cells(rng, shape, chunks, ax, rng.choice(PATTERNS))
        if fn.endswith("prod"):
            case["prodsafe"] = True
        if rng.random() < 0.4:
            a_ = ax % nd
            lo = rng.randint(0, shape[a_] - 1)
            case["index"] = [[None, None] if j != a_ else [lo, rng.choice([None, None, rng.randint(lo + 1, shape[a_])])] for j in range(nd)]
        yield case, ("dtype", fn, case["method"], npdt, case["out_dtype"], "index" in case)

    # ---- P1 diff with prepend= / append=, diff / gradient followed by a slice
    for _ in range(ctx.scale(160, 1200)):
        k += 1
        nd = rng.choice([1, 2])
        shape = [rng.randint(1, 9) for _ in range(nd)]
        ax = rng.randrange(-nd, nd)
        chunks = [list(gen.rand_chunks(rng, s, maxparts=5)) for s in shape]
        case = {"kind": "diff", "shape": shape, "chunks": chunks, "n": rng.choice([1, 1, 2, 3]), "axis": ax, "dtype": rng.choice(["int", "float"]), "dseed": k}
        for kw in ("prepend", "append"):
            r_ = rng.random()
            if r_ < 0.3:
                case[kw] = rng.randint(-3, 3)
            elif r_ < 0.55:
                case[kw] = {"arr": rng.randint(1, 3)}
        if rng.random() < 0.4:
            idx = []
            for s in shape:
                lo = rng.randint(0, max(0, s - 1))
                idx.append([lo, rng.choice([None, rng.randint(lo, s)])] if rng.random() < 0.7 else [None, None])
            case["index"] = idx
        yield case, ("diff+", case["n"], "prepend" in case, "append" in case, "index" in case, nd)
    # gradient with a coordinate array (and scalar spacing) followed by every kind of slice along the axis:
    # exhaustive over start/stop for small 1-D arrays, random 2-D (regression 99e96e5)
    for n, cks in ((10, [5, 5]), (12, [3, 4, 5]), (9, [2, 2, 2, 3])):
        for eo in (1, 2):
            if min(cks) < eo + 1:
                continue
            pairs = [(a, b) for a in range(n) for b in range(a + 1, n + 1)]
            if not thorough:
                pairs = rng.sample(pairs, 14) + [(n // 2, n), (1, 3)]
            for a, b in pairs:
                k += 1
                yield ({"kind": "gradient", "shape": [n], "chunks": [cks], "axis": 0, "edge_order": eo, "spacing": "coords", "dtype": "float",
                        "dseed": k, "index": [[a, b]]}, ("grad-slice", eo, "ex"))
    for _ in range(ctx.scale(120, 1000)):
        k += 1
        nd = rng.choice([1, 2, 2])
        eo = rng.choice([1, 2])
        shape = [rng.randint(eo + 2, 12) for _ in range(nd)]
        ax = rng.randrange(nd)
        chunks = [_safe_grad_chunks(rng, s, eo) if j == ax else list(gen.rand_chunks(rng, s, maxparts=4)) for j, s in enumerate(shape)]
        idx = []
        for j, s in enumerate(shape):
            if j == ax or rng.random() < 0.4:
                lo = rng.randint(0, s - 1)
                idx.append([lo, rng.choice([None, rng.randint(lo + 1, s), rng.randint(lo + 1, s)])])
            else:
                idx.append([None, None])
        case = {"kind": "gradient", "shape": shape, "chunks": chunks, "axis": ax, "edge_order": eo, "spacing": rng.choice(["coords", "coords", 0.5]),
                "dtype": rng.choice(["int", "float"]), "dseed": k, "index": idx}
        yield case, ("grad-slice", eo, case["spacing"] == "coords", nd)
    # scans followed by a slice (later blocks only, single cells, empty tails)
    for _ in range(ctx.scale(120, 1000)):
        k += 1
        nd = rng.choice([1, 2])
        shape = [rng.randint(1, 9) for _ in range(nd)]
        ax = rng.randrange(-nd, nd)
        chunks = [list(gen.rand_chunks(rng, s, maxparts=5)) for s in shape]
        fn = rng.choice(["cumsum", "cumprod", "nancumsum", "ffill"])
        isf = fn in ("nancumsum", "ffill")
        idx = []
        for s in shape:
            lo = rng.randint(0, s - 1)
            idx.append([lo, rng.choice([None, rng.randint(lo, s)])] if rng.random() < 0.8 else [None, None])
        case = {"kind": "cum", "func": fn, "method": rng.choice(["sequential", "blelloch"]), "shape": shape, "chunks": chunks, "axis": ax,
                "dtype": "float" if isf else "int", "nan": 0.3 if isf else 0.0, "dseed": k, "index": idx}
        yield case, ("cum-slice", fn, case["method"], nd)
