"""C27 extension — class-coverage catalog for the transfer-estimate node search.

The C27 node search walks expression trees and judges `transfer_bytes` of every node.  Random
`from_array + <= 5 ops` programs reach only the classes their op list can produce; this module adds

  * `defining_classes()` / `arrayexpr_subclasses()`: on every run, the classes of the package that
    DEFINE `transfer_bytes` (AST scan of the source tree under harness.core.REPO) and all ArrayExpr
    subclasses (after importing every module), so that the check reports which were reached;
  * `CATALOG`: named families `name -> (gen(rng) -> params, build(da, params) -> Array | [Array, ...])`
    with JSON-serialisable params: rechunks with non-default method (kwarg and config), thresholds,
    block-size limits, balance, over layouts LARGE enough that plan_rechunk emits several heavy stages
    (metadata only, nothing is computed); shuffle / take / fancy indexing; overlap and map_overlap with
    every boundary kind; reshape / reshape_blockwise / ravel; store; from_delayed / from_map /
    from_npy_stack / from_graph (persisted-like) sources; creation routines; random; linalg; routines;
  * `CONFIGS`: configuration contexts under which both construction and lowering are done
    (array.rechunk.method = tasks / p2p, small degree-limit / threshold / chunk-size).

Nothing here knows about any particular defect: the oracle stays C27.check_node.
"""
from __future__ import annotations

import ast
import importlib
import os
import pkgutil
import tempfile
from pathlib import Path

import numpy as np

from harness import gen


# ------------------------------------------------------------------ enumeration from the source

def defining_classes():
    """{class name: relative file} for every class in the package source that defines `transfer_bytes`."""
    from harness.core import REPO

    root = Path(REPO) / "dask_array"
    out = {}
    for p in sorted(root.rglob("*.py")):
        if "tests" in p.parts:
            continue
        try:
            tree = ast.parse(p.read_text())
        except SyntaxError:
            continue
        for n in ast.walk(tree):
            if isinstance(n, ast.ClassDef):
                for b in n.body:
                    if isinstance(b, (ast.FunctionDef, ast.AsyncFunctionDef)) and b.name == "transfer_bytes":
                        out[n.name] = str(p.relative_to(root))
                    elif isinstance(b, (ast.Assign, ast.AnnAssign)):
                        tg = b.targets if isinstance(b, ast.Assign) else [b.target]
                        if any(isinstance(t, ast.Name) and t.id == "transfer_bytes" for t in tg):
                            out[n.name] = str(p.relative_to(root))
    return out


def arrayexpr_subclasses():
    """All ArrayExpr subclasses after importing every importable module of the package."""
    import dask_array
    from dask_array._expr import ArrayExpr

    for m in pkgutil.walk_packages(dask_array.__path__, "dask_array."):
        if ".tests" in m.name or "._frisky" in m.name or m.name.endswith("conftest"):
            continue
        try:
            importlib.import_module(m.name)
        except Exception:  # noqa: BLE001 - optional dependencies
            pass

    def subs(c):
        out = set()
        for s in c.__subclasses__():
            out.add(s)
            out |= subs(s)
        return out

    return {c for c in subs(ArrayExpr) if c.__module__.startswith("dask_array.") and ".tests" not in c.__module__}


def definer_of(cls):
    for k in cls.__mro__:
        if "transfer_bytes" in k.__dict__:
            return k.__name__
    return None


# ------------------------------------------------------------------ configs

CONFIGS = [
    {},
    {},
    {"array.rechunk.method": "p2p"},
    {"array.rechunk.method": "tasks"},
    {"array.rechunk.method": "p2p", "array.rechunk.degree-limit": 4},
    {"array.rechunk.degree-limit": 3, "array.rechunk.threshold": 1},
    {"array.rechunk.method": "p2p", "array.rechunk.threshold": 1, "array.chunk-size": "1KiB"},
    {"array.chunk-size": "64KiB"},
]


def rand_config(rng):
    return dict(rng.choice(CONFIGS))


# ------------------------------------------------------------------ helpers

DTYPES = ["f8", "f4", "i8", "i2", "u1", "c16"]


def _src(da, kind, shape, chunks, dtype, big_ok=False):
    """A metadata-only source of the given shape/chunks (no large allocation).  An in-memory source
    (from_array) is only used below 10**5 elements unless `big_ok` (rechunk never touches the data, but slicing /
    fancy indexing is pushed into the NumPy array eagerly at construction)."""
    shape = tuple(shape)
    chunks = _chunks(chunks)
    if kind == "from_array" and not big_ok and int(np.prod(shape, dtype=object)) > 10**5:
        kind = "zeros"
    if kind == "ones":
        return da.ones(shape, chunks=chunks, dtype=dtype)
    if kind == "zeros":
        return da.zeros(shape, chunks=chunks, dtype=dtype)
    if kind == "full":
        return da.full(shape, 3, chunks=chunks, dtype=dtype)
    if kind == "empty":
        return da.empty(shape, chunks=chunks, dtype=dtype)
    if kind == "random":
        return da.random.random(shape, chunks=chunks).astype(dtype)
    if kind == "from_array":
        # a broadcast view: no memory behind it
        return da.from_array(np.broadcast_to(np.zeros((), dtype=dtype), shape), chunks=chunks)
    if kind == "from_map":
        return _from_map(da, shape, chunks, dtype)
    if kind == "elemwise":
        return da.ones(shape, chunks=chunks, dtype=dtype) + da.zeros(shape, chunks=chunks, dtype=dtype)
    raise KeyError(kind)


SRC_KINDS = ["ones", "zeros", "full", "empty", "random", "from_array", "from_map", "elemwise"]


def _chunks(c):
    """JSON chunks -> tuple form: int | list of (int | list of ints)."""
    if isinstance(c, (int, str)):
        return c
    return tuple(tuple(int(v) for v in d) if isinstance(d, (list, tuple)) else d for d in c)


def _blockfn(*a, **k):
    raise RuntimeError("never computed")


def _from_map(da, shape, chunks, dtype):
    from dask_array._core_utils import normalize_chunks  # noqa: F401
    import itertools

    nc = da.normalize_chunks(chunks, shape, dtype=dtype)
    nblocks = 1
    for c in nc:
        nblocks *= len(c)
    if nblocks > 20000:
        return da.ones(shape, chunks=chunks, dtype=dtype)
    idx = list(itertools.product(*(range(len(c)) for c in nc)))
    return da.from_map(_blockfn, idx, chunks=nc, dtype=dtype) if _from_map_sig_ok(da) else da.ones(shape, chunks=chunks, dtype=dtype)


_FM_OK = None


def _from_map_sig_ok(da):
    global _FM_OK
    if _FM_OK is None:
        try:
            da.from_map(_blockfn, [(0,), (1,)], chunks=((2, 2),), dtype="f8").chunks
            _FM_OK = True
        except Exception:  # noqa: BLE001
            _FM_OK = False
    return _FM_OK


def _uniform_or_list(rng, n, kinds=("fine", "full", "mid", "rand", "two")):
    """A layout of an axis of length n, JSON form: an int chunk size or an explicit list."""
    k = rng.choice(kinds)
    if k == "fine":
        return rng.choice([1, 1, 2, 3, 5])
    if k == "full":
        return n
    if k == "mid":
        return max(1, rng.choice([n // 2, n // 3, n // 7, 10, 37]))
    if k == "two":
        a = rng.randint(0, n)
        return [a, n - a] if 0 < a < n else n
    return list(gen.rand_chunks(rng, n, maxparts=8))


def _nb(n, c):
    return len(c) if isinstance(c, (list, tuple)) else -(-n // max(1, c))


def _cap_blocks(shape, chunks, limit=3000):
    """Coarsen the finest uniform axes until the layout has at most `limit` blocks (construction cost of the
    non-rechunk families grows with the number of blocks; the estimates themselves are metadata only)."""
    chunks = list(chunks)
    for _ in range(64):
        nbs = [_nb(n, c) for n, c in zip(shape, chunks)]
        tot = 1
        for k in nbs:
            tot *= k
        if tot <= limit:
            break
        ax = max(range(len(shape)), key=lambda i: nbs[i])
        n = shape[ax]
        cur = chunks[ax] if isinstance(chunks[ax], int) else max(1, n // nbs[ax])
        chunks[ax] = min(n, max(cur * 2, cur + 1))
    return chunks


# ------------------------------------------------------------------ families: rechunk

BIG = [60, 100, 256, 400, 600, 900, 1000, 1500, 2000]


def g_rechunk_big(rng, variant=None):
    nd = rng.choice([1, 2, 2, 2, 3])
    v_pattern, v_method = (variant.split("/") if variant else (None, None))
    if v_pattern == "transpose" and nd == 1:
        nd = 2
    if nd == 3:
        shape = [rng.choice([20, 50, 100, 200]) for _ in range(3)]
    else:
        shape = [rng.choice(BIG) for _ in range(nd)]
    pattern = rng.choice(["transpose", "transpose", "transpose", "free", "merge", "split"])
    if v_pattern:
        pattern = v_pattern
    old, new = [], []
    if pattern == "transpose" and nd >= 2:
        c0, c1 = rng.choice([1, 1, 1, 2, 4, 5]), rng.choice([1, 1, 1, 2, 4, 5])
        a, b = rng.sample(range(nd), 2)
        for ax in range(nd):
            if ax == a:
                old.append(shape[ax]); new.append(c1)
            elif ax == b:
                old.append(c0); new.append(shape[ax])
            else:
                c = rng.choice([shape[ax], 10, 1])
                old.append(c); new.append(c)
    elif pattern == "merge":
        for ax in range(nd):
            old.append(rng.choice([1, 2, 3])); new.append(rng.choice([shape[ax], shape[ax] // 2 or 1]))
    elif pattern == "split":
        for ax in range(nd):
            old.append(rng.choice([shape[ax], shape[ax] // 2 or 1])); new.append(rng.choice([1, 2, 3]))
    else:
        for ax in range(nd):
            old.append(_uniform_or_list(rng, shape[ax])); new.append(_uniform_or_list(rng, shape[ax]))
    old, new = _cap_blocks(shape, old, 250000), _cap_blocks(shape, new, 250000)
    method = rng.choice([None, "tasks", "p2p", "p2p"])
    if v_method:
        method = None if v_method == "none" else v_method
    nb_old = 1
    for n, c in zip(shape, old):
        nb_old *= _nb(n, c)
    src = rng.choice(SRC_KINDS)
    if nb_old > 4000 and src in ("random", "from_map"):  # per-block seeds / per-block index lists at construction
        src = "ones"
    return {
        "shape": shape, "old": old, "new": new, "dtype": rng.choice(DTYPES), "src": src,
        "method": method,
        "threshold": rng.choice([None, None, 1, 4, 1000]),
        "block_size_limit": rng.choice([None, None, 1000, 10**5, 10**9]),
        "balance": rng.random() < 0.15,
        "post": rng.choice([None, None, "add", "sum", "slice", "rechunk_back", "transpose"]),
        "form": rng.choice(["method", "method", "function", "dict"]),
    }


def b_rechunk_big(da, p):
    x = _src(da, p["src"], p["shape"], p["old"], p["dtype"], big_ok=p["post"] != "slice")
    new = _chunks(p["new"])
    kw = {"threshold": p["threshold"], "block_size_limit": p["block_size_limit"], "balance": p["balance"], "method": p["method"]}
    if p["form"] == "function":
        y = da.rechunk(x, new, **kw)
    elif p["form"] == "dict":
        y = x.rechunk(dict(enumerate(new)), **kw)
    else:
        y = x.rechunk(new, **kw)
    post = p["post"]
    if post == "add":
        y = y + 1
    elif post == "sum":
        y = y.sum(axis=0)
    elif post == "slice":
        y = y[tuple(slice(1, None) for _ in range(y.ndim))]
    elif post == "rechunk_back":
        y = y.rechunk(x.chunks, method=p["method"])
    elif post == "transpose":
        y = y.T
    return y


def g_rechunk_chain(rng, variant=None):
    """Several rechunks in a row with different methods (Rechunk(Rechunk) fusion declines on p2p)."""
    n = rng.choice([64, 120, 240, 600])
    m = rng.choice([64, 120, 240, 600])
    lays = [[_uniform_or_list(rng, n), _uniform_or_list(rng, m)] for _ in range(rng.randint(2, 4))]
    return {"shape": [n, m], "lays": lays, "methods": [rng.choice([None, "tasks", "p2p"]) for _ in lays[1:]],
            "dtype": rng.choice(DTYPES), "between": rng.choice([None, "add", "astype"])}


def b_rechunk_chain(da, p):
    x = _src(da, "ones", p["shape"], p["lays"][0], p["dtype"])
    for lay, m in zip(p["lays"][1:], p["methods"]):
        x = x.rechunk(_chunks(lay), method=m)
        if p["between"] == "add":
            x = x + 1
        elif p["between"] == "astype":
            x = x.astype("f4")
    return x


def g_rechunk_auto(rng, variant=None):
    nd = rng.choice([1, 2, 3])
    shape = [rng.choice([100, 500, 2000, 5000]) for _ in range(nd)]
    old = [_uniform_or_list(rng, s, kinds=("full", "mid", "two", "rand")) for s in shape]
    spec = [rng.choice(["auto", -1, None, rng.choice([7, 50, 100])]) for _ in shape]
    return {"shape": shape, "old": old, "spec": spec, "dtype": rng.choice(DTYPES), "method": rng.choice([None, "p2p", "tasks"]),
            "bsl": rng.choice([None, 10**4, 10**6])}


def b_rechunk_auto(da, p):
    x = _src(da, "zeros", p["shape"], p["old"], p["dtype"])
    return x.rechunk(tuple(p["spec"]), method=p["method"], block_size_limit=p["bsl"])


# ------------------------------------------------------------------ families: shuffle / take / fancy

def g_shuffle(rng, variant=None):
    nd = rng.choice([1, 2, 2, 3])
    shape = [rng.choice([6, 12, 40, 100, 400]) for _ in range(nd)]
    chunks = [_uniform_or_list(rng, s, kinds=("fine", "mid", "two", "rand", "full")) for s in shape]
    chunks = _cap_blocks(shape, chunks, 1500)
    axis = rng.randrange(nd)
    n = shape[axis]
    perm = list(range(n))
    mode = rng.choice(["perm", "sorted", "dups", "subset", "reverse"])
    if mode == "perm":
        rng.shuffle(perm)
    elif mode == "dups":
        perm = [rng.randrange(n) for _ in range(rng.randint(1, 2 * n))]
    elif mode == "subset":
        perm = sorted(rng.sample(range(n), rng.randint(1, n)))
    elif mode == "reverse":
        perm = perm[::-1]
    groups, i = [], 0
    while i < len(perm):
        j = rng.randint(i + 1, min(len(perm), i + max(1, len(perm) // 3)))
        groups.append(perm[i:j])
        i = j
    return {"shape": shape, "chunks": chunks, "axis": axis, "indexer": groups, "dtype": rng.choice(DTYPES),
            "src": rng.choice(["ones", "from_array", "random", "elemwise"]), "post": rng.choice([None, "slice", "add", "sum", "transpose"])}


def b_shuffle(da, p):
    x = _src(da, p["src"], p["shape"], p["chunks"], p["dtype"])
    y = da.shuffle(x, [list(g) for g in p["indexer"]], p["axis"])
    if p["post"] == "slice":
        y = y[tuple(slice(0, max(1, s // 2)) for s in y.shape)]
    elif p["post"] == "add":
        y = y + x.sum()
    elif p["post"] == "sum":
        y = y.sum(axis=p["axis"])
    elif p["post"] == "transpose":
        y = y.T
    return y


def g_take(rng, variant=None):
    nd = rng.choice([1, 2, 2, 3])
    shape = [rng.choice([5, 12, 40, 100, 1000]) for _ in range(nd)]
    chunks = [_uniform_or_list(rng, s, kinds=("fine", "mid", "two", "rand", "full")) for s in shape]
    chunks = _cap_blocks(shape, chunks, 1500)
    axis = rng.randrange(nd)
    n = shape[axis]
    k = rng.choice([1, 2, n, 2 * n, 5])
    mode = rng.choice(["rand", "sorted", "neg", "arange", "reverse", "const"])
    if mode == "rand":
        idx = [rng.randrange(n) for _ in range(k)]
    elif mode == "sorted":
        idx = sorted(rng.randrange(n) for _ in range(k))
    elif mode == "neg":
        idx = [rng.randint(-n, n - 1) for _ in range(k)]
    elif mode == "arange":
        idx = list(range(0, n, rng.choice([1, 2, 3])))
    elif mode == "reverse":
        idx = list(range(n - 1, -1, -1))
    else:
        idx = [rng.randrange(n)] * k
    return {"shape": shape, "chunks": chunks, "axis": axis, "idx": idx, "dtype": rng.choice(DTYPES),
            "via": rng.choice(["take", "getitem", "getitem_np", "vindex", "dask_index"]), "src": rng.choice(["ones", "from_array", "random"])}


def b_take(da, p):
    x = _src(da, p["src"], p["shape"], p["chunks"], p["dtype"])
    ax, idx = p["axis"], p["idx"]
    if p["via"] == "take":
        return da.take(x, idx, axis=ax)
    sel = [slice(None)] * x.ndim
    if p["via"] == "getitem":
        sel[ax] = list(idx)
        return x[tuple(sel)]
    if p["via"] == "getitem_np":
        sel[ax] = np.asarray(idx)
        return x[tuple(sel)]
    if p["via"] == "dask_index":
        sel[ax] = da.from_array(np.asarray(idx) % p["shape"][ax], chunks=max(1, len(idx) // 2))
        return x[tuple(sel)]
    # vindex: point-wise on two axes when available
    if x.ndim >= 2:
        other = (ax + 1) % x.ndim
        sel[ax] = [i % p["shape"][ax] for i in idx]
        sel[other] = [i % p["shape"][other] for i in idx]
    else:
        sel[ax] = [i % p["shape"][ax] for i in idx]
    return x.vindex[tuple(sel)]


# ------------------------------------------------------------------ families: overlap

BOUNDARIES = ["none", "reflect", "periodic", "nearest", 0, 7.5]
OVERLAP_APIS = ["overlap", "map_overlap", "map_overlap_notrim", "map_overlap_asym", "gradient", "diff", "push", "overlap_trim"]


def g_overlap(rng, variant=None):
    nd = rng.choice([1, 2, 2, 3])
    shape = [rng.choice([8, 20, 64, 300, 1000]) for _ in range(nd)]
    chunks = [_uniform_or_list(rng, s, kinds=("mid", "two", "rand", "full", "mid")) for s in shape]
    chunks = _cap_blocks(shape, chunks, 600)
    depth = {str(ax): rng.choice([0, 1, 1, 2, 3]) for ax in range(nd)}
    boundary = {str(ax): rng.choice(BOUNDARIES) for ax in range(nd)}
    return {"shape": shape, "chunks": chunks, "depth": depth, "boundary": boundary, "dtype": rng.choice(["f8", "f4", "i8"]),
            "api": rng.choice(OVERLAP_APIS),
            "allow_rechunk": rng.random() < 0.8, "src": rng.choice(["ones", "from_array", "random"])}


def b_overlap(da, p):
    x = _src(da, p["src"], p["shape"], p["chunks"], p["dtype"])
    depth = {int(k): v for k, v in p["depth"].items()}
    boundary = {int(k): v for k, v in p["boundary"].items()}
    api = p["api"]
    if api == "overlap":
        return da.overlap(x, depth=depth, boundary=boundary, allow_rechunk=p["allow_rechunk"])
    if api == "overlap_trim":
        return da.trim_overlap(da.overlap(x, depth=depth, boundary=boundary, allow_rechunk=p["allow_rechunk"]), depth, boundary)
    if api == "map_overlap":
        return da.map_overlap(_same, x, depth=depth, boundary=boundary, allow_rechunk=p["allow_rechunk"], meta=np.empty((0,) * x.ndim, dtype=x.dtype))
    if api == "map_overlap_notrim":
        return da.map_overlap(_same, x, depth=depth, boundary=boundary, trim=False, allow_rechunk=p["allow_rechunk"], meta=np.empty((0,) * x.ndim, dtype=x.dtype))
    if api == "map_overlap_asym":
        d = {ax: (v, max(0, v - 1)) for ax, v in depth.items()}
        return da.map_overlap(_same, x, depth=d, boundary="none", meta=np.empty((0,) * x.ndim, dtype=x.dtype))
    if api == "gradient":
        g = da.gradient(x.astype("f8"))
        return list(g) if isinstance(g, (list, tuple)) else g
    if api == "diff":
        return da.diff(x, n=1 + sum(depth.values()) % 2, axis=0)
    if api == "push":
        return da.push(x.astype("f8"), n=None if depth[0] == 0 else depth[0], axis=0)
    raise KeyError(api)


def _same(b):
    return b


# ------------------------------------------------------------------ families: reshape

def _factorisations(rng, size, maxparts=3):
    parts = []
    rest = size
    for _ in range(rng.randint(0, maxparts - 1)):
        ds = [d for d in range(1, min(rest, 200) + 1) if rest % d == 0]
        d = rng.choice(ds)
        parts.append(d)
        rest //= d
    parts.append(rest)
    rng.shuffle(parts)
    return parts


RESHAPE_APIS = ["reshape", "reshape_nomerge", "reshape_limit", "ravel", "reshape_blockwise", "flatten_T"]


def g_reshape(rng, variant=None):
    nd = rng.choice([1, 2, 2, 3])
    shape = [rng.choice([4, 6, 12, 30, 64, 100, 240]) for _ in range(nd)]
    chunks = [_uniform_or_list(rng, s, kinds=("fine", "mid", "two", "rand", "full")) for s in shape]
    chunks = _cap_blocks(shape, chunks, 2000)
    size = int(np.prod(shape))
    mode = rng.choice(["free", "merge_all", "split_first", "keep_lead", "minus1"])
    if mode == "merge_all":
        new = [size]
    elif mode == "split_first":
        f = _factorisations(rng, shape[0], 2)
        new = f + shape[1:]
    elif mode == "keep_lead" and nd >= 2:
        new = [shape[0], size // shape[0]]
    elif mode == "minus1":
        f = _factorisations(rng, size, 2)
        new = [f[0], -1]
    else:
        new = _factorisations(rng, size, 3)
    return {"shape": shape, "chunks": chunks, "new": new, "dtype": rng.choice(DTYPES),
            "api": rng.choice(RESHAPE_APIS),
            "src": rng.choice(["ones", "from_array", "random", "elemwise"])}


def b_reshape(da, p):
    x = _src(da, p["src"], p["shape"], p["chunks"], p["dtype"])
    api = p["api"]
    new = tuple(p["new"])
    if api == "reshape":
        return x.reshape(new)
    if api == "reshape_nomerge":
        return da.reshape(x, new, merge_chunks=False)
    if api == "reshape_limit":
        return da.reshape(x, new, limit=4096)
    if api == "ravel":
        return da.ravel(x)
    if api == "flatten_T":
        return x.T.reshape(new)
    if api == "reshape_blockwise":
        if len(new) < x.ndim and -1 not in new:
            return da.reshape_blockwise(x, new)
        flat = da.reshape_blockwise(x, (int(np.prod(p["shape"])),))
        return da.reshape_blockwise(flat, tuple(p["shape"]), chunks=x.chunks)
    raise KeyError(api)


# ------------------------------------------------------------------ families: store / sources

class _Target:
    def __init__(self, shape, dtype):
        self.shape, self.dtype = shape, dtype

    def __setitem__(self, k, v):
        pass

    def __getitem__(self, k):
        return np.zeros((1,) * len(self.shape), dtype=self.dtype)


def g_store(rng, variant=None):
    nd = rng.choice([1, 2, 3])
    shape = [rng.choice([4, 10, 60, 500]) for _ in range(nd)]
    chunks = _cap_blocks(shape, [_uniform_or_list(rng, s) for s in shape], 2000)
    return {"shape": shape, "chunks": chunks, "dtype": rng.choice(DTYPES), "return_stored": rng.random() < 0.6,
            "load_stored": rng.choice([None, True, False]), "lock": rng.random() < 0.5, "n": rng.choice([1, 1, 2]),
            "region": rng.random() < 0.3, "pre": rng.choice([None, "rechunk", "add"])}


def b_store(da, p):
    xs = []
    for i in range(p["n"]):
        x = _src(da, "ones", p["shape"], p["chunks"], p["dtype"])
        if p["pre"] == "add":
            x = x + i
        elif p["pre"] == "rechunk":
            x = x.rechunk(tuple(max(1, s // 3) for s in p["shape"]))
        xs.append(x)
    ts = [_Target(tuple(p["shape"]), np.dtype(p["dtype"])) for _ in xs]
    region = tuple(slice(0, s) for s in p["shape"]) if p["region"] else None
    if p["n"] == 1:
        out = da.store(xs[0], ts[0], lock=p["lock"], regions=region, compute=False, return_stored=p["return_stored"], load_stored=p["load_stored"])
    else:
        out = da.store(xs, ts, lock=p["lock"], regions=region, compute=False, return_stored=p["return_stored"], load_stored=p["load_stored"])
    outs = list(out) if isinstance(out, (tuple, list)) else [out]
    return [o for o in outs if hasattr(o, "expr") and hasattr(o, "chunks")]


_TMP = None


def _npy_stack_dir(chunks0, rest, dtype):
    """A from_npy_stack directory with tiny real files (axis 0 stacked)."""
    import pickle

    global _TMP
    if _TMP is None:
        import atexit
        import shutil

        _TMP = tempfile.mkdtemp(prefix="c27-npy-")
        atexit.register(shutil.rmtree, _TMP, ignore_errors=True)
    d = os.path.join(_TMP, f"s-{'_'.join(map(str, chunks0))}-{'_'.join(map(str, rest))}-{dtype}")
    if not os.path.isdir(d):
        os.makedirs(d)
        for i, c in enumerate(chunks0):
            np.save(os.path.join(d, f"{i}.npy"), np.zeros((c, *rest), dtype=dtype))
        with open(os.path.join(d, "info"), "wb") as f:
            pickle.dump({"chunks": (tuple(chunks0), *((r,) for r in rest)), "dtype": np.dtype(dtype), "axis": 0}, f)
    return d


SOURCE_KINDS = ["from_delayed", "from_delayed_stack", "from_map", "from_npy_stack", "persisted", "arange", "linspace", "eye", "diag1", "diag2",
                "diagonal", "tri", "indices", "meshgrid", "fromfunction", "like", "from_array_opts", "asarray", "block", "tile", "repeat", "pad"]


def g_sources(rng, variant=None):
    kind = rng.choice(SOURCE_KINDS)
    n = rng.choice([3, 8, 30, 200, 1000])
    m = rng.choice([2, 5, 16, 64])
    return {"kind": kind, "n": n, "m": m, "c": rng.choice([1, 2, 7, n, max(1, n // 3)]), "c2": rng.choice([1, 3, m]), "dtype": rng.choice(["f8", "i8", "f4"]),
            "k": rng.choice([-2, -1, 0, 1, 3]), "post": rng.choice([None, None, "rechunk", "add", "sum", "slice", "rechunk_p2p"]),
            "opt": rng.choice(["default", "asarray_false", "lock", "fancy_false", "inline", "name_false"]), "mode": rng.choice(["constant", "edge", "reflect", "wrap", "mean"])}


def b_sources(da, p):
    import dask

    kind, n, m, c, c2, dt = p["kind"], p["n"], p["m"], p["c"], p["c2"], p["dtype"]
    if kind == "from_delayed":
        y = da.from_delayed(dask.delayed(_blockfn)(n, m), shape=(n, m), dtype=dt)
    elif kind == "from_delayed_stack":
        y = da.concatenate([da.from_delayed(dask.delayed(_blockfn)(i), shape=(c, m), dtype=dt) for i in range(min(6, max(1, n // c)))], axis=0)
    elif kind == "from_map":
        y = _from_map(da, (n, m), (c, c2), dt)
    elif kind == "from_npy_stack":
        ch0 = tuple(da.normalize_chunks((min(c, 16),), (min(n, 64),))[0])
        y = da.from_npy_stack(_npy_stack_dir(ch0, (m,), dt))
    elif kind == "persisted":
        from dask_array.io._from_graph import from_graph  # noqa: F401

        x = da.ones((min(n, 30), m), chunks=(c, c2), dtype=dt)
        try:
            y = _via_from_graph(da, x)
        except Exception:  # noqa: BLE001
            y = x
    elif kind == "arange":
        y = da.arange(n, chunks=c, dtype=dt)
    elif kind == "linspace":
        y = da.linspace(0, 1, n, chunks=c)
    elif kind == "eye":
        y = da.eye(n, chunks=c, M=n + m, k=p["k"], dtype=dt)
    elif kind == "diag1":
        y = da.diag(da.arange(n, chunks=c), k=p["k"])
    elif kind == "diag2":
        y = da.diag(da.ones((n, n), chunks=(c, c), dtype=dt), k=p["k"] if c < n else 0)
    elif kind == "diagonal":
        y = da.diagonal(da.ones((n, m, 3), chunks=(c, c2, 1), dtype=dt), offset=p["k"], axis1=0, axis2=1)
    elif kind == "tri":
        y = da.tri(n, m, k=p["k"], chunks=c)
    elif kind == "indices":
        y = da.indices((n, m), chunks=(c, c2))
    elif kind == "meshgrid":
        return list(da.meshgrid(da.arange(n, chunks=c), da.arange(m, chunks=c2), indexing=rng_free_choice(p["k"], ["xy", "ij"])))
    elif kind == "fromfunction":
        y = da.fromfunction(_ff, shape=(n, m), chunks=(c, c2), dtype=dt)
    elif kind == "like":
        x = da.ones((n, m), chunks=(c, c2), dtype=dt)
        return [da.zeros_like(x), da.full_like(x, 2, chunks=(c2, c)), da.empty_like(x, dtype="i2"), da.ones_like(x)]
    elif kind == "from_array_opts":
        a = np.broadcast_to(np.zeros((), dtype=dt), (n, m))
        opt = p["opt"]
        kw = {"asarray_false": {"asarray": False}, "lock": {"lock": True}, "fancy_false": {"fancy": False}, "inline": {"inline_array": True}, "name_false": {"name": False}}.get(opt, {})
        y = da.from_array(a, chunks=(c, c2), **kw)
    elif kind == "asarray":
        y = da.asarray(np.zeros((min(n, 40), m), dtype=dt), chunks=(c, c2))
    elif kind == "block":
        a = da.ones((c, m), chunks=(max(1, c // 2), c2), dtype=dt)
        y = da.block([[a, a + 1], [a * 2, a]])
    elif kind == "tile":
        y = da.tile(da.ones((min(n, 50), m), chunks=(c, c2), dtype=dt), (2, 3))
    elif kind == "repeat":
        y = da.repeat(da.ones((min(n, 50), m), chunks=(c, c2), dtype=dt), 3, axis=0)
    elif kind == "pad":
        y = da.pad(da.ones((n, m), chunks=(c, c2), dtype="f8"), ((1, 2), (0, 3)), mode=p["mode"])
    else:
        raise KeyError(kind)
    post = p["post"]
    if post == "rechunk":
        y = y.rechunk(tuple(max(1, s // 2) for s in y.shape))
    elif post == "rechunk_p2p":
        y = y.rechunk(tuple(max(1, s // 2) for s in y.shape), method="p2p")
    elif post == "add":
        y = y + 1
    elif post == "sum":
        y = y.sum()
    elif post == "slice":
        y = y[tuple(slice(1, None, 2) for _ in y.shape)]
    return y


def rng_free_choice(k, opts):
    return opts[k % len(opts)]


def _ff(i, j):
    return i + j


def _via_from_graph(da, x):
    """The shape a persisted collection takes: a FromGraph node over an in-memory graph of keys."""
    from dask_array.io._from_graph import FromGraph  # noqa: F401
    import inspect

    from dask_array._collection import Array  # noqa: F401
    from dask_array import _collection

    fg = getattr(_collection, "from_graph", None)
    if fg is None:
        from dask_array.io import _from_graph as mod

        fg = mod.from_graph
    sig = inspect.signature(fg)
    keys = [k for k in _flatten(x.__dask_keys__())]
    layer = {k: np.zeros(()) for k in keys}
    kw = dict(layer=layer, _meta=x._meta, chunks=x.chunks, keys=keys, name_prefix="persisted")
    return fg(**{k: v for k, v in kw.items() if k in sig.parameters})


def _flatten(k):
    if isinstance(k, list):
        for i in k:
            yield from _flatten(i)
    else:
        yield k


# ------------------------------------------------------------------ families: random

RANDOM_FNS = ["random", "normal", "poisson", "uniform", "standard_normal", "binomial", "exponential", "randint", "choice", "choice_p", "permutation",
              "gen_random", "gen_integers", "gen_normal", "gen_choice", "gen_permutation", "randomstate"]


def g_random(rng, variant=None):
    nd = rng.choice([1, 2, 3])
    shape = [rng.choice([3, 10, 100, 1000] if nd == 1 else [3, 10, 60]) for _ in range(nd)]
    chunks = [_uniform_or_list(rng, s, kinds=("mid", "two", "rand", "full", "fine") if s <= 10 else ("mid", "two", "rand", "full")) for s in shape]
    chunks = _cap_blocks(shape, chunks, 2000)
    return {"fn": rng.choice(RANDOM_FNS), "shape": shape, "chunks": chunks, "post": rng.choice([None, None, "rechunk", "rechunk_p2p", "sum", "slice", "add"])}


def b_random(da, p):
    fn, shape, chunks = p["fn"], tuple(p["shape"]), _chunks(p["chunks"])
    r = da.random
    if fn in ("random", "standard_normal", "exponential"):
        y = getattr(r, fn)(size=shape, chunks=chunks)
    elif fn == "normal":
        y = r.normal(10, 0.1, size=shape, chunks=chunks)
    elif fn == "poisson":
        y = r.poisson(3.0, size=shape, chunks=chunks)
    elif fn == "uniform":
        y = r.uniform(-1, 2, size=shape, chunks=chunks)
    elif fn == "binomial":
        y = r.binomial(10, 0.5, size=shape, chunks=chunks)
    elif fn == "randint":
        y = r.randint(0, 10, size=shape, chunks=chunks)
    elif fn == "choice":
        y = r.choice(7, size=shape, chunks=chunks)
    elif fn == "choice_p":
        y = r.choice(da.arange(4, chunks=2), size=shape, chunks=chunks, p=[0.1, 0.2, 0.3, 0.4])
    elif fn == "permutation":
        y = r.permutation(da.arange(shape[0], chunks=chunks[0] if not isinstance(chunks, int) else chunks))
    elif fn == "randomstate":
        y = r.RandomState(5).normal(size=shape, chunks=chunks)
    else:
        g = r.default_rng(3)
        if fn == "gen_random":
            y = g.random(size=shape, chunks=chunks)
        elif fn == "gen_integers":
            y = g.integers(0, 9, size=shape, chunks=chunks)
        elif fn == "gen_normal":
            y = g.normal(size=shape, chunks=chunks)
        elif fn == "gen_choice":
            y = g.choice(da.arange(12, chunks=5), size=shape[:1], chunks=chunks[:1] if not isinstance(chunks, int) else chunks)
        else:
            y = g.permutation(da.ones(shape, chunks=chunks))
    post = p["post"]
    if post == "rechunk":
        y = y.rechunk(tuple(max(1, s // 2) for s in y.shape))
    elif post == "rechunk_p2p":
        y = y.rechunk(tuple(max(1, s // 2) for s in y.shape), method="p2p")
    elif post == "sum":
        y = y.sum(axis=0)
    elif post == "slice":
        y = y[tuple(slice(0, max(1, s // 2)) for s in y.shape)]
    elif post == "add":
        y = y + y.mean()
    return y


# ------------------------------------------------------------------ families: linalg

LINALG_FNS = ["qr_tall", "qr_short", "sfqr", "svd", "svd_compressed", "lu", "cholesky", "cholesky_lower", "solve_triangular", "solve", "lstsq", "inv",
              "norm", "norm_fro", "tsqr", "dot", "matmul", "tensordot", "einsum", "outer", "vdot"]


def g_linalg(rng, variant=None):
    return {"fn": rng.choice(LINALG_FNS),
            "n": rng.choice([8, 40, 200, 1000]), "m": rng.choice([2, 4, 8]), "c": rng.choice([2, 4, 10, 50]), "dtype": rng.choice(["f8", "f4"])}


def b_linalg(da, p):
    fn, n, m, c, dt = p["fn"], p["n"], p["m"], p["c"], p["dtype"]
    c = max(c, m)  # tall-skinny blocks must be at least as tall as wide
    la = da.linalg
    tall = da.ones((n, m), chunks=(c, m), dtype=dt)
    k = min(n, 40)
    cs = max(1, min(c, k) // 2 * 2) if k % max(1, min(c, k)) else min(c, k)
    sq = da.ones((k, k), chunks=(k // 2 or 1, k // 2 or 1), dtype=dt) if k % 2 == 0 else da.ones((k, k), chunks=(k, k), dtype=dt)
    if fn == "qr_tall":
        return list(la.qr(tall))
    if fn == "qr_short":
        return list(la.qr(da.ones((m, n), chunks=(m, c), dtype=dt)))
    if fn == "sfqr":
        return list(la.sfqr(da.ones((m, n), chunks=(m, c), dtype=dt)))
    if fn == "tsqr":
        return list(la.tsqr(tall, compute_svd=True))
    if fn == "svd":
        return list(la.svd(tall))
    if fn == "svd_compressed":
        return list(la.svd_compressed(da.ones((n, 20), chunks=(c, 10), dtype=dt), 3, seed=1))
    if fn == "lu":
        return list(la.lu(sq))
    if fn == "cholesky":
        return la.cholesky(sq)
    if fn == "cholesky_lower":
        return la.cholesky(sq, lower=True)
    if fn == "solve_triangular":
        return la.solve_triangular(sq, da.ones((k,), chunks=sq.chunks[0], dtype=dt), lower=True)
    if fn == "solve":
        return la.solve(sq, da.ones((k, 3), chunks=(sq.chunks[0], 3), dtype=dt))
    if fn == "lstsq":
        return [o for o in la.lstsq(tall, da.ones((n,), chunks=(c,), dtype=dt)) if hasattr(o, "expr")]
    if fn == "inv":
        return la.inv(sq)
    if fn == "norm":
        return la.norm(tall, ord=2)
    if fn == "norm_fro":
        return la.norm(tall, axis=0)
    if fn == "dot":
        return da.dot(tall, tall.T)
    if fn == "matmul":
        return da.matmul(da.ones((3, n, m), chunks=(1, c, m), dtype=dt), da.ones((m, n), chunks=(m, c), dtype=dt))
    if fn == "tensordot":
        return da.tensordot(tall, tall, axes=((0,), (0,)))
    if fn == "einsum":
        return da.einsum("ij,kj->ik", tall, tall)
    if fn == "outer":
        return da.outer(tall[:, 0], tall[:, 1])
    if fn == "vdot":
        return da.vdot(tall[:, 0], tall[:, 1])
    raise KeyError(fn)


# ------------------------------------------------------------------ families: routines / reductions / misc classes

ROUTINES = ["histogram", "histogram_lazyrange", "histogramdd", "histogram2d", "bincount", "unique", "unique_counts", "coarsen", "coarsen_trim", "topk", "argtopk", "argmax", "argmin_axis", "nanargmax",
            "median", "percentile", "quantile", "searchsorted", "roll", "insert", "delete", "where", "choose", "select", "piecewise", "apply_gufunc", "apply_gufunc_2out",
            "apply_along_axis", "setitem", "setitem_mask", "setitem_array", "blocks", "squeeze", "expand_dims", "cumprod", "nancumsum", "cumsum_blelloch", "moving", "sliding_sum", "sliding_view",
            "compress", "nonzero", "argwhere", "isin", "digitize", "fft", "rfft2", "frexp", "modf", "divmod", "var", "std_ddof", "nanvar", "moment", "all", "any", "prod", "nanmin", "mean_split",
            "broadcast_to", "broadcast_arrays", "stack", "concatenate", "vstack", "dstack", "append", "flip", "rot90", "swapaxes", "moveaxis", "triu", "trace", "cov", "corrcoef", "average",
            "ptp", "count_nonzero", "allclose", "clip", "round", "map_blocks_newaxis", "map_blocks_drop", "map_blocks_multi", "blockwise_concat", "blockwise_adjust", "reduction_custom",
            "astype_copy", "view", "T_matmul", "bool_index_2d", "ediff1d", "union1d", "ravel_multi_index", "unravel_index", "extract", "flatnonzero", "tril_indices", "freeze", "copy", "overrides",
            "bn_move_mean", "bn_move_sum", "bn_move_min_count", "setitem_dask_index", "take_unknown_onechunk", "nanmax", "nanmean", "nanprod", "nansum", "nanstd",
            "map_blocks_multi_out", "cumsum_axis_none", "sliding_big_window"]


def g_routines(rng, variant=None):
    nd = rng.choice([1, 2, 2])
    shape = [rng.choice([6, 12, 48, 120, 1000]) for _ in range(nd)]
    chunks = [_uniform_or_list(rng, s, kinds=("mid", "two", "rand", "full", "fine") if s <= 120 else ("mid", "two", "rand", "full")) for s in shape]
    chunks = _cap_blocks(shape, chunks, 1200)
    return {"fn": rng.choice(ROUTINES), "shape": shape, "chunks": chunks, "dtype": rng.choice(["f8", "i8", "f4"]), "k": rng.choice([1, 2, 3, 5]),
            "split_every": rng.choice([None, 2, 3, 8]), "cfgpost": rng.choice([None, None, "rechunk_p2p", "rechunk"])}


def b_routines(da, p):
    import warnings

    fn, dt, k, se = p["fn"], p["dtype"], p["k"], p["split_every"]
    x = _src(da, "ones", p["shape"], p["chunks"], dt)
    n0 = p["shape"][0]
    ax = x.ndim - 1
    with warnings.catch_warnings():
        warnings.simplefilter("ignore")
        y = _routine(da, fn, x, n0, ax, k, se, dt, p)
    post = p["cfgpost"]
    if post and hasattr(y, "expr") and y.ndim >= 1 and not any(np.isnan(s) for s in y.shape):
        y = y.rechunk(tuple(max(1, int(s) // 2) for s in y.shape), method="p2p" if post == "rechunk_p2p" else None)
    return y


def _routine(da, fn, x, n0, ax, k, se, dt, p):
    x1 = x if x.ndim == 1 else x[:, 0]
    xi = (x1 * 3).astype("i8")
    if fn == "histogram":
        return list(da.histogram(x, bins=5, range=(0, 2)))[:1]
    if fn == "histogram_lazyrange":
        h = da.histogram(x, bins=4, range=(x.min(), x.max()))
        return [o for o in h if hasattr(o, "expr")]
    if fn == "histogramdd":
        s = da.ones((n0, 2), chunks=(x.chunks[0], 2))
        return da.histogramdd(s, bins=(3, 4), range=((0, 1), (0, 2)))[0]
    if fn == "histogram2d":
        return da.histogram2d(x1, x1 + 1, bins=4, range=((0, 2), (0, 3)))[0]
    if fn == "bincount":
        return da.bincount(xi, minlength=6, split_every=se)
    if fn == "unique":
        return da.unique(x1)
    if fn == "unique_counts":
        return list(da.unique(x1, return_counts=True, return_inverse=True))
    if fn == "coarsen":
        f = 2 if all(c % 2 == 0 for c in x.chunks[0]) else 1
        return da.coarsen(np.sum, x, {0: f})
    if fn == "coarsen_trim":
        return da.coarsen(np.mean, x, {0: 3}, trim_excess=True)
    if fn == "topk":
        return da.topk(x, min(k, n0), axis=0, split_every=se)
    if fn == "argtopk":
        return da.argtopk(x, -min(k, n0), axis=0, split_every=se)
    if fn == "argmax":
        return da.argmax(x, split_every=se)
    if fn == "argmin_axis":
        return da.argmin(x, axis=ax, split_every=se, keepdims=True)
    if fn == "nanargmax":
        return da.nanargmax(x.astype("f8"), axis=0)
    if fn == "median":
        return da.median(x, axis=0)
    if fn == "percentile":
        return da.percentile(x1, [10, 50])
    if fn == "quantile":
        return da.quantile(x, 0.3, axis=ax)
    if fn == "searchsorted":
        return da.searchsorted(da.arange(n0, chunks=x.chunks[0]), xi)
    if fn == "roll":
        return da.roll(x, k, axis=0)
    if fn == "insert":
        return da.insert(x, [0, min(k, n0)], 9, axis=0)
    if fn == "delete":
        return da.delete(x, [0, n0 - 1], axis=0)
    if fn == "where":
        return da.where(x > 0, x, x1[:, None] if x.ndim == 2 else 5)
    if fn == "choose":
        return da.choose(xi % 2, [x1, x1 + 1])
    if fn == "select":
        return da.select([x > 1, x < 0], [x, -x], default=7)
    if fn == "piecewise":
        return da.piecewise(x, [x < 0, x >= 0], [_neg, _same])
    if fn == "apply_gufunc":
        return da.apply_gufunc(_gmean, "(i)->()", x, output_dtypes="f8", allow_rechunk=True)
    if fn == "apply_gufunc_2out":
        return list(da.apply_gufunc(_gstats, "(i)->(),()", x, output_dtypes=("f8", "f8"), allow_rechunk=True))
    if fn == "apply_along_axis":
        return da.apply_along_axis(_gsum1, ax, x, dtype="f8", shape=())
    if fn == "setitem":
        y = x + 0
        y[1:n0:2] = 5
        return y
    if fn == "setitem_mask":
        y = x + 0
        y[y > 0] = -1
        return y
    if fn == "setitem_array":
        y = x + 0
        y[[0, n0 - 1]] = x1[:2][:, None] if x.ndim == 2 else x1[:2]
        return y
    if fn == "blocks":
        return x.blocks[tuple(slice(0, None, 2) if i == 0 else slice(None) for i in range(x.ndim))]
    if fn == "squeeze":
        return da.squeeze(x[None, ..., None][:, 0:1])
    if fn == "expand_dims":
        return da.expand_dims(x, (0, x.ndim + 1))
    if fn == "cumprod":
        return da.cumprod(x, axis=0)
    if fn == "nancumsum":
        return da.nancumsum(x.astype("f8"), axis=ax)
    if fn == "cumsum_blelloch":
        return da.cumsum(x, axis=0, method="blelloch")
    if fn == "moving":
        return da.sliding_window_view(x, min(k + 1, n0), axis=0).mean(axis=-1)
    if fn == "sliding_sum":
        return da.sliding_window_view(x, (min(k, n0),), axis=(0,)).sum(axis=-1)
    if fn == "sliding_view":
        return da.sliding_window_view(x, min(k, n0), axis=0)
    if fn == "compress":
        return da.compress([i % 2 == 0 for i in range(n0)], x, axis=0)
    if fn == "nonzero":
        return list(da.nonzero(x))
    if fn == "argwhere":
        return da.argwhere(x > 0)
    if fn == "isin":
        return da.isin(x, da.arange(4, chunks=2))
    if fn == "digitize":
        return da.digitize(x, np.array([0.0, 0.5, 1.5]))
    if fn == "fft":
        return da.fft.fft(x.rechunk({ax: -1}), axis=ax)
    if fn == "rfft2":
        z = x if x.ndim == 2 else x[:, None]
        return da.fft.rfft2(z.rechunk((-1, -1)))
    if fn == "frexp":
        return list(da.frexp(x.astype("f8")))
    if fn == "modf":
        return list(da.modf(x.astype("f8")))
    if fn == "divmod":
        return list(da.divmod(x, 2))
    if fn == "var":
        return da.var(x, axis=0, split_every=se)
    if fn == "std_ddof":
        return da.std(x, ddof=1, split_every=se)
    if fn == "nanvar":
        return da.nanvar(x.astype("f8"), axis=ax, keepdims=True, split_every=se)
    if fn == "moment":
        return da.moment(x.astype("f8"), 3, axis=0)
    if fn == "all":
        return da.all(x > 0, axis=0, split_every=se)
    if fn == "any":
        return da.any(x > 0, split_every=se)
    if fn == "prod":
        return da.prod(x, axis=ax, split_every=se)
    if fn == "nanmin":
        return da.nanmin(x.astype("f8"), axis=0, split_every=se)
    if fn == "mean_split":
        return da.mean(x, split_every=2)
    if fn == "broadcast_to":
        return da.broadcast_to(x, (k,) + tuple(x.shape), chunks=(1,) + x.chunks)
    if fn == "broadcast_arrays":
        return list(da.broadcast_arrays(x, x1[:1]))
    if fn == "stack":
        return da.stack([x, x + 1, x * 2], axis=min(k, x.ndim))
    if fn == "concatenate":
        return da.concatenate([x, x.rechunk(tuple(max(1, s // 2) for s in x.shape)), x + 1], axis=0)
    if fn == "vstack":
        return da.vstack([x, x])
    if fn == "dstack":
        return da.dstack([x, x + 1])
    if fn == "append":
        return da.append(x, x, axis=0)
    if fn == "flip":
        return da.flip(x, axis=0)
    if fn == "rot90":
        return da.rot90(x if x.ndim == 2 else x[:, None])
    if fn == "swapaxes":
        return da.swapaxes(x[None], 0, x.ndim)
    if fn == "moveaxis":
        return da.moveaxis(x[None], 0, -1)
    if fn == "triu":
        return da.triu(x if x.ndim == 2 else da.outer(x, x), k=1)
    if fn == "trace":
        return da.trace(x if x.ndim == 2 else da.outer(x, x))
    if fn == "cov":
        return da.cov(x if x.ndim == 2 else x[None])
    if fn == "corrcoef":
        return da.corrcoef(x if x.ndim == 2 else x[None])
    if fn == "average":
        return da.average(x, axis=0, weights=x1)
    if fn == "ptp":
        return da.ptp(x, axis=0)
    if fn == "count_nonzero":
        return da.count_nonzero(x, axis=ax)
    if fn == "allclose":
        return da.allclose(x, x + 1e-9)
    if fn == "clip":
        return da.clip(x, 0, 1)
    if fn == "round":
        return da.round(x.astype("f8"), 1)
    if fn == "map_blocks_newaxis":
        return x.map_blocks(_newax, new_axis=0, dtype=dt, chunks=(1,) + x.chunks)
    if fn == "map_blocks_drop":
        return x.map_blocks(_gsum0, drop_axis=0, dtype=dt) if x.numblocks[0] == 1 else x.rechunk({0: -1}).map_blocks(_gsum0, drop_axis=0, dtype=dt)
    if fn == "map_blocks_multi":
        return da.map_blocks(_add2, x, x * 2, x1[:1], dtype=dt)
    if fn == "blockwise_concat":
        idx = tuple(range(x.ndim))
        return da.blockwise(_gsumlast, idx[:-1], x, idx, dtype=dt, concatenate=True)
    if fn == "blockwise_adjust":
        idx = tuple(range(x.ndim))
        return da.blockwise(_dbl, idx, x, idx, dtype=dt, adjust_chunks={0: lambda c: 2 * c})
    if fn == "reduction_custom":
        return da.reduction(x, _rsum, _rsum, axis=0, dtype=dt, split_every=se, concatenate=True)
    if fn == "astype_copy":
        return x.astype("c16")
    if fn == "view":
        return x.astype("f8").view("i8")
    if fn == "T_matmul":
        z = x if x.ndim == 2 else x[:, None]
        return z.T @ z
    if fn == "bool_index_2d":
        return x[x > 0]
    if fn == "ediff1d":
        return da.ediff1d(x1)
    if fn == "union1d":
        return da.union1d(x1, xi)
    if fn == "ravel_multi_index":
        return da.ravel_multi_index(da.stack([xi % 3, xi % 4]), (3, 4))
    if fn == "unravel_index":
        return list(da.unravel_index(xi % 12, (3, 4)))
    if fn == "extract":
        return da.extract(x1 > 0, x1)
    if fn == "flatnonzero":
        return da.flatnonzero(x)
    if fn == "tril_indices":
        return list(da.tril_indices(min(n0, 30), chunks=max(1, min(n0, 30) // 3)))
    if fn in ("bn_move_mean", "bn_move_sum", "bn_move_min_count"):
        import bottleneck

        w = max(2, k + 2)
        # chunks smaller than the window along the axis: the native moving-window plan applies
        z = x.astype("f8").rechunk({0: max(1, min(w - 1, 2))})
        f = bottleneck.move_sum if fn == "bn_move_sum" else bottleneck.move_mean
        kw = {"min_count": 1} if fn == "bn_move_min_count" else {}
        return da.map_overlap(f, z, depth={0: (w - 1, 0)}, boundary="none", axis=0, window=w, dtype="f8", meta=np.empty((0,) * z.ndim, dtype="f8"), **kw)
    if fn == "sliding_big_window":
        w = max(2, min(n0, k + 3))
        z = x.rechunk({0: max(1, min(w - 1, 2))})
        return da.sliding_window_view(z, w, axis=0).sum(axis=-1)
    if fn == "setitem_dask_index":
        y = x1 + 0
        idx = da.from_array(np.arange(0, n0, 2), chunks=max(1, n0 // 4))
        y[idx] = da.from_array(np.zeros(len(range(0, n0, 2)), dtype=dt), chunks=max(1, n0 // 6))
        return y
    if fn == "take_unknown_onechunk":
        one = x1.rechunk(-1)
        u = one[one > 0]
        return u[[0, 0]] if k % 2 else da.take(u, [0], axis=0)
    if fn == "nanmax":
        return da.nanmax(x.astype("f8"), axis=0, split_every=se)
    if fn == "nanmean":
        return da.nanmean(x.astype("f8"), axis=ax, split_every=se)
    if fn == "nanprod":
        return da.nanprod(x.astype("f8"), split_every=se)
    if fn == "nansum":
        return da.nansum(x.astype("f8"), axis=0, keepdims=True, split_every=se)
    if fn == "nanstd":
        return da.nanstd(x.astype("f8"), axis=0, ddof=1)
    if fn == "finalize":
        from dask_array._new_collection import new_collection

        return new_collection((x + 1).expr.finalize_compute())
    if fn == "map_blocks_multi_out":
        return list(_multi_out(da, x))
    if fn == "cumsum_axis_none":
        return da.cumsum(x, axis=None)
    if fn == "argmax_unknown":
        return da.argmax(x[x > 0])
    if fn == "freeze":
        return (x + 1).freeze_chunks() + 1
    if fn == "copy":
        return x.copy()
    if fn == "overrides":
        y = x[x > 0]
        y.compute_chunk_sizes if False else None
        z = x1 + 0
        try:
            z._chunks = z.chunks  # collection-level chunk override (ChunksOverride)
        except Exception:  # noqa: BLE001
            pass
        return [y, z]
    raise KeyError(fn)


def _multi_out(da, x):
    """The multi-output block mapping used by the xarray chunk manager (MapBlocksOutput projections)."""
    import itertools

    from dask.base import tokenize
    from dask_array._map_blocks import map_blocks_multi_output

    dims = tuple(f"d{i}" for i in range(x.ndim))
    block_specs = {idx: None for idx in itertools.product(*(range(n) for n in x.numblocks))}
    return map_blocks_multi_output(
        _split_block, [x.expr], [dims], dims, block_specs,
        [{"key": "double", "indices": dims, "chunks": x.chunks, "dtype": x.dtype},
         {"key": "lead", "indices": dims[:1], "chunks": (x.chunks[0],), "dtype": x.dtype}],
        token="c27split-" + tokenize(x.name),
    )


def _split_block(spec, block):
    return {"double": block * 2, "lead": block.reshape(block.shape[0], -1).sum(axis=1)}


def _neg(b):
    return -b


def _gmean(b):
    return b.mean(axis=-1)


def _gstats(b):
    return b.mean(axis=-1), b.std(axis=-1)


def _gsum1(b):
    return b.sum()


def _gsum0(b):
    return b.sum(axis=0)


def _gsumlast(b):
    return b.sum(axis=-1)


def _newax(b):
    return b[None]


def _add2(a, b, c):
    return a + b + c


def _dbl(b):
    return np.concatenate([b, b], axis=0)


def _rsum(b, axis=None, keepdims=False):
    return np.sum(b, axis=axis, keepdims=keepdims)


# ------------------------------------------------------------------ registry

def _forced(g, key):
    def gen_(rng, variant=None):
        p = g(rng)
        if variant is not None and key is not None:
            p[key] = variant
        return p
    return gen_


RECHUNK_VARIANTS = [f"{pat}/{m}" for pat in ("transpose", "free", "merge", "split") for m in ("none", "tasks", "p2p")] + ["transpose/p2p"] * 3

# family -> (gen(rng, variant), build(da, params), weight (cases per variant per quick run), variants)
CATALOG = {
    "rechunk_big": (g_rechunk_big, b_rechunk_big, 6, RECHUNK_VARIANTS),
    "rechunk_chain": (_forced(g_rechunk_chain, None), b_rechunk_chain, 12, [None]),
    "rechunk_auto": (_forced(g_rechunk_auto, "method"), b_rechunk_auto, 4, [None, "tasks", "p2p"]),
    "shuffle": (_forced(g_shuffle, "post"), b_shuffle, 5, [None, "slice", "add", "sum", "transpose"]),
    "take": (_forced(g_take, "via"), b_take, 5, ["take", "getitem", "getitem_np", "vindex", "dask_index"]),
    "overlap": (_forced(g_overlap, "api"), b_overlap, 4, OVERLAP_APIS),
    "reshape": (_forced(g_reshape, "api"), b_reshape, 5, RESHAPE_APIS),
    "store": (_forced(g_store, None), b_store, 12, [None]),
    "sources": (_forced(g_sources, "kind"), b_sources, 2, SOURCE_KINDS),
    "random": (_forced(g_random, "fn"), b_random, 1, RANDOM_FNS),
    "linalg": (_forced(g_linalg, "fn"), b_linalg, 1, LINALG_FNS),
    "routines": (_forced(g_routines, "fn"), b_routines, 1, ROUTINES),
}


def build_catalog(da, name, params):
    """-> list of Arrays."""
    out = CATALOG[name][1](da, params)
    if isinstance(out, (list, tuple)):
        return [o for o in out if hasattr(o, "expr")]
    return [out]


def planned_stages(da, p):
    """Number of stages plan_rechunk emits for a rechunk_big case (under the ambient configuration)."""
    from dask_array._rechunk import plan_rechunk

    dt = np.dtype(p["dtype"])
    old = da.normalize_chunks(_chunks(p["old"]), tuple(p["shape"]), dtype=dt)
    new = da.normalize_chunks(_chunks(p["new"]), tuple(p["shape"]), dtype=dt)
    return len(plan_rechunk(old, new, dt.itemsize, p["threshold"], p["block_size_limit"]))
