"""C10 — result ownership: arrays RETURNED by compute belong to the caller.

Whatever the caller does to an array a compute returned (here: overwrite it in place), the NumPy array passed to
from_array, the data held by a persisted collection and every other array returned earlier must not change: otherwise
"computing never modifies the user's arrays" and "any order of computes yields the same results" both fail one step
later (x.compute() now returns what the caller wrote into ANOTHER array).

A case is a JSON dict {"kind": "own", "shape", "chunks", "dtype", "dseed", "stage": "plain"|"derived-persist"|
"source-persist"|"plain-derived", "sched": "sync"|"threads", "optimize": bool, "access": [<accessor>...]}.
accessors (each yields NumPy arrays): ["compute"], ["dask.compute"], ["joint"] (dask.compute(x, x.sum())), ["slice", [[a,b,c]|None...]],
["blocks", [i...]], ["delayed", k], ["asarray"], ["array"], ["row", i], ["T"], ["ravel"], ["astype"], ["rechunk1"],
["persist"], ["optimize"], ["copy"], ["ident"], ["newaxis"], ["two"] (dask.compute(x[aligned], x)); ["delayed", k] only in the fixed
probe of the known finding `result-aliased:to_delayed`.
After EVERY access: the result equals NumPy's; it is then overwritten in place; the user's array is bytewise unchanged,
earlier results (kept un-overwritten copies are compared with the arrays themselves BEFORE they are overwritten) and
x.compute() / (x + 0).compute() still give the original values.
Signature: `result-aliased:compute` (`result-aliased:to_delayed` for the Delayed accessor).
"""
from __future__ import annotations

import time
import warnings

import numpy as np

from harness import graphs
from harness.props_ext.c10_catalog import chunk_pattern, scribble, source_array


def _ident(b):
    return b


def _sl(e):
    return slice(None) if e is None else slice(e[0], e[1], e[2])


def access(da, dask, x, want_x, acc, sched):
    """-> (list of returned arrays, list of expected arrays)"""
    kw = {"scheduler": sched}
    if sched == "threads":
        kw["num_workers"] = 4
    t = acc[0]
    if t == "compute":
        return [x.compute(**kw)], [want_x]
    if t == "dask.compute":
        return [dask.compute(x, **kw)[0]], [want_x]
    if t == "joint":
        r = dask.compute(x, x.sum(), **kw)
        return [r[0]], [want_x]
    if t == "slice":
        idx = tuple(_sl(e) for e in acc[1])
        return [x[idx].compute(**kw)], [want_x[idx]]
    if t == "two":
        idx = tuple(_sl(e) for e in acc[1])
        r = dask.compute(x[idx], x, **kw)
        return list(r), [want_x[idx], want_x]
    if t == "blocks":
        idx = tuple(acc[1])
        lo = [sum(c[:i]) for c, i in zip(x.chunks, idx)]
        w = want_x[tuple(slice(l, l + c[i]) for l, c, i in zip(lo, x.chunks, idx))]
        return [x.blocks[idx].compute(**kw)], [w]
    if t == "delayed":
        d = x.to_delayed()
        pos = np.unravel_index(acc[1] % d.size, d.shape)
        lo = [sum(c[:i]) for c, i in zip(x.chunks, pos)]
        w = want_x[tuple(slice(l, l + c[i]) for l, c, i in zip(lo, x.chunks, pos))]
        return [d[pos].compute(**kw)], [w]
    if t == "asarray":
        with dask.config.set(scheduler=sched):
            return [np.asarray(x)], [want_x]
    if t == "array":
        with dask.config.set(scheduler=sched):
            return [x.__array__()], [want_x]
    if t == "row":
        return [x[acc[1]].compute(**kw)], [want_x[acc[1]]]
    if t == "T":
        return [x.T.compute(**kw)], [want_x.T]
    if t == "ravel":
        return [x.ravel().compute(**kw)], [want_x.ravel()]
    if t == "astype":
        return [x.astype(x.dtype).compute(**kw)], [want_x]
    if t == "rechunk1":
        return [x.rechunk(tuple(-1 for _ in x.shape)).compute(**kw)], [want_x]
    if t == "persist":
        return [x.persist(scheduler="sync").compute(**kw)], [want_x]
    if t == "optimize":
        return [x.optimize().compute(**kw)], [want_x]
    if t == "copy":
        return [x.copy().compute(**kw)], [want_x]
    if t == "ident":
        return [x.map_blocks(_ident, dtype=x.dtype).compute(**kw)], [want_x]
    if t == "newaxis":
        return [x[None].compute(**kw)], [want_x[None]]
    raise KeyError(t)


def sig_of(acc):
    # Delayed objects hand out task values as they are (no array finalizer): a class of its own
    return "result-aliased:to_delayed" if acc[0] == "delayed" else "result-aliased:compute"


def run_case(ctx, case, count=True):
    import dask
    import dask_array as da

    fails = []
    note = lambda k, n=1: ctx.notes.__setitem__(k, ctx.notes.get(k, 0) + n)
    spec = {"shape": case["shape"], "chunks": case["chunks"], "dtype": case["dtype"], "dseed": case["dseed"], "nan": 0.0, "ties": False}
    chunks = tuple(tuple(c) for c in case["chunks"])
    stage = case["stage"]

    builds = [0]

    def build():
        # a rebuilt history gets DIFFERENT data: from_array of identical data dedups to the very expression (and the
        # blocks it holds) that the previous history may have corrupted
        a = source_array(dict(spec, dseed=spec["dseed"] + 7919 * builds[0]))
        builds[0] += 1
        a0 = a.copy()
        x = da.from_array(a, chunks=chunks)
        want_x = a0
        if stage in ("derived-persist", "plain-derived"):
            x = x * 2 + 1
            want_x = a0 * 2 + 1
        if stage in ("derived-persist", "source-persist"):
            x = x.persist(scheduler="sync")
        return a, a0, x, want_x

    with dask.config.set({"array.optimize-graph": case["optimize"]}), warnings.catch_warnings():
        warnings.simplefilter("ignore")
        a, a0, x, want_x = build()

        def consequences(sig, label):
            if graphs.fingerprint(a) != graphs.fingerprint(a0):
                fails.append((sig, f"{label}: the NumPy array passed to from_array changed: {a0.ravel()[:6].tolist()} -> {a.ravel()[:6].tolist()}"))
                return True
            for how, y in (("x.compute()", x), ("(x + 0).compute()", x + 0)):
                try:
                    now = y.compute(scheduler="sync")
                except Exception as e:
                    fails.append((sig, f"{label}: {how} now raises {type(e).__name__}: {str(e)[:100]}"))
                    return True
                if now.shape != want_x.shape or not np.array_equal(now, want_x):
                    fails.append((sig, f"{label}: {how} ({stage} collection, chunks {case['chunks']}) now returns {now.ravel()[:6].tolist()} instead of {want_x.ravel()[:6].tolist()}"))
                    return True
                scribble([now])
            return False

        kept = []  # (accessor, array the caller still holds untouched, private snapshot)
        for acc in case["access"]:
            sig = sig_of(acc)
            label = f"after overwriting in place the array(s) returned by {acc} under scheduler={case['sched']}"
            try:
                got, want = access(da, dask, x, want_x, acc, case["sched"])
            except Exception as e:
                note("own.access_raised")
                ex = ctx.notes.setdefault("own.access_raised_examples", [])
                if len(ex) < 4:
                    ex.append(f"{acc} {stage} {case['chunks']}: {type(e).__name__}: {str(e)[:80]}")
                continue
            if count:
                ctx.count(("own", stage, acc[0], case["sched"], all(len(c) == 1 for c in chunks)))
            broken = False
            for g, w in zip(got, want):
                g2 = np.asarray(g)
                if g2.shape != w.shape or not np.array_equal(g2, w):
                    # values wrong BEFORE anything was overwritten here: an earlier overwrite got through unnoticed
                    fails.append(("result-aliased:compute", f"{acc} returns {g2.ravel()[:6].tolist()} instead of {np.asarray(w).ravel()[:6].tolist()} (arrays returned by EARLIER accesses had been overwritten in place)"))
                    broken = True
                    break
            if not broken:
                note("own.results_overwritten", scribble(got))
                # arrays returned earlier that the caller left alone
                for lab, arr, snap in kept:
                    if graphs.fingerprint(arr) != graphs.fingerprint(snap):
                        fails.append((sig, f"{label}: the array returned earlier by {lab} changed too (two results share memory)"))
                        broken = True
                        break
            if not broken:
                broken = consequences(sig, label)
            if broken:
                # start again from a fresh history, so that one aliasing accessor does not hide the others
                a, a0, x, want_x = build()
                kept = []
                continue
            if case.get("keep") and len(kept) < 3:
                try:
                    g, _ = access(da, dask, x, want_x, acc, case["sched"])
                    if isinstance(g[0], np.ndarray):
                        kept.append((acc, g[0], g[0].copy()))
                except Exception:
                    pass
        if count:
            note("own.cases")
    return fails


# x.to_delayed()[i].compute() is NOT among the judged accessors: Delayed objects hand out the block object held in the
# graph (documented known finding `result-aliased:to_delayed`, one fixed probe below keeps it reproduced)
ACCESSORS = ("compute", "dask.compute", "joint", "aligned", "two", "unaligned", "blocks", "asarray", "array", "row", "T", "ravel",
             "astype", "rechunk1", "persist", "optimize", "copy", "ident", "newaxis")

DELAYED_PROBE = {"kind": "own", "shape": [4], "chunks": [[2, 2]], "dtype": "i8", "dseed": 1, "stage": "plain", "sched": "sync", "optimize": True,
                 "access": [["delayed", 0]], "keep": False}


def known_probe(ctx):
    """the documented finding: a block returned by x.to_delayed()[0].compute() IS the block held in the graph"""
    for sig, detail in run_case(ctx, DELAYED_PROBE, count=False) or []:
        ctx.fail(sig, DELAYED_PROBE, detail)


def mk_access(rng, name, shape, chunks):
    nd = len(shape)
    if name in ("aligned", "two"):
        # bounds that coincide EXACTLY with chunk edges: one whole block (or a run of whole blocks along one axis)
        idx = []
        for c in chunks:
            i = rng.randrange(len(c))
            j = i if rng.random() < 0.8 else rng.randrange(i, len(c))
            idx.append([sum(c[:i]), sum(c[: j + 1]), None])
        return ["slice" if name == "aligned" else "two", idx]
    if name == "unaligned":
        idx = []
        for n in shape:
            lo = rng.randint(0, max(0, n - 2))
            idx.append([lo, rng.randint(lo + 1, n), None] if rng.random() < 0.8 else None)
        return ["slice", idx]
    if name == "blocks":
        return ["blocks", [rng.randrange(len(c)) for c in chunks]]
    if name == "delayed":
        return ["delayed", rng.randrange(64)]
    if name == "row":
        return ["row", rng.randrange(-shape[0], shape[0])]
    return [name]


def gen_cases(rng):
    """ENUMERATED in every run: stage x {single chunk, several chunks} with EVERY accessor (order drawn); scheduler drawn"""
    out = []
    for stage in ("derived-persist", "source-persist", "plain", "plain-derived"):
        for single in (True, False):
            nd = rng.choice((1, 2, 2))
            shape = [rng.randint(3, 6) for _ in range(nd)]
            if single:
                chunks = [[n] for n in shape]
            else:
                chunks = [chunk_pattern(rng, n, rng.choice(("ragged", "regular", "first1", "last1"))) for n in shape]
                if all(len(c) == 1 for c in chunks):
                    chunks[0] = [1, shape[0] - 1]
            names = list(ACCESSORS)
            rng.shuffle(names)
            if stage.startswith("plain") and not single:
                names = names[:10]  # recomputed from the user's array every time: a sample is enough
            acc = [mk_access(rng, nm, shape, chunks) for nm in names]
            out.append({"kind": "own", "shape": shape, "chunks": chunks, "dtype": rng.choice(("f8", "i8", "f4")), "dseed": rng.randrange(1 << 31),
                        "stage": stage, "sched": rng.choice(("sync", "sync", "threads")), "access": acc, "keep": rng.random() < 0.5})
    return out


def minimise(ctx, case, sig):
    """one accessor is usually enough: report the smallest failing history"""
    for acc in case["access"]:
        c = dict(case, access=[acc], keep=False)
        f = run_case(ctx, c, count=False)
        if f and any(s == sig for s, _ in f):
            return c, next(d for s, d in f if s == sig)
    return None


def run(ctx, budget_s):
    t0 = time.time()
    cases = gen_cases(ctx.rng)
    ctx.notes["own.generated"] = ctx.notes.get("own.generated", 0) + len(cases)
    for i, c in enumerate(cases):
        if time.time() - t0 > budget_s:
            ctx.notes["own.stopped_early"] = ctx.notes.get("own.stopped_early", 0) + 1
            continue
        case = dict(c, optimize=ctx.rng.random() < 0.6)
        fails = run_case(ctx, case)
        if i == 0:
            ctx.sample({"result-ownership": c["stage"], "chunks": c["chunks"], "sched": c["sched"], "access": c["access"][:4]})
        seen = set()
        for sig, detail in fails or []:
            if sig in seen:
                continue
            seen.add(sig)
            small = minimise(ctx, case, sig)
            if small is not None:
                ctx.fail(sig, small[0], small[1])
            else:
                ctx.fail(sig, case, detail)
